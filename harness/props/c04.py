"""C04 — OUTPUT4 write followed by read is the identity (DESIGN.md section 6/C04).

Tie
  * translator harness/translate/c04_op4consts.py -> lean/PyYetiVerif/Generated/Op4Consts.lean
    (the literals of OP4.__init__, the ASCII/binary headers, the `<< 16` / `>> 16` of the nonbigmat string
    header, the ASCII reader's default format and title-line field widths; the column-header slices of the
    four ASCII readers are asserted to be the literals of the Lean model);
  * exact correspondence between the Lean models (run through Drivers/C04.lean) and pyyeti.nastran.op4:
      colstats  OP4._sparse_col_stats                      == Op4.colStats
      enc       bytes written by op4.write(binary=True)    == Op4.encFileBytesFx (the writer with _split_strings)
      dec-d     op4.load(into='list', sparse=False)        == Op4.decodeBytes    (the function of file_roundtrip_bytes)
      dec-s/a   op4.load(..., sparse=True/None)            == Op4.rdFile + cooOfPuts / sparseAuto
      dir       op4.dir                                    == Op4.dirWords
      asc       text written by op4.write(binary=False)    == Op4.encFileAscii
      fmt       '%{numlen}.{digits}E' % x (CPython)        == Op4.fmtE
      aread     op4.load (3 modes) + op4.dir on the ASCII text pyYeti wrote (digits 1..16, 17, 20, 30, 73, default)
                                                           == Op4A.loadAscii / dirAscii  (Model/Op4Ascii.lean)
      avar      the same on ASCII variant files from the format-only encoder Op4V.encAFile (D/E exponents, any
                perline/width, with/without 1P, lower case, single precision, arbitrary partitions into strings,
                3-digit exponents, under/overflow of float())
      amut      the same on mutated texts (cut at a line, no final newline, empty line, lower case, format
                field removed -> defaults 5/16, blanks after the title line): what the reader rejects
      afld/aint float(field) / int(field) (CPython)        == Op4A.pyFloat? (+ PyFloat.toBits) / Op4A.pyInt?
      avals     OP4._put_ascii_values_sparse[_c]           == Op4A.readVals (fields + pyFloat?)
      ablk      OP4._get_ascii_block                       == Op4A.getBlock
      wr        bytes / text written by op4.write on its *arguments* (mapping / list / single names, matrices and
                forms; 0-d, 1-d, 2-d, 3-d inputs of float64/float32/int/uint/bool/complex128/complex64 dtype, native or
                byte-swapped, C/F-ordered, strided, negatively strided, python scalars and nested lists; scipy.sparse
                coo/csr/csc/bsr/dia/lil with stored triplets in any order, explicit zeros, duplicates, unsorted indices)
                                                           == Op4.prepare + writeAllWords / writeOneAscii
                                                              (Model/Op4Input.lean, Model/Op4Sparse.lean)
      tod       scipy.sparse.coo_matrix((V,(I,J))).toarray() == Op4.cooToDense (IEEE addition in the driver)
  * model-free oracle (search / replay): read(write(x)) == x on the public API only; and, for ASCII variant
    files, read(text) == the logical content the text was generated from (independent Python encoder).
"""
import json
import os
import shutil
import struct
import tempfile
import warnings

import numpy as np
import scipy.sparse as sp

import sys

import runner as _runner

# ./check runs runner.py as __main__; `import runner` is a second copy of the module, whose exception
# classes main() does not catch.  Use the classes of the running script when there is one.
_main = sys.modules.get("__main__")
TieBroken = getattr(_main, "TieBroken", _runner.TieBroken)
Infra = getattr(_main, "Infra", _runner.Infra)

ID = "C04"
LEAN_MODULES = ["PyYetiVerif.Props.C04", "PyYetiVerif.Audit.C04", "PyYetiVerif.Model.PyFloat",
                "PyYetiVerif.Model.Op4Variants", "PyYetiVerif.Model.Op4Input", "PyYetiVerif.Model.Op4AsciiBits",
                "PyYetiVerif.Model.Op4Fixed", "PyYetiVerif.Props.C04Fix", "PyYetiVerif.Model.Op4FixedInput",
                "PyYetiVerif.Props.C04AsciiBits", "PyYetiVerif.Props.C04FixViews"]
                # (PyFloat .. Op4Fixed: imported by Drivers/C04.lean; C04Fix: the `_fixed` theorems of the repair candidates)
AUDIT_FILE = "PyYetiVerif/Audit/C04.lean"
THEOREMS = [
    "PyYetiVerif.C04." + n
    for n in (
        "colStats_spec colStats_maximal nwords_consumed unpack_pack pack_fits_i32 column_roundtrip_nonbigmat "
        "column_roundtrip_bigmat column_roundtrip_dense name_roundtrip nonbigmat_writes_iff file_writes_iff "
        "file_roundtrip_binary decCol_spec nonbigmat_overflow_example double_words_roundtrip bytes_roundtrip "
        "fmtE_width ascii_overflow_example file_roundtrip_bytes empty_file_refused value_lines ascii_slicing "
        "fits_iff_width ascii_column_roundtrip_dense ascii_column_roundtrip_bigmat ascii_column_roundtrip_nonbigmat "
        "string_lines header_roundtrip_ascii file_roundtrip_ascii decOf_zero ascii_entry_spec sci_mantissa_digits "
        "ascii_value_half_unit field_roundtrip "
        "write_domain recLen_spec file_roundtrip_binary_domain file_roundtrip_bytes_domain sparse_auto_rule storedIdx_spec "
        "coo_view_correct write_sparse_eq_write_dense denseMat_entry ensure_2d_shapes "
        "vector_input_is_row write_input_normalised plumb_spec write_replaces_file read_back_bits read_back_bits_subnormal "
        "read_back_bits_finite read_back_needs_17 dir_matches_load_ascii sparse_views_ascii "
        # Props/C04Fix.lean: the binary nonbigmat writer with _split_strings (F2 repaired; Model/Op4Fixed.lean)
        "split_strings_spec nonbigmat_never_overflows_fixed nonbigmat_writes_fixed column_roundtrip_nonbigmat_fixed nonbigmat_unchanged_fixed file_writes_fixed file_roundtrip_binary_fixed write_domain_fixed file_roundtrip_binary_domain_fixed file_roundtrip_bytes_domain_fixed decOf_cases writer_eq_unsplit file_writer_eq_unsplit "
        # Props/C04AsciiBits.lean: the ASCII round trip of whole files in bit patterns, dense and sparse read
        "entryBits_aEntry file_roundtrip_ascii_bits ascii_bits_entry sparse_view_ascii_toarray "
        # Props/C04FixViews.lean: the sparse views and the sparse-input / argument theorems for the writer with _split_strings
        "coo_view_correct_fixed sparse_auto_rule_fixed file_views_fixed write_sparse_eq_write_dense_fixed "
        "write_input_normalised_fixed"
    ).split()
]
TRUSTED = [
    "correspondence harness harness/props/c04.py (exact: bytes, text, decoded bit patterns)",
    "translator harness/translate/c04_op4consts.py (constants of op4.py -> Generated/Op4Consts.lean)",
    "CPython struct.pack/unpack, '%E' formatting, int() and float() are modelled (fmtE, pyInt?, pyFloat? + the "
    "correctly rounded PyFloat.toBits: decBits, Model/Op4AsciiBits.lean) and correspondence-checked, not verified",
    "CPython text-mode readline / itertools.islice are modelled by cutting the text at '\\n' (linesOf)",
    "numpy/scipy.sparse containers are modelled by what they compute: nonzero, lexsort, atleast_2d, astype (Raw.toD), "
    "sp.find = sum of the stored values of a position in numpy's reduceat order with zero sums dropped (foundAt), "
    "tocoo() presents the stored triplets, coo_matrix(...).toarray() adds them from +0.0 (cooToDense), np.allclose (a "
    "parameter of autoForm); IEEE double addition is Lean's Float addition in the driver and a parameter in the theorems",
    "matrix names are ASCII; doubles are finite (the property's quantifier)",
]
RULE = (
    "a case is one file: 1-3 matrices (ndarray or scipy-sparse, real or complex, 0..40 rows x 0..6 columns, "
    "sparsity styles dense/random/runs/all-zero/empty rows and columns, values from small integers, normals, "
    "arbitrary finite bit patterns, subnormals, 3-digit exponents, -0.0) x byte order x sparse option x digits x "
    "names (valid 1..8 characters, mixed case, invalid, too long) x forms (automatic or explicit); plus two "
    "16383/16384-row single-string columns and a sweep over digits 1..16, 17, 20, 30, 73 and the default x the four "
    "sparse options; each file is compared as bytes/text, decoded in the three read modes and by dir, and the ASCII "
    "text is read by the Lean ASCII reader; ASCII reader only: variant files (any perline/width, D or E exponents, "
    "1P or not, lower case, single/double, arbitrary string partitions, 3-digit exponents of both signs, values that "
    "under/overflow), mutated texts (what the reader rejects), single fields for float()/int(), blocks for the put "
    "functions and _get_ascii_block; write arguments (wr): 1-3 entries given as a mapping (matrix, (matrix, form) or "
    "(matrix, None) values), as lists / a tuple (forms absent, complete or one short) or as single values; each matrix a "
    "0-d / 1-d / 2-d (also 0 x n, n x 0) / 3-d array of float64, float32, int64, int32, uint8, uint64, bool, "
    "complex128, complex64 or byte-swapped dtype in C, Fortran, strided or negatively strided memory, a python scalar or "
    "nested list, or a scipy.sparse coo/csr/csc/bsr/dia/lil matrix built from shuffled triplets with explicit +-0.0 "
    "entries, up to three duplicates of a position (also cancelling ones) and unsorted csr/csc indices (values finite "
    "and of magnitude below 1e150 so that every summation order stays finite), x layout option x binary/ASCII x byte "
    "order x digits; toarray (tod): up to 12 triplets on at most 6 x 5, up to three per position, values incl. +-0.0; "
    "non-trivial = some matrix has a column with at least two strings or the write raises (files) / every case "
    "(reader-only and argument streams); distinct by the whole logical input"
)
ASSUMPTIONS = [
    "values are finite doubles; names are ASCII; digits between 1 and 73 (perline >= 1)",
    "binary: the writer's own domain (write_domain): dimensions <= 2^31 - 1, cols + 1, form and every column record length "
    "12 + 8*elems / 4*(3 + nwords) below 2^31, form is a non-negative integer (nonbigmat strings are split at 16383 // multiplier rows: every packed header fits)",
    "ASCII theorems: 6*rows < 10^8, columns + 1 < 10^8, form < 10^8 (every integer fits its 8-character field), "
    "valid names of at most 8 characters, at least one matrix per file (every finite double is admitted: a negative value "
    "with a 3-digit exponent is written with one digit less, F3 repaired); the writer's ValueError above 99 999 999 rows is "
    "not modelled",
    "ASCII reader model: no carriage returns, no underscores / inf / nan in numbers, announced perline and numlen "
    ">= 1, no negative row / column / length fields (the model answers `reject`; the harness never produces them)",
    "scipy.sparse inputs: double precision values in the duplicate-summing model (float32 / integer sparse inputs are "
    "tied without duplicates), at most 8 stored values per position (numpy sums longer runs pairwise); write arguments: a python list as a mapping value means (matrix, form) and a python list "
    "as `matrices` means a list of matrices (documented), so nested lists are matrices only inside a list of matrices",
]
PARTIAL = (
    "proved now: the sparse=True view and the sparse=None rule for binary files (coo_view_correct, sparse_auto_rule), "
    "sparse inputs = their ndarray (write_sparse_eq_write_dense), input normalisation and argument plumbing "
    "(write_input_normalised), the writer's true domain (file_roundtrip_binary_domain), float(decimal) = the printed "
    "double for digits >= 16 (read_back_bits*), dir on written ASCII files (dir_matches_load_ascii), the ASCII round trip "
    "of whole files in bit patterns for digits 16..73 - dense read, sparse=True triplets and their .toarray() "
    "(file_roundtrip_ascii_bits, ascii_bits_entry, sparse_view_ascii_toarray: every element of every matrix a finite "
    "double with Wide d b = false or 17 <= d, the hypothesis FileFin; complex elements pass through re + 1j*im in both "
    "reads, which is cooEntry: only the sign of a zero part can change). Still not proved: "
    "(1) for ASCII files written with fewer than 16 digits (and for a negative value with a 3-digit exponent at 16) the "
    "reads are proved as printed decimals only (file_roundtrip_ascii, sparse_views_ascii, ascii_value_half_unit), the "
    "double is then the correctly rounded decimal by definition of decBits; digits 74..5000 have the per-field theorem "
    "only (perline = 0, outside file_roundtrip_ascii); (2) that scipy's sp.find / tocoo / toarray compute what foundAt / cooToDense say (summation "
    "order of duplicates, zero signs) and numpy's astype what Raw.toD says is tied by the wr / tod streams, not proved; "
    "write_sparse_eq_write_dense is about the ndarray denseMat (the found sums), which equals A.toarray() only up to the "
    "sign of zero parts and, from three duplicates of one position on, the last bit of the sum; (3) the automatic form "
    "(autoForm, np.allclose as a parameter) is a model definition checked by correspondence, no theorem; (4) "
    "(closed: file_roundtrip_ascii_bits); (5) dir / load on ASCII variants the writer never produces and files with carriage returns are outside "
    "(C11); the ASCII writer's ValueError above 99 999 999 rows is not modelled; (6) the binary nonbigmat writer with "
    "_split_strings (F2 repaired in /repo, 27f7d6b) is Model/Op4Fixed.lean encMatWordsFx / writeFileWordsFx: the whole-file "
    "theorems are proved for it without any hypothesis on string lengths (Props/C04Fix.lean: file_writes_fixed, "
    "file_roundtrip_binary_fixed, write_domain_fixed, file_roundtrip_binary_domain_fixed, file_roundtrip_bytes_domain_fixed, "
    "column_roundtrip_nonbigmat_fixed, split_strings_spec, nonbigmat_never_overflows_fixed), and so are the sparse views "
    "(coo_view_correct_fixed, sparse_auto_rule_fixed, file_views_fixed: same triplets, same sparse=None rule, same "
    ".toarray()), the scipy.sparse branch of the splitting writer (Model/Op4FixedInput.lean spStringsFx / "
    "encMatWordsSpFx / writeOneWordsFx: write_sparse_eq_write_dense_fixed) and the argument plumbing in front of it "
    "(writeAllWordsFx: write_input_normalised_fixed; the driver's wr stream runs writeAllWordsFx). Still about the "
    "encoder WITHOUT the split: file_roundtrip_bytes / file_roundtrip_bytes_domain and file_writes_iff of Props/C04.lean "
    "(their _fixed counterparts are file_roundtrip_bytes_domain_fixed and file_writes_fixed) and C11's skip_positions; "
    "the unsplit encoder is the writer whenever no run of non-zero rows exceeds 16383 // multiplier (writer_eq_unsplit, "
    "file_writer_eq_unsplit). The wr stream's inputs have at most 40 rows, so the split of a scipy.sparse column is "
    "exercised against the code through the enc / dec streams only (16384-row real and 8192-row complex strings handed "
    "over as ndarray and as scipy.sparse, three read modes: the Lean side is encFileBytesFx on the ndarray the input "
    "stands for, which write_sparse_eq_write_dense_fixed proves equal to the sparse branch) and by the oracle; (7) F3 is swapped in place (fmtE = numform(value)): read_back_bits* "
    "carry the hypothesis Wide d b = false or 17 <= d - a negative value with a 3-digit exponent written with the default 16 "
    "digits reads back to 16 significant digits, not bit-identical"
)
MANIFEST = {
    "level_text": "Proof (Lean 4, kernel-checked, standard axioms) about exact models of op4.write / op4.load / op4.dir: the "
    "argument plumbing and input normalisation of write, both writers incl. their scipy.sparse branches, the binary reader "
    "(bytes), the ASCII reader (lines, int(), float() as exact decimals, then the correctly rounded decimal -> double). "
    "Binary: for every non-empty list of matrices, layout and byte order on the writer's own domain (every integer handed "
    "to struct.pack fits: write_domain), decodeBytes of the written bytes is the written names (lower-cased), shapes, forms, "
    "types and columns (file_roundtrip_bytes_domain / file_roundtrip_binary_domain; -0.0 outside written strings reads as "
    "+0.0); nonbigmat strings are split at 16383 // multiplier rows (_split_strings, F2 repaired: split_strings_spec, nonbigmat_never_overflows_fixed), so the writer fails only outside that domain (file_writes_fixed; the whole-file theorems for the splitting writer are the _fixed ones of Props/C04Fix.lean, those for the unsplit encoder coincide with it below 16384-row strings: writer_eq_unsplit; the sparse views, the scipy.sparse branch and the argument plumbing are proved for the splitting writer too: coo_view_correct_fixed, sparse_auto_rule_fixed, file_views_fixed, write_sparse_eq_write_dense_fixed, write_input_normalised_fixed). "
    "sparse=True returns exactly the stored elements as (row, col, value) triplets in file order - the non-zero elements "
    "for the sparse layouts, everything from the first to the last non-zero row for the dense layout - and its .toarray() "
    "is the dense read up to the sign of zeros (coo_view_correct, storedIdx_spec); sparse=None returns a sparse matrix iff "
    "bigmat with rows or nonbigmat with a non-zero, and otherwise the file is byte-identical to the dense-layout file "
    "(sparse_auto_rule). Inputs: whatever write is given (mapping / lists / single values, 0-d/1-d/2-d arrays of any dtype, "
    "scipy.sparse with duplicates, explicit zeros, any order) the file is the file of the normalised 2-d double matrices "
    "with checked names, resolved forms and layouts (write_input_normalised, write_sparse_eq_write_dense, "
    "vector_input_is_row: a 1-d array is one row); every call replaces the file. ASCII: for every non-empty list of "
    "matrices and digits 1..73, loadAscii of the written text returns per matrix the name field, rows, columns, form, type "
    "and announced format, and every non-zero element reads back as exactly the printed decimal (file_roundtrip_ascii, "
    "ascii_entry_spec), which is within half a unit of the last printed digit (ascii_value_half_unit) - for EVERY "
    "finite double: a negative value with a 3-digit exponent, whose '%E' text is one character wider than the field, is "
    "printed with one digit less (numform(value), F3 repaired: fmtE_width; the half unit is then of that digit); with "
    "digits >= 16 the decimal rounds back to the bit-identical double, for every finite double incl. subnormals and "
    "signed zeros - for a negative value with a 3-digit exponent from digits >= 17 on - (read_back_bits, read_back_bits_subnormal, read_back_bits_finite; 16 significant digits are not enough: "
    "read_back_needs_17); and so for whole files: for digits 16..73 and matrices of finite doubles (FileFin: a negative value "
    "with a 3-digit exponent only from 17 digits on) the matrix load builds holds at every position exactly the bits "
    "written, names / shapes / forms / types as above (file_roundtrip_ascii_bits, ascii_bits_entry; a complex element is "
    "built as re + 1j*im, which can change the sign of a zero part only: cooEntry), the sparse=True read returns exactly "
    "the triplets the binary reader returns and its .toarray() is the dense read up to the sign of zeros "
    "(sparse_view_ascii_toarray); below 16 digits the sparse views of ASCII files are the same triplets / rule with printed decimals "
    "(sparse_views_ascii); dir lists exactly what load returns (dir_matches_load_ascii; binary: C11). ascii_slicing, "
    "ascii_column_roundtrip_{dense,bigmat,nonbigmat} for every partition into strings; _sparse_col_stats yields exactly "
    "the maximal runs and the word count the readers consume to zero.",
    "level_note": "Tied, not proved: the models are tied to op4.py by the constants translator and by exact correspondence "
    "of bytes, text, decoded values, listings, single fields and blocks (pyYeti's own files for all layouts, digits "
    "1..16/17/20/30/73/default, variant files, mutated texts) and of the files written for generated *arguments* of "
    "write (wr stream: dtype, memory layout, dimensionality, mapping/list/single interfaces, scipy.sparse formats with "
    "duplicates, explicit zeros, unsorted indices). Library behaviour is modelled by what it computes and checked by "
    "correspondence only: sp.find / tocoo / toarray (summation order of duplicates), astype, np.allclose (automatic "
    "form), struct, '%E', int(), float(). Finding "
    "F49 (int32 wrap of the 2 GiB dense record of a sparse input) is repaired in /repo and the model follows the repaired "
    "code (the sparse path refuses where the ndarray path refuses: write_sparse_eq_write_dense has no size hypothesis); "
    "the regression is guarded by the oracle: _oracle_f49_quick in every run (the inner binary writer on a file object "
    "that stops after the column header: no large memory), _oracle_f49 (the full 2 GiB write, then dir) in the thorough tier. "
    "Findings F2 and F3 are repaired in /repo (27f7d6b, 7ee1407) with the patches of corpus/c04_F{2,3}_candidate_fix.diff; the "
    "models follow the repaired code and the oracle keeps both families as regression guards (FIXED_F2, FIXED_F3); the fmt "
    "stream compares the Lean fmtE with the function numform that _write_ascii_header returns. No open finding. "
    "Trusted: Lean kernel; propext, Classical.choice, Quot.sound; the Python harness; CPython / numpy / scipy as listed.",
    "technique": "Lean 4 proof (induction over lines/strings/columns/matrices, omega on the packed header, bisection "
    "invariant for the %E exponent, rational arithmetic for the half-unit bound and for round-to-nearest of a decimal "
    "within half an ulp, cell-wise reasoning for COO -> dense, relational transport of the binary put lemmas to the ASCII "
    "reader) + source->Lean constants translator + exact differential correspondence of bytes, text, decoded values, "
    "fields, blocks and write arguments",
}

FIXED_F49 = "op4-binary-dense-sparse-input-record-ge-2GiB-int32-wrap"
FIXED_F2 = "op4-binary-nonbigmat-string-ge-16384-rows"  # repaired in /repo (fix: 27f7d6b, _split_strings): regression guard
FIXED_F3 = "op4-ascii-negative-3digit-exponent"  # repaired in /repo (fix: 7ee1407, numform(value)): regression guard
FIXED_F24 = "op4-binary-skip-zero-column-matrix"  # found by this check, repaired in /repo (fix: commit 24d6cc5)

# ---------------------------------------------------------------------------------------------
# translator


def translate(ctx):
    from translate import c04_op4consts as tr

    try:
        c = tr.run(ctx.repo, ctx.lean)
    except tr.Unparsable as e:
        raise TieBroken("op4.py constants: %s" % e)
    ctx.extra["op4_consts"] = c
    return ["Op4Consts"]


# ---------------------------------------------------------------------------------------------
# helpers


def _op4():
    from pyyeti.nastran import op4

    return op4


class _TimeLimit:
    """a mutated reader can loop for ever (e.g. a negative record length seeks backwards): bound every call
    into pyYeti; the timeout surfaces as an ordinary exception of the call"""

    def __init__(self, seconds):
        self.seconds = seconds

    def _handler(self, signum, frame):
        raise TimeoutError("pyYeti call exceeded %d s" % self.seconds)

    def __enter__(self):
        import signal

        self._old = signal.signal(signal.SIGALRM, self._handler)
        signal.setitimer(signal.ITIMER_REAL, self.seconds)

    def __exit__(self, *a):
        import signal

        signal.setitimer(signal.ITIMER_REAL, 0)
        signal.signal(signal.SIGALRM, self._old)
        return False



class _Scratch:
    def __init__(self):
        os.makedirs("/tmp/C04", exist_ok=True)
        self.d = tempfile.mkdtemp(prefix="run_", dir="/tmp/C04")
        self.n = 0

    def path(self):
        self.n += 1
        return os.path.join(self.d, "f%d.op4" % self.n)

    def close(self):
        shutil.rmtree(self.d, ignore_errors=True)
        try:
            os.rmdir("/tmp/C04")
        except OSError:
            pass


def _bits(a):
    """finite float64/complex128 array -> flat list of uint64 bit patterns (re, im interleaved)"""
    a = np.ascontiguousarray(a)
    if np.iscomplexobj(a):
        a = a.astype(np.complex128).view(np.float64)
    else:
        a = a.astype(np.float64)
    return a.reshape(-1).view(np.uint64).tolist()


def _colmajor_bits(X):
    X = np.asarray(X)
    return _bits(np.ascontiguousarray(X.T))


VALID_FIRST = "abcdefghijklmnopqrstuvwxyzABCDEFGHIJKLMNOPQRSTUVWXYZ_"
VALID_REST = VALID_FIRST + "0123456789"


def _gen_name(rng, valid_only=False):
    k = rng.random()
    if valid_only or k < 0.8:
        n = rng.randint(1, 8)
        return rng.choice(VALID_FIRST) + "".join(rng.choice(VALID_REST) for _ in range(n - 1))
    if k < 0.87:
        n = rng.randint(9, 12)
        return rng.choice(VALID_FIRST) + "".join(rng.choice(VALID_REST) for _ in range(n - 1))
    return rng.choice(["1ab", "a b", "", "a-b", "9", "x.y", "ab cdefghijk"])


SPECIAL = [
    1.0, -1.0, 2.0 ** 0.5, 0.1, -0.1, 1e-310, -1e-310, 5e-324, 1.7976931348623157e308, -1.7976931348623157e308,
    2.2250738585072014e-308, 1e100, 9.9999999999999999e99, 1e-100, 9.99999999999e-101, 2.5e120, 2.5e-120,
    123456789.123456789, 9.9999999999999995e-8, 0.99999999999999989, 9.5, 0.5, 1.5, 2.5, 1e22, 1e23, 3.0e-5,
]
NEG3 = [-2.5e-120, -1e100, -9.9999999999999999e99, -1e-310, -5e-324, -1.7976931348623157e308, -3.3e200, -7e-101]


def _rand_values(rng, n, style):
    """n finite doubles (never zero) in the given style"""
    out = []
    for _ in range(n):
        if style == "int":
            v = float(rng.choice([1, 2, 3, -1, -2, 7, 1000, -12345]))
        elif style == "normal":
            v = rng.gauss(0, 1) or 1.0
        elif style == "bits":
            while True:
                b = rng.getrandbits(64)
                if (b >> 52) & 0x7FF != 0x7FF and (b & 0x7FFFFFFFFFFFFFFF) != 0:
                    break
            v = struct.unpack("<d", struct.pack("<Q", b))[0]
            if v < 0 and style == "bits":
                pass
        elif style == "bits+":  # arbitrary magnitude, but no negative value with a 3-digit exponent
            while True:
                b = rng.getrandbits(64)
                if (b >> 52) & 0x7FF != 0x7FF and (b & 0x7FFFFFFFFFFFFFFF) != 0:
                    break
            v = struct.unpack("<d", struct.pack("<Q", b))[0]
            if v < 0 and not (1e-98 < -v < 1e98):
                v = -v
        elif style == "special":
            v = rng.choice(SPECIAL)
        elif style == "neg3":
            v = rng.choice(NEG3 if rng.random() < 0.5 else SPECIAL)
        else:
            raise ValueError(style)
        out.append(v)
    return out


def _gen_pattern(rng, rows, cols):
    """boolean non-zero pattern"""
    P = np.zeros((rows, cols), bool)
    if rows == 0 or cols == 0:
        return P
    style = rng.choice(["dense", "random", "random", "runs", "runs", "zero", "onecol", "diag", "ends"])
    if style == "dense":
        P[:] = True
    elif style == "random":
        p = rng.choice([0.1, 0.3, 0.5, 0.8])
        for i in range(rows):
            for j in range(cols):
                P[i, j] = rng.random() < p
    elif style == "runs":
        for j in range(cols):
            i = rng.randint(0, 3)
            while i < rows:
                L = rng.randint(1, 5)
                P[i : i + L, j] = True
                i += L + rng.randint(1, 4)
    elif style == "onecol":
        P[:, rng.randrange(cols)] = True
    elif style == "diag":
        for i in range(min(rows, cols)):
            P[i, i] = True
    elif style == "ends":
        P[0, :] = True
        P[-1, :] = True
    if rng.random() < 0.2:
        P[rng.randrange(rows), :] = False
    if rng.random() < 0.2:
        P[:, rng.randrange(cols)] = False
    return P


def _gen_matrix(rng, vstyle, max_rows=12, max_cols=6, allow_negzero=True):
    """returns dict(kind, cplx, D) with D the logical dense array"""
    k = rng.random()
    if k < 0.08:
        rows, cols = rng.choice([(0, 0), (0, 3), (3, 0), (1, 1), (1, 5), (5, 1)])
    elif k < 0.3:
        rows = cols = rng.randint(1, min(max_rows, max_cols))
    else:
        rows, cols = rng.randint(1, max_rows), rng.randint(1, max_cols)
    cplx = rng.random() < 0.35
    P = _gen_pattern(rng, rows, cols)
    D = np.zeros((rows, cols), complex if cplx else float)
    nz = int(P.sum())
    if cplx:
        re = np.array(_rand_values(rng, nz, vstyle))
        im = np.array(_rand_values(rng, nz, vstyle))
        # some purely real / purely imaginary elements
        for i in range(nz):
            t = rng.random()
            if t < 0.15:
                im[i] = 0.0
            elif t < 0.3:
                re[i] = 0.0
        D[P] = re + 1j * im
    else:
        D[P] = _rand_values(rng, nz, vstyle)
    square = rows == cols and rows > 0
    if square and rng.random() < 0.5:
        # symmetric, nearly symmetric or symmetric pattern with different values
        t = rng.random()
        iu = np.triu(np.ones(D.shape, bool))
        S = np.where(iu, D, D.T)  # mirror the upper triangle (no arithmetic: values stay finite)
        if vstyle in ("int", "normal"):
            if t < 0.5:
                D = S
            elif t < 0.75 and rows > 1:
                D = S.copy()
                D[rows - 1, 0] = D[rows - 1, 0] * (1 + 1e-7)  # inside allclose's tolerance
            elif rows > 1:
                D = S.copy()
                D[rows - 1, 0] = D[rows - 1, 0] * 1.5 + 1.0
        else:
            D = S
    kind = "sparse" if rng.random() < 0.4 else "ndarray"
    if kind == "ndarray" and allow_negzero and rng.random() < 0.25 and D.size:
        # -0.0 elements (kept verbatim inside a dense record, dropped by the sparse layouts)
        for _ in range(rng.randint(1, 3)):
            i, j = rng.randrange(rows), rng.randrange(cols)
            if D[i, j] == 0:
                D[i, j] = complex(-0.0, 0.0) if (cplx and rng.random() < 0.5) else -0.0
    return {"kind": kind, "cplx": cplx, "D": D}


def _exact_eighths(D):
    """are all parts small multiples of 1/8 (so that sums of a few of them are exact in any order)?"""
    v = np.ascontiguousarray(D)
    v = v.view(np.float64) if np.iscomplexobj(v) else v
    return bool(np.all(np.abs(v) < 2.0 ** 40) and np.all(v * 8 == np.round(v * 8)))


def _as_input(rng, m):
    """the object handed to op4.write: for a sparse matrix any scipy format, stored triplets in any order, explicit
    zeros, duplicates (only where the sum is exact in every order); for an ndarray any memory layout and, where the
    values are representable, another dtype"""
    D = m["D"]
    if m["kind"] == "sparse":
        fmt = rng.choice(["coo", "csr", "csc", "bsr", "coo", "csr-raw", "csc-raw", "dia", "lil"])
        if D.size > 10000 and fmt in ("dia", "lil", "bsr"):
            fmt = "csc"     # (thousands of diagonals / python lists: pointless on the big shapes)
        i, j = np.nonzero(D)
        v = D[i, j]
        trip = [[int(a), int(b), c] for a, b, c in zip(i.tolist(), j.tolist(), v.tolist())]
        if fmt in ("coo", "csr-raw", "csc-raw"):
            if trip and _exact_eighths(D) and rng.random() < 0.4:
                # duplicates: v = v1 + v2 (+ v3), exactly
                out = []
                for a, b, c in trip:
                    if rng.random() < 0.5:
                        h = np.round(c * 4) / 8 if not isinstance(c, complex) else complex(np.round(c.real * 4) / 8, np.round(c.imag * 4) / 8)
                        parts = [h, c - h]
                        if rng.random() < 0.3:
                            parts = [h, 1.0, c - h - 1.0]
                        out += [[a, b, x] for x in parts]
                    else:
                        out.append([a, b, c])
                trip = out
            if D.size and rng.random() < 0.3:
                zi, zj = np.nonzero(D == 0)
                if len(zi):
                    q = rng.randrange(len(zi))
                    trip.append([int(zi[q]), int(zj[q]), 0.0])   # explicit stored zero: dropped by the writer
            rng.shuffle(trip)
        I = np.array([t[0] for t in trip], dtype=np.int32)
        J = np.array([t[1] for t in trip], dtype=np.int32)
        V = np.array([t[2] for t in trip], dtype=D.dtype)
        if fmt in ("csr-raw", "csc-raw"):
            major, minor, n = (I, J, D.shape[0]) if fmt == "csr-raw" else (J, I, D.shape[1])
            order = np.argsort(major, kind="stable")
            indptr = np.concatenate(([0], np.cumsum(np.bincount(major, minlength=n)))).astype(np.int32)
            cls = sp.csr_matrix if fmt == "csr-raw" else sp.csc_matrix
            return cls((V[order], minor[order], indptr), shape=D.shape)   # unsorted indices, duplicates kept
        A = sp.coo_matrix((V, (I, J)), shape=D.shape)
        if fmt == "coo":
            return A
        return {"csr": A.tocsr, "csc": A.tocsc, "bsr": A.tobsr, "dia": A.todia, "lil": A.tolil}[fmt]()
    X = D
    if D.size and rng.random() < 0.3:
        for dt in rng.sample(["float32", "int64", "int16", "complex64", ">f8", "<c16" if D.dtype.kind == "c" else "<f8"], 3):
            dt = np.dtype(dt)
            if dt.kind != "c" and np.iscomplexobj(D):
                continue
            with np.errstate(all="ignore"), warnings.catch_warnings():
                warnings.simplefilter("ignore")
                Y = D.astype(dt)
                back = Y.astype(np.complex128 if (np.iscomplexobj(D) or dt.kind == "c") else np.float64)
            if dt.kind == "c" and not np.iscomplexobj(D):
                continue
            if np.array_equal(np.ascontiguousarray(back).view(np.uint64), np.ascontiguousarray(D).view(np.uint64)):
                X = Y
                break
    t = rng.random()
    if t < 0.25:
        return np.asfortranarray(X)
    if t < 0.4 and X.size:
        big = np.zeros((2 * X.shape[0] + 1, 3 * X.shape[1] + 2), X.dtype)
        big[1::2, 2::3] = X
        return big[1::2, 2::3]          # a strided view
    if t < 0.5 and X.size:
        return X[::-1, ::-1].copy()[::-1, ::-1]   # negative strides
    return X.copy()


def _logical(m):
    """the logical dense content the writer sees (scipy-sparse input: -0.0 is not a stored value)"""
    D = m["D"]
    if m["kind"] == "sparse":
        D = D + 0.0  # -0.0 + 0.0 = +0.0
    return D


def _mat_tokens(opt, m, index, name, form):
    D = _logical(m)
    rows, cols = D.shape
    toks = [
        {"auto": "a", "dense": "d", "bigmat": "b", "nonbigmat": "n"}[opt] + ("1" if m["kind"] == "sparse" else "0"),
        str(index),
        name.encode().hex() if name else "-",
        "-" if form is None else str(form),
        "1" if m["cplx"] else "0",
        str(rows),
        str(cols),
    ]
    toks += [str(b) for b in _colmajor_bits(D)]
    return " ".join(toks)


def _gen_file(rng, vstyle, **kw):
    n = rng.choice([1, 1, 1, 2, 3])
    mats = [_gen_matrix(rng, vstyle, **kw) for _ in range(n)]
    names = [_gen_name(rng) for _ in range(n)]
    if n > 1 and rng.random() < 0.3:
        names[1] = names[0]
    forms = [None if rng.random() < 0.6 else rng.choice([1, 2, 3, 6, 8, 9, 13]) for _ in range(n)]
    return {
        "mats": mats,
        "names": names,
        "forms": forms,
        "opt": rng.choice(["auto", "dense", "bigmat", "nonbigmat"]),
        "endian": rng.choice(["<", ">", "="]),
        "digits": rng.choice([16, 16, 16, 9, 5, 1, 17, 20, 3]),
    }


def _write(op4, path, case, inputs, binary):
    with warnings.catch_warnings():
        warnings.simplefilter("ignore")
        forms = case["forms"]
        kw = {} if case.get("default_digits") else {"digits": case["digits"]}
        import zlib
        h = zlib.crc32(repr((len(case["names"]), case["digits"], case["opt"], binary, tuple(case["names"]))).encode()) % 7
        if h == 0:
            # a call to `write` replaces the file: whatever was there must not survive
            op4.write(path, ["zz1", "zz2"], [np.ones((9, 7)), np.eye(5)], binary=binary)
        if h in (1, 2) and len(set(case["names"])) == len(case["names"]):
            # the mapping interface: insertion order, `(matrix, form)` values
            d = {n: (x if f is None and h == 1 else (x, f)) for n, x, f in zip(case["names"], inputs, forms)}
            op4.write(path, d, binary=binary, endian=case["endian"], sparse=case["opt"], **kw)
            return
        op4.write(path, list(case["names"]), list(inputs), binary=binary,
                  endian=case["endian"], sparse=case["opt"], forms=None if all(f is None for f in forms) else list(forms), **kw)


def _canon_loaded(names, mats, forms, mtypes):
    out = []
    for n, X, f, t in zip(names, mats, forms, mtypes):
        if sp.issparse(X):
            X = X.tocoo() if not isinstance(X, (sp.coo_matrix, sp.coo_array)) else X
            data = []
            vb = _bits(np.asarray(X.data))
            w = 2 if np.iscomplexobj(X.data) else 1
            # a real matrix read sparsely may hold python floats -> float64; complex -> complex128
            for k, (i, j) in enumerate(zip(X.row.tolist(), X.col.tolist())):
                data += [i, j] + vb[w * k : w * k + w]
            out.append((n, X.shape[0], X.shape[1], int(f), int(t), 1, data))
        else:
            X = np.asarray(X)
            out.append((n, X.shape[0], X.shape[1], int(f), int(t), 0, _colmajor_bits(X)))
    return out


def _parse_dec(rep):
    if not rep.startswith("ok"):
        return rep
    body = rep[3:]
    if body == "":
        return []
    out = []
    for part in body.split("|"):
        f = part.split(",")
        name = bytes.fromhex(f[0]).decode("latin1")
        data = f[6]
        if data == "put-error":
            out.append((name, "put-error"))
            continue
        vals = [int(t) for t in data.split()] if data else []
        out.append((name, int(f[1]), int(f[2]), int(f[3]), int(f[4]), int(f[5]), vals))
    return out


def _parse_dir(rep):
    if not rep.startswith("ok"):
        return rep
    body = rep[3:]
    if body == "":
        return []
    out = []
    for part in body.split("|"):
        f = part.split(",")
        out.append((bytes.fromhex(f[0]).decode("latin1"), int(f[1]), int(f[2]), int(f[3]), int(f[4])))
    return out


def _case_json(case):
    return {
        "names": case["names"],
        "forms": case["forms"],
        "opt": case["opt"],
        "endian": case["endian"],
        "digits": case["digits"],
        "mats": [
            {"kind": m["kind"], "cplx": m["cplx"], "shape": list(m["D"].shape), "bits_colmajor": _colmajor_bits(m["D"])}
            for m in case["mats"]
        ],
    }


def _case_from_json(j):
    mats = []
    for m in j["mats"]:
        rows, cols = m["shape"]
        a = np.array(m["bits_colmajor"], dtype=np.uint64).view(np.float64)
        if m["cplx"]:
            a = a.view(np.complex128)
        D = a.reshape(cols, rows).T.copy() if rows * cols else np.zeros((rows, cols), complex if m["cplx"] else float)
        mats.append({"kind": m["kind"], "cplx": m["cplx"], "D": D})
    return {"mats": mats, "names": j["names"], "forms": j["forms"], "opt": j["opt"], "endian": j["endian"],
            "digits": j["digits"]}


def _multi_string(case):
    for m in case["mats"]:
        D = m["D"]
        for c in range(D.shape[1]):
            nz = np.nonzero(D[:, c])[0]
            if len(nz) > 1 and np.any(np.diff(nz) != 1):
                return True
    return False



# ---------------------------------------------------------------------------------------------
# ASCII reader: inputs for the Lean reader model (Model/Op4Ascii.lean)


def _digit_sweep_cases(rng):
    """every digits value 1..16 (plus 17, 20, 30, 73 and the default), the three layouts (and 'auto'), real and
    complex, ndarray and scipy-sparse: 3-digit exponents of both signs, subnormals, -0.0, an empty column, an
    all-zero matrix, names of length 1..8"""
    pos3 = [2.5e120, 2.5e-120, 1.7976931348623157e308, 5e-324, 1e-310, 9.9999999999999999e99, 1e100, 9.99999999999e-101]
    out = []
    k = 0
    for digits in list(range(1, 17)) + [17, 20, 30, 73, None]:
        for opt in ("dense", "bigmat", "nonbigmat", "auto"):
            k += 1
            cplx = (k % 3 == 0)
            rows, cols = 7, 4
            D = np.zeros((rows, cols), complex if cplx else float)
            vals = pos3 + [-1.5, -9.5e-99, -9.99e99, 0.1, 2.0 ** 0.5, 123456789.123456789]
            rng.shuffle(vals)
            D[0, 0], D[1, 0], D[2, 0], D[5, 0], D[6, 0] = vals[0], vals[1], vals[2], vals[3], vals[4]
            D[1:4, 1] = vals[5:8]
            D[rows - 1, 3] = vals[8]
            if digits is not None and digits >= 17:
                D[3, 3] = -2.5e-120  # negative, three-digit exponent (Wide): bit-identical from 17 digits on
            if cplx:
                D[1, 0] = complex(vals[1], vals[9])
                D[5, 0] = complex(0.0, vals[10])
                if k % 4 != 1:
                    D[2, 1] = complex(vals[6], -0.0)  # (an ndarray input: scipy-sparse inputs are generated without -0.0)
            kind = "sparse" if k % 4 == 1 else "ndarray"
            if kind == "ndarray":
                D[4, 0] = -0.0  # stays inside the dense record of column 0, dropped by the sparse layouts
            Z = np.zeros((3, 2), complex if (k % 5 == 0) else float)
            name = "abcdefgh"[: 1 + (k % 8)]
            out.append({"mats": [{"kind": kind, "cplx": cplx, "D": D},
                                 {"kind": "ndarray", "cplx": bool(k % 5 == 0), "D": Z}],
                        "names": [name, "Z_%d" % (k % 10)], "forms": [None, 2], "opt": opt, "endian": "<",
                        "digits": 16 if digits is None else digits, "default_digits": digits is None})
    return out


def _gen_adec(rng, maxdig):
    """(neg, exp, digits) of one printed value of a variant file"""
    t = rng.random()
    if t < 0.08:
        return (rng.randint(0, 1), 0, [0] * rng.randint(1, maxdig))
    nd = rng.randint(1, maxdig)
    digits = [rng.randint(1, 9)] + [rng.randint(0, 9) for _ in range(nd - 1)]
    if t < 0.3:
        exp = rng.choice([-1, 1]) * rng.randint(100, 330)      # 3-digit exponents, under- and overflow of float()
    else:
        exp = rng.randint(-40, 40)
    return (1 if rng.random() < 0.5 else 0, exp, digits)


def _gen_vmat(rng, single, maxdig):
    cplx = rng.random() < 0.35
    mult = 2 if cplx else 1
    lay = rng.choice("dbn")
    rows = rng.choice([1, 2, 3, 5, 8, 12])
    ncols = rng.choice([0, 1, 2, 3, 5])
    neg = (lay == "b") or (lay == "d" and rng.random() < 0.15)
    cols = []
    for c in range(ncols):
        if rng.random() < 0.25:
            continue  # column absent from the file
        strs = []
        if lay == "d":
            r0 = rng.randrange(rows)
            L = rng.randint(1, rows - r0)
            strs.append((r0, [_gen_adec(rng, maxdig) for _ in range(L * mult)]))
        else:
            r = rng.randint(0, 2)
            while r < rows:
                L = rng.randint(1, min(4, rows - r))
                strs.append((r, [_gen_adec(rng, maxdig) for _ in range(L * mult)]))
                r += L + rng.choice([0, 0, 1, 2, 3])  # adjacent strings happen
            if not strs:
                continue
        cols.append((c, strs))
    n = rng.randint(1, 8)
    name = rng.choice(VALID_FIRST) + "".join(rng.choice(VALID_REST) for _ in range(n - 1))
    if rng.random() < 0.6:
        name = name.upper()
    return {"name": name, "form": rng.choice([1, 2, 6, 8]), "cplx": cplx, "rows": rows, "ncols": ncols, "lay": lay,
            "neg": neg, "cols": cols}


def _gen_vcase(rng):
    width = rng.choice([12, 14, 16, 16, 20, 23, 24, 26, 40])
    perline = rng.randint(1, min(6, 80 // width))
    if rng.random() < 0.12:
        width, perline = 16, 5  # the reader's default format
    single = rng.random() < 0.4
    maxdig = min(width - 8, 20)
    return {"perline": perline, "width": width, "useD": rng.random() < 0.4, "lead1P": rng.random() < 0.6,
            "fmtD": rng.random() < 0.3, "lower": rng.random() < 0.25, "single": single,
            "mats": [_gen_vmat(rng, single, maxdig) for _ in range(rng.choice([1, 1, 2, 3]))]}


def _vcase_tokens(case):
    t = ["enca", str(case["perline"]), str(case["width"])] + ["1" if case[k] else "0" for k in ("useD", "lead1P", "fmtD", "lower")]
    t.append(str(len(case["mats"])))
    for m in case["mats"]:
        t += [m["name"].encode().hex(), str(m["form"]), "1" if m["cplx"] else "0", "1" if case["single"] else "0",
              str(m["rows"]), str(m["ncols"]), m["lay"], "1" if m["neg"] else "0", str(len(m["cols"]))]
        for c, strs in m["cols"]:
            t += [str(c), str(len(strs))]
            for r0, vals in strs:
                t += [str(r0), str(len(vals))]
                for neg, exp, digits in vals:
                    t += [str(neg), str(exp), str(len(digits))] + [str(d) for d in digits]
    return " ".join(t)


def _vcase_expected(case):
    """the logical content of a variant file, computed from the case alone (model-free): per matrix
    (lower-case name, rows, ncols, form, mtype, dense array)"""
    out = []
    for m in case["mats"]:
        mult = 2 if m["cplx"] else 1
        X = np.zeros((m["rows"], m["ncols"]), complex if m["cplx"] else float)
        for c, strs in m["cols"]:
            for r0, vals in strs:
                fl = [float(("-" if n else "") + str(d[0]) + "." + "".join(map(str, d[1:])) + "E%+d" % e) for n, e, d in vals]
                for i in range(len(fl) // mult):
                    X[r0 + i, c] = complex(fl[2 * i], fl[2 * i + 1]) if m["cplx"] else fl[i]
        mtype = (3 if m["cplx"] else 1) + (0 if case["single"] else 1)
        out.append((m["name"].lower(), m["rows"], m["ncols"], m["form"], mtype, X))
    return out


def _text_mutations(rng, text):
    """texts derived from a well-formed ASCII file that exercise what the reader rejects or defaults: a cut at a line
    boundary, lower case, the announced format removed, an empty line, trailing blanks on the title lines"""
    lines = text.split("\n")
    out = []
    if len(lines) > 3:
        k = rng.randint(1, len(lines) - 2)
        out.append(("cut", "\n".join(lines[:k]) + "\n"))
        k = rng.randint(1, len(lines) - 2)
        out.append(("cut-noeol", "\n".join(lines[:k])))
        # an empty line where the reader expects a title line is taken for the end of the file
        # (anywhere else it turns the rest of the file into garbage, which is not the point here)
        import re as _re0
        ks = [i for i, ln in enumerate(lines) if i > 0 and _re0.match(r"^[ \-0-9]{32}.{8}\S", ln)] + [len(lines) - 1]
        k = rng.choice(ks)
        out.append(("blank-line", "\n".join(lines[:k] + [""] + lines[k:])))
    out.append(("lower", text.lower()))
    import re as _re
    titles = [ln for ln in lines if _re.match(r"^[ \-0-9]{32}.{8}\S", ln)]
    if titles and all(_re.match(r"^(1P,)?5[ED]16\.\d+$", ln[40:].strip().upper()) for ln in titles):
        # (only where the announced format *is* the default: cutting it elsewhere makes the file garbage)
        out.append(("no-format", "\n".join(ln[:40] if ln in titles else ln for ln in lines)))
    out.append(("title-blanks", "\n".join(ln + "   " if _re.match(r"^[ \-0-9]{32}.{8}\S", ln) else ln for ln in lines)))
    # the row field of a *later* column header of a sparse layout is never evaluated by the reader
    first, l2, hit = True, [], False
    for ln in lines:
        if _re.match(r"^[ \-0-9]{32}.{8}\S", ln):
            first = True
        elif _re.match(r"^[ 0-9]{8}       0[ 0-9]{8}$", ln):
            if not first:
                ln, hit = ln[:8] + "     abc" + ln[16:], True
            first = False
        l2.append(ln)
    if hit:
        out.append(("later-r-garbage", "\n".join(l2)))
    return out


def _ascii_loads(op4, p):
    """what the real reader makes of the file: per read mode the canonical listing or 'error'; then dir"""
    res = []
    for flag in (False, True, None):
        try:
            with warnings.catch_warnings(), _TimeLimit(20):
                warnings.simplefilter("ignore")
                res.append(_canon_loaded(*op4.load(p, into="list", sparse=flag)))
        except TimeoutError:
            res.append("timeout")
        except Exception:  # noqa: BLE001
            res.append("error")
    try:
        with warnings.catch_warnings(), _TimeLimit(20):
            warnings.simplefilter("ignore")
            n_, s_, f_, t_ = op4.dir(p, verbose=False)
        res.append([(a, int(b[0]), int(b[1]), int(c), int(d)) for a, b, c, d in zip(n_, s_, f_, t_)])
    except TimeoutError:
        res.append("timeout")
    except Exception:  # noqa: BLE001
        res.append("error")
    return res


def _model_listing(rep, parse):
    if not rep.startswith("ok"):
        return "error"
    m = parse(rep)
    if any(len(x) == 2 for x in m):
        return "error"  # a put outside the matrix: IndexError / ValueError in the real reader
    return m


_FIELD_POOL = ["1.5E+00", "-2.50D-120", " 1.E5", ".5", "5.", ".", "", " ", "1e5", "1E+5 ", "+1.0E-05", "-0.000E+00", "1.0E", "1.0E+",
               "1.0 E+00", "E+00", "1.0E+0x", "--1", "1.0E+00\n", "\n", " 12 ", "-7", "+3", "1_0", "0x10", "1.0E+400", "1.0E-400",
               "9.999999999999999E+22", "4.9406564584124654E-324", "2.4703282292062327E-324", "2.4703282292062328E-324",
               "1.7976931348623158E+308", "1.7976931348623159E+308", "0.000000000000000000000000001E+27", "00012", "1.5e+00", "\t1.0E+00\x0c"]


def _rand_field(rng):
    t = rng.random()
    if t < 0.35:
        return rng.choice(_FIELD_POOL)
    if t < 0.8:
        x = _rand_values(rng, 1, rng.choice(["bits", "normal", "special", "neg3"]))[0]
        d = rng.randint(1, 17)
        s = ("%" + "%d.%dE" % (d + 7, d)) % x
        if rng.random() < 0.2:
            s = s.replace("E", rng.choice(["e", "D", "E "]))
        if rng.random() < 0.15:
            i = rng.randrange(len(s) + 1)
            s = s[:i] + rng.choice(" .-+E0\n") + s[i:]
        return s
    return "".join(rng.choice(" 0123456789.+-Ee") for _ in range(rng.randint(1, 12)))

# ---------------------------------------------------------------------------------------------
# correspondence


def _big_string_cases():
    """single strings of 16383 / 16384 rows (both sides of the _split_strings boundary; F2 before its repair), real and complex"""
    out = []
    for rows, cplx, at in ((16383, False, 0), (16384, False, 0), (8191, True, 3), (8192, True, 3)):
        D = np.zeros((rows + at + 2, 1), complex if cplx else float)
        D[at : at + rows, 0] = (1.0 + 2.0j) if cplx else 1.0
        out.append({"mats": [{"kind": "ndarray", "cplx": cplx, "D": D}], "names": ["big"], "forms": [2],
                    "opt": "nonbigmat", "endian": "<", "digits": 16})
        if rows in (16384, 8192):
            # the same string handed over as a scipy.sparse matrix: the `else  # sparse matrix` branch of
            # _write_binary_sparse splits too (spStringsFx; write_sparse_eq_write_dense_fixed)
            out.append({"mats": [{"kind": "sparse", "cplx": cplx, "D": D.copy()}], "names": ["bigsp"], "forms": [2],
                        "opt": "nonbigmat", "endian": "<", "digits": 16})
    return out



def _ascii_reader_streams(ctx, op4, drv, sc, ascii_texts):
    """exact correspondence for the ASCII reader on inputs pyYeti's writer never produces"""
    import io

    rng = ctx.rng
    # -- variant files from the format-only Lean encoder (Op4V.encAFile) ----------------------------------------
    vcases = [_gen_vcase(rng) for _ in range(ctx.pick(350, 2500))]
    texts = [bytes.fromhex(h).decode("latin1") for h in drv.ask([_vcase_tokens(c) for c in vcases])]
    req, post = [], []
    ntimeouts = 0

    def add_file(stream, key, text, info):
        nonlocal ntimeouts
        p = sc.path()
        with open(p, "w", newline="") as f:
            f.write(text)
        got = _ascii_loads(op4, p)
        ntimeouts += got.count("timeout")
        req.append("adec * " + text.encode("latin1").hex())
        post.append((stream, key, got, info))

    for c, text in zip(vcases, texts):
        if ntimeouts >= 3:
            break
        add_file("avar", _vcase_tokens(c), text, c)
    # -- mutated texts: what the reader rejects, and its defaults ------------------------------------------------
    pool = list(ascii_texts) + [t for t in texts[: ctx.pick(80, 500)]]
    for text in pool:
        if ntimeouts >= 3:
            break
        for kind, t2 in _text_mutations(rng, text):
            if len(t2) >= 16:
                add_file("amut", (kind, t2), t2, kind)
    # -- float(field), int(field) --------------------------------------------------------------------------------
    flds = list(_FIELD_POOL) + [_rand_field(rng) for _ in range(ctx.pick(3000, 20000))]
    for fld in flds:
        try:
            v = float(fld)
            want = struct.unpack("<Q", struct.pack("<d", v))[0] if v == v and abs(v) != float("inf") or "n" not in fld.lower() else "outside"
        except ValueError:
            want = "ValueError"
        if "_" in fld or "n" in fld.lower():
            continue  # underscores / inf / nan: outside the model
        req.append("afld " + (fld.encode("latin1").hex() or "-"))
        post.append(("afld", fld, want, None))
        ifld = fld
        if rng.random() < 0.6:
            ifld = rng.choice(["%d", "%8d", "%11d", "%-8d", "%+d", "%8d\n", " %d \n", "%d.", "- %d"]) % rng.choice(
                [0, 1, -1, rng.randint(-99999999, 99999999), rng.randint(0, 1 << 40)])
        try:
            wi = str(int(ifld))
        except ValueError:
            wi = "ValueError"
        req.append("aint " + (ifld.encode("latin1").hex() or "-"))
        post.append(("aint", ifld, wi, None))
    # -- the put functions on a block --------------------------------------------------------------------------------
    for _ in range(ctx.pick(600, 4000)):
        numlen = rng.choice([8, 12, 16, 23, 24])
        cplx = rng.random() < 0.4
        n = rng.randint(0, 7)
        block = "".join((("%" + "%d.%dE" % (numlen, numlen - 7)) % x) for x in _rand_values(rng, n, rng.choice(["normal", "special", "bits+"])))
        t = rng.random()
        if t < 0.15:
            block = block[: rng.randrange(len(block) + 1)]       # short block
        elif t < 0.25:
            block = block + "\n"
        L = rng.choice([n, n, n, n + 1, max(n - 1, 0)])
        X = ([], [], [])
        try:
            (op4.OP4._put_ascii_values_sparse_c if cplx else op4.OP4._put_ascii_values_sparse)(X, 2, 1, block, L, numlen)
            if X[0] != list(range(2, 2 + (L // 2 if cplx else L))) or X[1] != [1] * len(X[0]):
                want = "bad-index %r" % (X[:2],)
            else:
                want = " ".join(map(str, _bits(np.array(X[2], complex if cplx else float)))) if X[2] else ""
        except ValueError:
            want = "ValueError"
        req.append("avals %d %d %d %s" % (cplx, numlen, L, block.encode("latin1").hex() or "-"))
        post.append(("avals", (cplx, numlen, L, block), want, None))
    # -- _get_ascii_block ----------------------------------------------------------------------------------------------
    o = op4.OP4()
    for _ in range(ctx.pick(600, 4000)):
        numlen = rng.choice([3, 8, 16, 23])
        perline = rng.randint(1, 5)
        nl = rng.randint(0, 6)
        lines = []
        for i in range(nl):
            k = perline if rng.random() < 0.7 else rng.randint(0, perline + 1)
            lines.append("".join(rng.choice("0123456789.DE+- ") for _ in range(k * numlen)) + ("" if (i == nl - 1 and rng.random() < 0.3) else "\n"))
        text = "".join(lines)
        L = rng.randint(0, perline * nl + 2)
        dformat = rng.random() < 0.5
        o._fileh = io.StringIO(text, newline=None)
        o._dformat = dformat
        s_ = o._get_ascii_block(L, perline, perline * numlen)
        used = text[: o._fileh.tell()].count("\n") + (1 if o._fileh.tell() == len(text) and text and not text.endswith("\n") else 0)
        o._fileh = None
        req.append("ablk %d %d %d %d %s" % (dformat, L, perline, numlen, text.encode("latin1").hex() or "-"))
        post.append(("ablk", (dformat, L, perline, numlen, text), "%s- %d" % (s_.encode("latin1").hex(), used),
                     {"dformat": dformat and "D" in text, "partial": L % perline != 0, "short": L > perline * nl}))

    rep = drv.ask(req)
    for (stream, key, impl, info), r in zip(post, rep):
        ctx.case((stream, key), nontrivial=True, branch="stream:" + stream)
        if stream in ("avar", "amut"):
            parts = r.split(" ;; ")
            model = ([_model_listing(x, _parse_dec) for x in parts[:3]] + [_model_listing(parts[3], _parse_dir)]) if len(parts) == 4 else r
            if stream == "avar":
                c = info
                for m in c["mats"]:
                    ctx.count("avar:" + {"d": "dense", "b": "bigmat", "n": "nonbigmat"}[m["lay"]])
                    if m["cplx"]:
                        ctx.count("avar:complex")
                    if not m["cols"]:
                        ctx.count("avar:all-zero-matrix")
                    for _, strs in m["cols"]:
                        mult = 2 if m["cplx"] else 1
                        if any(a[0] + len(a[1]) // mult == b[0] for a, b in zip(strs, strs[1:])):
                            ctx.count("avar:adjacent-strings")
                        for _, vals in strs:
                            for n_, e_, d_ in vals:
                                if abs(e_) >= 100:
                                    ctx.count("avar:3-digit-exponent")
                                if e_ < -324 and any(d_):
                                    ctx.count("avar:underflow-to-zero")
                                if e_ > 309 and any(d_):
                                    ctx.count("avar:overflow-to-inf")
                ctx.count("avar:D-exponent" if c["useD"] else "avar:E-exponent")
                ctx.count("avar:single" if c["single"] else "avar:double")
                if c["lower"]:
                    ctx.count("avar:lower-format")
                if not c["lead1P"]:
                    ctx.count("avar:no-1P")
                if c["fmtD"]:
                    ctx.count("avar:D-format")
                if c["perline"] == 1:
                    ctx.count("avar:perline-1")
                inp = {"variant": c}
            else:
                ctx.count("amut:" + info)
                ctx.count("amut:rejected" if impl[0] == "error" else "amut:accepted")
                if info == "no-format" and impl[0] != "error":
                    ctx.count("amut:defaults-used")
                inp = {"text": key[1], "mutation": info}
            if model != impl:
                show = lambda v: (str(v)[:300] + "…") if len(str(v)) > 300 else v
                ctx.disagree(stream, inp, show(impl), show(model))
        elif stream == "afld":
            if r == "ValueError":
                model = r
                ctx.count("afld:ValueError")
            else:
                model = int(r.split()[3])
                ctx.count("afld:value")
            if model != impl:
                ctx.disagree("afld", {"field": key}, impl, r)
        elif stream == "aint":
            ctx.count("aint:ValueError" if r == "ValueError" else "aint:value")
            if r != impl:
                ctx.disagree("aint", {"field": key}, impl, r)
        elif stream == "avals":
            if r == "ValueError":
                ctx.count("avals:ValueError")
            if key[0]:
                ctx.count("avals:complex")
            if r != impl:
                ctx.disagree("avals", {"cplx": key[0], "numlen": key[1], "L": key[2], "block": key[3]}, impl, r)
        elif stream == "ablk":
            if info["dformat"]:
                ctx.count("ablk:dformat")
            if info["partial"]:
                ctx.count("ablk:partial-last-line")
            if info["short"]:
                ctx.count("ablk:short-file")
            if r != impl:
                ctx.disagree("ablk", {"dformat": key[0], "L": key[1], "perline": key[2], "numlen": key[3], "text": key[4]}, impl, r)


# ---------------------------------------------------------------------------------------------
# `write` on its arguments (Model/Op4Input.lean, Model/Op4Sparse.lean): inputs for the `wr` / `tod` streams

_WR_DTYPES = ["float64", "float64", "float32", "int64", "int32", "uint8", "bool", "complex128", "complex64", ">f8", ">c16", "uint64"]
_INT_POOL = [0, 1, -1, 2, 7, -12345, 2 ** 31 - 1, 2 ** 53, 2 ** 53 + 1, 2 ** 53 + 3, -(2 ** 53) - 1, 2 ** 62 + 12345, -(2 ** 63)]
_F32_POOL = [1.5, -0.1, 1e-45, 3.4e38, 1.17549435e-38, 5.877e-39, 16777217.0, -2.5e-20, 0.0]


def _wr_values(rng, n, dt):
    """n values of numpy dtype `dt` (a few zeros among them), as a 1-d array"""
    kind = np.dtype(dt).kind
    if kind == "b":
        return np.array([rng.random() < 0.6 for _ in range(n)], dtype=bool)
    if kind in "iu":
        info = np.iinfo(np.dtype(dt))
        vals = []
        for _ in range(n):
            v = rng.choice(_INT_POOL) if rng.random() < 0.6 else rng.randint(-1000, 1000)
            if rng.random() < 0.25:
                v = 0
            v = min(max(v, info.min), info.max)
            vals.append(v)
        return np.array(vals, dtype=np.dtype(dt))
    if kind == "f":
        if np.dtype(dt).itemsize == 4:
            vals = [rng.choice(_F32_POOL) if rng.random() < 0.5 else rng.gauss(0, 100) for _ in range(n)]
            vals = [0.0 if rng.random() < 0.25 else v for v in vals]
            with np.errstate(all="ignore"):
                return np.array(vals, dtype=np.float32)
        vals = _rand_values(rng, n, rng.choice(["int", "normal", "bits+", "special"]))
        vals = [0.0 if rng.random() < 0.25 else v for v in vals]
        return np.array(vals, dtype=np.float64).astype(np.dtype(dt))
    # complex
    if np.dtype(dt).itemsize == 8:
        re = _wr_values(rng, n, "float32")
        im = _wr_values(rng, n, "float32")
        return (re + 1j * im).astype(np.complex64)
    re = _wr_values(rng, n, "float64")
    im = _wr_values(rng, n, "float64")
    out = np.empty(n, np.complex128)
    out.real, out.imag = re, im
    return out.astype(np.dtype(dt))


def _raw_tokens(a):
    """the logical elements of an ndarray in row-major order as raw tokens of the `wr` protocol"""
    a = np.asarray(a)
    flat = a.ravel(order="C")
    dt = flat.dtype
    nat = flat.astype(dt.newbyteorder("="))
    k = dt.kind
    if k == "b":
        return ["b%d" % int(v) for v in nat.tolist()]
    if k in "iu":
        return ["i%d" % int(v) for v in nat.tolist()]
    if k == "f" and dt.itemsize == 8:
        return ["d%d" % v for v in np.ascontiguousarray(nat).view(np.uint64).tolist()]
    if k == "f" and dt.itemsize == 4:
        return ["s%d" % v for v in np.ascontiguousarray(nat).view(np.uint32).tolist()]
    if k == "c" and dt.itemsize == 16:
        return ["d%d" % v for v in np.ascontiguousarray(nat).view(np.float64).view(np.uint64).tolist()]
    if k == "c" and dt.itemsize == 8:
        return ["s%d" % v for v in np.ascontiguousarray(nat).view(np.float32).view(np.uint32).tolist()]
    raise ValueError("dtype %r" % dt)


def _nd_token(a):
    a = np.asarray(a)
    cplx = a.dtype.kind == "c"
    return " ".join(["nd", str(a.ndim)] + [str(d) for d in a.shape] + ["1" if cplx else "0", str(a.size)] + _raw_tokens(a))


def _sp_token(A):
    """a scipy.sparse matrix as `tocoo()` presents it (storage order); double precision values"""
    C = A.tocoo(copy=True)
    cplx = np.iscomplexobj(C.data)
    data = np.asarray(C.data).astype(np.complex128 if cplx else np.float64)
    vb = _bits(data)
    w = 2 if cplx else 1
    t = ["sp", str(C.shape[0]), str(C.shape[1]), "1" if cplx else "0", str(len(C.row))]
    for k, (i, j) in enumerate(zip(C.row.tolist(), C.col.tolist())):
        t += [str(i), str(j)] + [str(b) for b in vb[w * k : w * k + w]]
    return " ".join(t)


def _layout_variant(rng, B, tags):
    """the same logical array in another memory layout / byte order"""
    t = rng.random()
    if B.ndim < 1 or B.size == 0 or t < 0.4:
        return B.copy()
    if t < 0.55 and B.ndim == 2:
        tags.add("F-order")
        return np.asfortranarray(B)
    if t < 0.8:
        tags.add("strided")
        big = np.zeros(tuple(2 * d + 1 for d in B.shape), B.dtype)
        sl = tuple(slice(1, None, 2) for _ in B.shape)
        big[sl] = B
        return big[sl]
    tags.add("negative-stride")
    rev = B[tuple(slice(None, None, -1) for _ in B.shape)].copy()
    return rev[tuple(slice(None, None, -1) for _ in B.shape)]


def _gen_wr_sparse(rng, tags):
    """a scipy.sparse input built from explicit triplets: any order, duplicates (<= 3 per position, so that
    np.add.reduceat adds sequentially), explicit zeros, cancelling duplicates; all formats"""
    rows, cols = rng.choice([(1, 1), (3, 3), (4, 4), (5, 2), (2, 6), (6, 4), (7, 7), (4, 1)])
    cplx = rng.random() < 0.3
    P = _gen_pattern(rng, rows, cols)
    sym = rows == cols and rng.random() < 0.4
    trip = []
    for i in range(rows):
        for j in range(cols):
            if not P[i, j] and not (sym and P[j, i]):
                continue
            v = _rand_values(rng, 1, rng.choice(["int", "normal", "special"]))[0]
            if abs(v) > 1e150:
                v = 2.5e120     # (sums of duplicates must stay finite in every order)
            if cplx:
                v = complex(v, rng.choice([0.0, -0.0, 2.5, _rand_values(rng, 1, "normal")[0]]))
                if rng.random() < 0.15:
                    v = complex(-0.0, v.imag if v.imag != 0 else 1.0)
            trip.append([i, j, v])
    if sym:
        d = {(i, j): v for i, j, v in trip}
        trip = [[i, j, d.get((min(i, j), max(i, j)), v)] for i, j, v in trip]
    fmt = rng.choice(["coo", "coo", "csr", "csc", "bsr", "dia", "lil"])
    dtype = "complex128" if cplx else rng.choice(["float64", "float64", "float64", "float32", "int64"])
    if dtype != "float64" and not cplx:
        # values that survive the conversion to float32 / int64 as finite numbers
        trip = [[i, j, float(rng.choice([1, 2, 3, -1, -7, 1000, 0.5, -2.25, 16777217, 1e-3]))] for i, j, _ in trip]
    dup_ok = fmt in ("coo", "csr", "csc") and dtype in ("float64", "complex128")
    out = []
    for i, j, v in trip:
        t = rng.random()
        if dup_ok and t < 0.2:
            tags.add("duplicates")
            parts = [v * 0.25, v * 0.5] if rng.random() < 0.5 else [v, -v]
            if rng.random() < 0.5:
                parts.append(v * 0.125 if not cplx else complex(v.real, 0.0))
            out += [[i, j, x] for x in parts]
        else:
            out.append([i, j, v])
    if fmt in ("coo", "csr", "csc") and rng.random() < 0.3 and rows * cols:
        tags.add("explicit-zero")
        out.append([rng.randrange(rows), rng.randrange(cols), 0.0])
        if rng.random() < 0.5:
            out.append([rng.randrange(rows), rng.randrange(cols), -0.0])
    rng.shuffle(out)
    if len(out) > 1:
        tags.add("unsorted")
    I = np.array([t[0] for t in out], dtype=np.int32)
    J = np.array([t[1] for t in out], dtype=np.int32)
    V = np.array([t[2] for t in out], dtype=np.complex128 if cplx else np.float64)
    if dtype == "float32":
        V = V.astype(np.float32)
        tags.add("sparse-float32")
    elif dtype == "int64":
        with np.errstate(all="ignore"):
            V = np.where(np.abs(V) < 1e15, np.round(V), 3.0).astype(np.int64)
        tags.add("sparse-int")
    if fmt == "coo":
        A = sp.coo_matrix((V, (I, J)), shape=(rows, cols))
    elif fmt in ("csr", "csc"):
        # built from the raw arrays: duplicates and unsorted indices are kept as they are
        major, minor, n = (I, J, rows) if fmt == "csr" else (J, I, cols)
        order = np.argsort(major, kind="stable")
        indptr = np.concatenate(([0], np.cumsum(np.bincount(major, minlength=n)))).astype(np.int32)
        cls = sp.csr_matrix if fmt == "csr" else sp.csc_matrix
        A = cls((V[order], minor[order], indptr), shape=(rows, cols))
    else:
        A = sp.coo_matrix((V, (I, J)), shape=(rows, cols))
        A = {"bsr": lambda: A.tobsr(), "dia": lambda: A.todia(), "lil": lambda: A.tolil()}[fmt]()
    tags.add("sparse-" + fmt)
    if cplx:
        tags.add("sparse-complex")
    return A


def _gen_wr_input(rng, tags):
    """one matrix argument of `write`: (object, token)"""
    t = rng.random()
    if t < 0.3:
        A = _gen_wr_sparse(rng, tags)
        return A, _sp_token(A)
    dt = rng.choice(_WR_DTYPES)
    k = np.dtype(dt).kind
    tags.add({"f": "float%d" % (8 * np.dtype(dt).itemsize), "i": "int", "u": "int", "b": "bool",
              "c": "complex%d" % (8 * np.dtype(dt).itemsize)}[k])
    if not np.dtype(dt).isnative:
        tags.add("byteswapped")
    u = rng.random()
    if u < 0.1:
        tags.add("scalar")
        B = _wr_values(rng, 1, dt).reshape(())
        if rng.random() < 0.5 and np.dtype(dt).isnative and k in "fi" and np.dtype(dt).itemsize == 8:
            obj = B.item()      # a python float / int
            return obj, _nd_token(np.asarray(obj))
        return B, _nd_token(B)
    if u < 0.3:
        tags.add("1d")
        n = rng.choice([1, 2, 3, 5, 8])
        B = _wr_values(rng, n, dt)
    elif u < 0.36:
        tags.add("3d")
        shp = rng.choice([(1, 1, 1), (2, 1, 2), (1, 2, 3)])
        B = _wr_values(rng, int(np.prod(shp)), dt).reshape(shp)
    else:
        rows, cols = rng.choice([(1, 1), (1, 4), (4, 1), (2, 2), (3, 3), (4, 4), (3, 5), (6, 2), (0, 2), (2, 0)])
        B = _wr_values(rng, rows * cols, dt).reshape(rows, cols)
        if rows == cols and rows > 1 and rng.random() < 0.5:
            iu = np.triu(np.ones(B.shape, bool))
            B = np.where(iu, B, B.T)
            if rng.random() < 0.3 and k in "fc":
                B = B.copy()
                with np.errstate(all="ignore"):
                    nv = B[rows - 1, 0] * B.dtype.type(1 + 1e-7) if rng.random() < 0.5 else B[rows - 1, 0] + B.dtype.type(1)
                if np.isfinite(nv):
                    B[rows - 1, 0] = nv
    obj = _layout_variant(rng, B, tags)
    if B.ndim == 2 and B.size and rng.random() < 0.1 and np.dtype(dt).isnative and k in "fi":
        tags.add("list-of-lists")
        obj = B.tolist()
        return obj, _nd_token(np.asarray(obj))
    return obj, _nd_token(obj)


def _gen_wr_case(rng):
    tags = set()
    n = rng.choice([1, 1, 2, 3])
    items = [_gen_wr_input(rng, tags) for _ in range(n)]
    names = [_gen_name(rng) for _ in range(n)]
    form_of = lambda: None if rng.random() < 0.55 else rng.choice([1, 2, 3, 6, 8, 9, 13])
    opt = rng.choice(["auto", "dense", "bigmat", "nonbigmat"])
    binary = rng.random() < 0.6
    case = {"opt": opt, "binary": binary, "endian": rng.choice(["<", ">"]), "digits": rng.choice([16, 16, 9, 3, 17]), "tags": tags}
    kind = rng.choice(["dict", "list", "list", "one"]) if n > 1 or rng.random() < 0.5 else "one"
    if kind == "one" and n > 1:
        kind = "list"
    tok = []
    if kind == "dict":
        tags.add("dict")
        while len(set(names)) < n:
            names = [_gen_name(rng) for _ in range(n)]
        d, parts = {}, []
        for nm, (obj, mt) in zip(names, items):
            if isinstance(obj, list):
                obj = np.asarray(obj)   # (a list as a mapping value means `(matrix, form)`: documented)
            t = rng.random()
            if t < 0.4:
                d[nm] = obj
                parts += [nm.encode().hex() or "-", "M", mt]
            elif t < 0.55:
                d[nm] = (obj, None)
                parts += [nm.encode().hex() or "-", "N", mt]
            else:
                f = rng.choice([1, 2, 6, 9])
                d[nm] = (obj, f) if rng.random() < 0.5 else [obj, f]
                parts += [nm.encode().hex() or "-", "P %d" % f, mt]
                tags.add("dict-form")
        case["args"] = (d, None, None)
        tok = ["D", str(n)] + parts + ["L", "0", "N"]
    elif kind == "list":
        tags.add("list")
        forms = None
        ftok = ["N"]
        t = rng.random()
        if t < 0.3:
            forms = [form_of() for _ in range(n)]
            ftok = ["L", str(n)] + ["-" if f is None else str(f) for f in forms]
        elif t < 0.4 and n > 1:
            forms = [form_of() for _ in range(n - 1)]
            ftok = ["L", str(n - 1)] + ["-" if f is None else str(f) for f in forms]
            tags.add("forms-short")
        mats = [o for o, _ in items]
        if rng.random() < 0.3:
            mats = tuple(mats)
        case["args"] = (list(names), mats, forms)
        tok = ["L", str(n)] + [nm.encode().hex() or "-" for nm in names] + ["L", str(n)] + [mt for _, mt in items] + ftok
    else:
        tags.add("one")
        f = form_of()
        if isinstance(items[0][0], list):
            items[0] = (np.asarray(items[0][0]), items[0][1])   # (a list as `matrices` means a list of matrices: documented)
        case["args"] = (names[0], items[0][0], f)
        tok = ["O", names[0].encode().hex() or "-", "O", items[0][1]] + (["N"] if f is None else ["O", str(f)])
    e = {"<": "l", ">": "b"}[case["endian"]]
    case["token"] = "wr %s %s %d %s %s" % ("b" if binary else "a", e, case["digits"],
                                          {"auto": "a", "dense": "d", "bigmat": "b", "nonbigmat": "n"}[opt], " ".join(tok))
    return case


def _write_args_streams(ctx, op4, drv, sc):
    rng = ctx.rng
    req, post = [], []
    for _ in range(ctx.pick(700, 5000)):
        c = _gen_wr_case(rng)
        p = sc.path()
        names, mats, forms = c["args"]
        try:
            with warnings.catch_warnings():
                warnings.simplefilter("ignore")
                op4.write(p, names, mats, binary=c["binary"], digits=c["digits"], endian=c["endian"], sparse=c["opt"], forms=forms)
            impl = open(p, "rb").read().hex()
        except struct.error:
            impl = "struct_error"
        except ValueError:
            impl = "ValueError"
        except Exception as ex:  # noqa: BLE001
            impl = "exception:" + type(ex).__name__
        req.append(c["token"])
        post.append(("wr", c, impl))
    # -- coo_matrix((V, (I, J)), shape).toarray() ------------------------------------------------------------
    for _ in range(ctx.pick(300, 2000)):
        rows, cols = rng.randint(1, 6), rng.randint(1, 5)
        cplx = rng.random() < 0.4
        n = rng.randint(0, 12)
        I = [rng.randrange(rows) for _ in range(n)]
        J = [rng.randrange(cols) for _ in range(n)]
        # at most 3 triplets per position
        seen, keep = {}, []
        for k in range(n):
            seen[(I[k], J[k])] = seen.get((I[k], J[k]), 0) + 1
            if seen[(I[k], J[k])] <= 3:
                keep.append(k)
        I, J = [I[k] for k in keep], [J[k] for k in keep]
        pool = SPECIAL + [0.0, -0.0, -0.0, 1.0, -1.0]
        V = [complex(rng.choice(pool), rng.choice(pool)) if cplx else rng.choice(pool) for _ in keep]
        with np.errstate(all="ignore"):
            X = sp.coo_matrix((np.array(V, complex if cplx else float), (np.array(I, int), np.array(J, int))), shape=(rows, cols)).toarray()
        vb = _bits(np.array(V, complex if cplx else float))
        w = 2 if cplx else 1
        t = ["tod", "1" if cplx else "0", str(rows), str(cols), str(len(I))]
        for k in range(len(I)):
            t += [str(I[k]), str(J[k])] + [str(b) for b in vb[w * k : w * k + w]]
        req.append(" ".join(t))
        post.append(("tod", (cplx, rows, cols, I, J, [repr(v) for v in V]), " ".join(map(str, _colmajor_bits(X)))))
    rep = drv.ask(req)
    for (stream, c, impl), r in zip(post, rep):
        if stream == "wr":
            ctx.case(("wr", c["token"]), nontrivial=True, branch="stream:wr")
            for t in c["tags"]:
                ctx.count("wr:" + t)
            ctx.count("wr:binary" if c["binary"] else "wr:ascii")
            ctx.count("wr:opt-" + c["opt"])
            if impl in ("ValueError", "struct_error"):
                ctx.count("wr:" + impl)
            if r != impl:
                show = lambda v: (v[:300] + "…") if isinstance(v, str) and len(v) > 300 else v
                ctx.disagree("wr", {"write_args": c["token"], "tags": sorted(c["tags"])}, show(impl), show(r))
        else:
            ctx.case(("tod", c), nontrivial=True, branch="stream:tod")
            if len(set(zip(c[3], c[4]))) < len(c[3]):
                ctx.count("tod:duplicates")
            if r != impl:
                ctx.disagree("tod", {"cplx": c[0], "rows": c[1], "cols": c[2], "I": c[3], "J": c[4], "V": c[5]}, impl, r)


def correspondence(ctx):
    op4 = _op4()
    rng = ctx.rng
    drv = ctx.driver("C04")
    sc = _Scratch()
    try:
        req, post = [], []

        # -- colstats ---------------------------------------------------------------------------
        o = op4.OP4()
        for _ in range(ctx.pick(400, 4000)):
            n = rng.randint(1, 30)
            top = rng.choice([n, n + 2, 2 * n, 5 * n, 70000])
            r = sorted(rng.sample(range(top), n))
            try:
                impl = [(int(a), int(b)) for a, b in o._sparse_col_stats(np.array(r))]
            except Exception as e:  # noqa: BLE001
                impl = "exception:" + type(e).__name__
            req.append("cs " + " ".join(map(str, r)))
            post.append(("colstats", r, impl))

        # -- %E model -----------------------------------------------------------------------------
        vals = list(SPECIAL) + list(NEG3) + [0.0, -0.0]
        for sty, k in (("bits", ctx.pick(3000, 20000)), ("normal", ctx.pick(500, 3000))):
            vals += _rand_values(rng, k, sty)
        # decimal ties and carries
        vals += [0.5, 1.5, 2.5, 0.125, 0.375, 9.5, 99.5, 0.95, 9.9999999999999999e22, 1e23, 4.35, 0.15, 2.675]
        for x in vals:
            for d in (16, rng.choice([1, 2, 3, 5, 9, 12, 17, 20]), rng.choice([0, 1, 7])):
                want = _numform(op4, d)(x)
                b = struct.unpack("<Q", struct.pack("<d", x))[0]
                req.append("fmt %d %d" % (d, b))
                post.append(("fmt", (x, d), want))

        # -- files ----------------------------------------------------------------------------------
        cases = []
        cp = os.path.join(ctx.verif, "corpus", "c04.json")
        if os.path.exists(cp):
            cases += [_case_from_json(j) for j in json.load(open(cp))]
        for i in range(ctx.pick(700, 5000)):
            vstyle = rng.choice(["int", "normal", "bits", "special", "neg3", "normal", "bits+"])
            cases.append(_gen_file(rng, vstyle))
        cases += _big_string_cases()
        cases += _digit_sweep_cases(rng)
        ascii_texts = []
        ntimeouts = 0
        for case in cases:
            if ntimeouts >= 3:
                break  # a reader that does not terminate: the run is broken already
            inputs = [_as_input(rng, m) for m in case["mats"]]
            spec = " ".join(_mat_tokens(case["opt"], m, i, nm, f)
                            for i, (m, nm, f) in enumerate(zip(case["mats"], case["names"], case["forms"])))
            small = sum(m["D"].size for m in case["mats"]) < 2000
            # binary
            p = sc.path()
            try:
                _write(op4, p, case, inputs, True)
                data = open(p, "rb").read()
                impl = data.hex()
            except struct.error:
                data, impl = None, "struct_error"
            except Exception as e:  # noqa: BLE001
                data, impl = None, "exception:" + type(e).__name__
            import sys as _sys
            e = case["endian"]
            e = {"<": "l", ">": "b", "=": "l" if _sys.byteorder == "little" else "b"}[e]
            req.append("enc %s %d %s" % (e, len(case["mats"]), spec))
            post.append(("enc", case, impl))
            if data is not None and small:
                for mode, flag in (("d", False), ("s", True), ("a", None)):
                    try:
                        with warnings.catch_warnings(), _TimeLimit(20):
                            warnings.simplefilter("ignore")
                            got = _canon_loaded(*op4.load(p, into="list", sparse=flag))
                    except Exception as ex:  # noqa: BLE001
                        got = "exception:" + type(ex).__name__
                        ntimeouts += isinstance(ex, TimeoutError)
                    req.append("dec %s %s" % (mode, impl))
                    post.append(("dec-" + mode, case, got))
                try:
                    with warnings.catch_warnings(), _TimeLimit(20):
                        warnings.simplefilter("ignore")
                        n_, s_, f_, t_ = op4.dir(p, verbose=False)
                    got = [(a, int(b[0]), int(b[1]), int(c), int(d)) for a, b, c, d in zip(n_, s_, f_, t_)]
                except Exception as ex:  # noqa: BLE001
                    got = "exception:" + type(ex).__name__
                    ntimeouts += isinstance(ex, TimeoutError)
                req.append("dir " + impl)
                post.append(("dir", case, got))
            # ascii
            if small:
                p = sc.path()
                try:
                    _write(op4, p, case, inputs, False)
                    impl = open(p, "rb").read().hex()
                except Exception as ex:  # noqa: BLE001
                    impl = "exception:" + type(ex).__name__
                req.append("asc %d %d %s" % (case["digits"], len(case["mats"]), spec))
                post.append(("asc", case, impl))
                if not impl.startswith("exception"):
                    # the Lean ASCII reader on the text pyYeti wrote == what pyYeti reads from it
                    got = _ascii_loads(op4, p)
                    ntimeouts += got.count("timeout")
                    req.append("adec * " + impl)
                    post.append(("aread", case, got))
                    if len(ascii_texts) < ctx.pick(60, 400) and rng.random() < 0.3:
                        ascii_texts.append(bytes.fromhex(impl).decode("latin1"))

        rep = drv.ask(req)
        for (stream, inp, impl), r in zip(post, rep):
            if stream == "colstats":
                model = [tuple(int(t) for t in x.split(":")) for x in r.split()] if r != "bad-op" else r
                ctx.case(("cs", tuple(inp)), nontrivial=len(model) > 1, branch="stream:colstats")
                if model != impl:
                    ctx.disagree("colstats", {"r": inp}, impl, model)
            elif stream == "fmt":
                model = bytes.fromhex(r).decode("latin1") if r != "bad-op" else r
                x, d = inp
                ctx.case(("fmt", x, d), nontrivial=True, branch="stream:fmt")
                if len("%.*E" % (d, x)) > d + 7:
                    ctx.count("branch:fmt-fallback")  # negative, three-digit exponent: printed with one digit less
                if model != impl:
                    ctx.disagree("fmt", {"x": repr(x), "digits": d}, impl, model)
            else:
                case = inp
                key = (stream, json.dumps(_case_json(case), sort_keys=True))
                ctx.case(key, nontrivial=_multi_string(case) or impl == "struct_error", branch="stream:" + stream)
                if stream == "enc":
                    ctx.count("opt:" + case["opt"])
                    ctx.count("endian:" + case["endian"])
                    for m in case["mats"]:
                        ctx.count("kind:" + m["kind"] + ("-complex" if m["cplx"] else "-real"))
                    if r == "struct_error":
                        ctx.count("branch:struct_error")
                    if case["opt"] == "nonbigmat" and any(_long_string(m["D"], m["cplx"]) for m in case["mats"]):
                        ctx.count("branch:split-string")  # a run of >= 16384 rows (8192 complex): _split_strings
                    model = r
                elif stream in ("dec-d", "dec-s", "dec-a"):
                    model = _parse_dec(r)
                    if isinstance(model, list):
                        for d_ in model:
                            if len(d_) > 5:
                                ctx.count("read:%s-%s" % (stream, "sparse" if d_[5] else "dense"))
                elif stream == "dir":
                    model = _parse_dir(r)
                elif stream == "aread":
                    parts = r.split(" ;; ")
                    if len(parts) != 4:
                        model = r
                    else:
                        model = [_model_listing(x, _parse_dec) for x in parts[:3]] + [_model_listing(parts[3], _parse_dir)]
                        d_ = case["digits"]
                        ctx.count("digits:" + ("default" if case.get("default_digits") else str(d_) if d_ <= 16 else ">16"))
                        ctx.count("aread:" + case["opt"] + ("-complex" if any(m["cplx"] for m in case["mats"]) else "-real"))
                        if model[0] == "error":
                            ctx.count("aread:rejected")
                        if any(_neg3(_logical(m), d_) for m in case["mats"]):
                            ctx.count("aread:neg3")  # a negative value with a three-digit exponent, read back
                        # the domain of file_roundtrip_ascii_bits / sparse_view_ascii_toarray (FileFin), both sides of
                        # its Wide hypothesis: 16 digits without a neg3 value, >= 17 digits with one, complex elements
                        if d_ >= 16 and model[0] != "error":
                            n3 = any(_neg3(_logical(m), d_) for m in case["mats"])
                            if d_ >= 17 or not n3:
                                ctx.count("aread:bits-domain-" + ("16" if d_ == 16 else "17+")
                                          + ("-neg3" if n3 else ""))
                                if any(m["cplx"] for m in case["mats"]):
                                    ctx.count("aread:bits-domain-complex")
                else:
                    model = r
                if model != impl:
                    show = lambda v: (v[:300] + "…") if isinstance(v, str) and len(v) > 300 else v
                    ctx.disagree(stream, _case_json(case), show(impl), show(model))
                elif stream == "enc" and len(ctx.samples) < 4 and impl != "struct_error":
                    ctx.sample({"names": case["names"], "opt": case["opt"], "endian": case["endian"],
                                "shapes": [list(m["D"].shape) for m in case["mats"]], "bytes": len(impl) // 2})
        _ascii_reader_streams(ctx, op4, drv, sc, ascii_texts)
        _write_args_streams(ctx, op4, drv, sc)
        hist = {}
        for d_ in ctx.disagreements:
            hist[d_["stream"]] = hist.get(d_["stream"], 0) + 1
        ctx.extra["disagreement_streams"] = hist
        ctx.extra["first_disagreements"] = [
            {"stream": d["stream"], "impl": str(d["impl"])[:400], "model": str(d["model"])[:400],
             "input": {k: v for k, v in d["input"].items() if k != "mats"} if isinstance(d["input"], dict) else d["input"],
             "mats": [(m["kind"], m["cplx"], m["shape"]) for m in d["input"].get("mats", [])] if isinstance(d["input"], dict) else None}
            for d in ctx.disagreements[:6]]
        if not ctx.disagreements and not ctx.broken:  # (an already broken run may make branches unreachable)
            ctx.require_branches(["stream:colstats", "stream:fmt", "stream:enc", "stream:dec-d", "stream:dec-s",
                              "stream:dec-a", "stream:dir", "stream:asc", "branch:split-string",
                              "branch:fmt-fallback", "opt:auto", "opt:dense", "opt:bigmat", "opt:nonbigmat",
                              "kind:sparse-complex", "kind:ndarray-real", "read:dec-a-sparse", "read:dec-a-dense",
                              "stream:aread", "aread:neg3", "aread:dense-real", "aread:dense-complex",
                              "aread:bigmat-real", "aread:bigmat-complex", "aread:nonbigmat-real",
                              "aread:nonbigmat-complex", "digits:default", "digits:>16",
                              "aread:bits-domain-16", "aread:bits-domain-17+", "aread:bits-domain-17+-neg3",
                              "aread:bits-domain-complex"]
                             + ["digits:%d" % d for d in range(1, 17)]
                             + ["stream:avar", "avar:dense", "avar:bigmat", "avar:nonbigmat", "avar:D-exponent",
                                "avar:E-exponent", "avar:single", "avar:double", "avar:complex", "avar:lower-format",
                                "avar:no-1P", "avar:D-format", "avar:3-digit-exponent", "avar:underflow-to-zero",
                                "avar:overflow-to-inf", "avar:adjacent-strings", "avar:all-zero-matrix",
                                "avar:perline-1", "stream:amut", "amut:cut", "amut:cut-noeol", "amut:blank-line",
                                "amut:lower", "amut:no-format", "amut:title-blanks", "amut:later-r-garbage", "amut:defaults-used",
                                "amut:rejected", "amut:accepted", "stream:afld", "afld:ValueError", "afld:value",
                                "stream:aint", "aint:ValueError", "aint:value", "stream:avals", "avals:ValueError", "avals:complex",
                                "stream:ablk", "ablk:dformat", "ablk:partial-last-line", "ablk:short-file"]
                             + ["stream:wr", "stream:tod", "tod:duplicates", "wr:binary", "wr:ascii", "wr:dict", "wr:dict-form",
                                "wr:list", "wr:one", "wr:forms-short", "wr:scalar", "wr:1d", "wr:3d", "wr:ValueError",
                                "wr:float64", "wr:float32", "wr:int", "wr:bool", "wr:complex128", "wr:complex64",
                                "wr:byteswapped", "wr:F-order", "wr:strided", "wr:negative-stride", "wr:list-of-lists",
                                "wr:sparse-coo", "wr:sparse-csr", "wr:sparse-csc", "wr:sparse-bsr", "wr:sparse-dia",
                                "wr:sparse-lil", "wr:sparse-complex", "wr:sparse-float32", "wr:sparse-int",
                                "wr:duplicates", "wr:explicit-zero", "wr:unsorted", "wr:opt-auto", "wr:opt-dense",
                                "wr:opt-bigmat", "wr:opt-nonbigmat"])
    finally:
        sc.close()


# ---------------------------------------------------------------------------------------------
# model-free oracle:  read(write(x)) == x


_NUMFORM = {}


def _numform(op4, digits):
    """the function `numform(value)` that `_write_ascii_header` hands to every ASCII writer (a '%' string before the
    repair of F3: wrapped, so that a reverted tree is compared too)"""
    key = (id(op4), digits)
    if key not in _NUMFORM:
        import io
        nf = op4.OP4()._write_ascii_header(io.StringIO(), "a", np.ones((1, 1)), digits, bigmat=False, form=None)[4]
        _NUMFORM[key] = nf if callable(nf) else (lambda v, _f=nf: _f % v)
    return _NUMFORM[key]


def _neg3(D, digits):
    """does the matrix hold a negative value whose printed exponent has three digits?"""
    v = np.asarray(D)
    v = v.view(np.float64) if np.iscomplexobj(v) else v
    v = v[v < 0]
    if v.size == 0:
        return False
    cand = v[(np.abs(v) >= 9e99) | (np.abs(v) < 1.1e-99)]
    for x in cand.tolist():
        s = "%.*E" % (digits, x)
        if len(s.split("E")[1]) > 3:
            return True
    return False


def _long_string(D, cplx):
    """does some column hold a string with L + 1 >= 32768 words (L = 2 * rows * (2 if complex))?"""
    need = 8192 if cplx else 16384
    if D.shape[0] < need:
        return False
    for c in range(D.shape[1]):
        nz = np.nonzero(D[:, c])[0]
        if len(nz) < need:
            continue
        brk = np.nonzero(np.diff(nz) != 1)[0]
        edges = np.concatenate(([0], brk + 1, [len(nz)]))
        if np.max(np.diff(edges)) >= need:
            return True
    return False


def _same_bits(a, b):
    """equal as doubles, bit for bit, except that -0.0 and +0.0 are identified"""
    a = np.ascontiguousarray(a)
    b = np.ascontiguousarray(b)
    if a.shape != b.shape:
        return False
    fa = a.astype(np.complex128).view(np.float64) + 0.0
    fb = b.astype(np.complex128).view(np.float64) + 0.0
    return bool(np.array_equal(fa.view(np.uint64), fb.view(np.uint64)))


def _rounded(D, digits):
    """what an ASCII file written with `digits` must read back as: x rounded to digits+1 significant decimal digits -
    digits for a negative value with a three-digit exponent, which is written with one digit less so that it fits its
    field (documented in _write_ascii_header since the repair of F3) - then to the nearest double"""
    v = np.ascontiguousarray(D)
    flat = (v.view(np.float64) if np.iscomplexobj(v) else v).reshape(-1)

    def one(x):
        s = "%.*E" % (digits, x)
        if len(s) > digits + 7:
            s = "%.*E" % (max(digits - 1, 0), x)
        return float(s)

    out = np.array([one(x) for x in flat.tolist()], float).reshape(flat.shape)
    if np.iscomplexobj(v):
        return out.view(np.complex128).reshape(v.shape)
    return out.reshape(v.shape)


def _want_ascii(D, digits):
    """file_roundtrip_ascii_bits, model-free: with digits >= 17 every finite double reads back bit-identical, with
    digits == 16 every one that is not a negative value with a three-digit exponent (those are printed with 16
    significant digits: _rounded); below 16 digits the value rounded to the printed digits"""
    if digits >= 17:
        return D
    R = _rounded(D, digits)
    if digits < 16:
        return R
    v = np.ascontiguousarray(D)
    flat = (v.view(np.float64) if np.iscomplexobj(v) else v).reshape(-1)
    rflat = (np.ascontiguousarray(R).view(np.float64) if np.iscomplexobj(v) else np.ascontiguousarray(R)).reshape(-1)
    out = np.array([r if len("%.*E" % (digits, x)) > digits + 7 else x for x, r in zip(flat.tolist(), rflat.tolist())], float)
    if np.iscomplexobj(v):
        return out.view(np.complex128).reshape(v.shape)
    return out.reshape(v.shape)


def _expected_form(m, form):
    if form is not None:
        return {form}
    D = m["D"]
    if D.shape[0] != D.shape[1]:
        return {2}
    if D.size and np.array_equal(D, D.T):
        return {6}
    if D.size and not np.allclose(D, D.T, rtol=1e-3, atol=1e-6):
        return {1}
    return {1, 6}


def _family(case, binary, what):
    fams = set()
    for m in case["mats"]:
        D = m["D"]
        if binary:
            if (case["opt"] == "nonbigmat" and D.shape[0] < 65536 and _long_string(D, m["cplx"])
                    and what == "write-raises"):
                return FIXED_F2
        else:
            if _neg3(D, case["digits"]):
                return FIXED_F3
    if binary and what in ("dir-raises", "namelist-raises") and any(m["D"].shape[1] == 0 for m in case["mats"]):
        return FIXED_F24
    kinds = "+".join(sorted({m["kind"] + ("-complex" if m["cplx"] else "-real") for m in case["mats"]}))
    return "op4-%s-%s-%s-%s" % ("binary" if binary else "ascii", case["opt"], kinds, what)


def _auto_sparse_expected(opt, kind, D):
    """what `sparse=None` must return (documented: sparse iff written in a sparse format; a sparse-format file
    of a matrix without rows / without non-zeros is byte-identical to the dense-format file)"""
    lay = opt if opt != "auto" else ("bigmat" if kind == "sparse" else "dense")
    if lay == "nonbigmat" and D.shape[0] >= 65536:
        lay = "bigmat"
    if lay == "dense":
        return False
    if lay == "bigmat":
        return D.shape[0] > 0
    return bool(np.any(D))


def _coo_expected(opt, kind, D):
    """the (row, col) pairs `sparse=True` must return, in file order: column by column, rows ascending; the sparse
    formats hold exactly the non-zero elements, the dense format everything from the first to the last one"""
    lay = opt if opt != "auto" else ("bigmat" if kind == "sparse" else "dense")
    rows, cols = [], []
    for c in range(D.shape[1]):
        nz = np.nonzero(D[:, c])[0]
        if len(nz) == 0:
            continue
        r = list(range(int(nz[0]), int(nz[-1]) + 1)) if lay == "dense" else nz.tolist()
        rows += r
        cols += [c] * len(r)
    return rows, cols


def _check_roundtrip(op4, sc, case, inputs, binary):
    """returns None or (what, observed, required)"""
    try:
        with _TimeLimit(180):
            return _check_roundtrip_(op4, sc, case, inputs, binary)
    except TimeoutError as e:
        return ("timeout", str(e), "a write / read that terminates")


def _check_roundtrip_(op4, sc, case, inputs, binary):
    p = sc.path()
    try:
        _write(op4, p, case, inputs, binary)
    except Exception as e:  # noqa: BLE001
        return ("write-raises", "%s: %s" % (type(e).__name__, e), "a file that reads back as the input")
    # documented canonicalisation: a non-identifier becomes m{i}, a long name is cut to 8, lower case on read
    names = [(n if n.isidentifier() else "m%d" % i)[:8].lower() for i, n in enumerate(case["names"])]
    for mode in (False, True, None):
        try:
            with warnings.catch_warnings():
                warnings.simplefilter("ignore")
                rn, rm, rf, rt = op4.load(p, into="list", sparse=mode)
        except Exception as e:  # noqa: BLE001
            return ("read-raises", "%s: %s (sparse=%r)" % (type(e).__name__, e, mode), "the matrices written")
        if rn != names:
            return ("names", rn, names)
        for k, (m, X) in enumerate(zip(case["mats"], rm)):
            if mode is True and not sp.issparse(X):
                return ("read-type", "sparse=True returned %s" % type(X).__name__, "a scipy sparse matrix")
            if mode is False and sp.issparse(X):
                return ("read-type", "sparse=False returned a sparse matrix", "ndarray")
            if mode is None and sp.issparse(X) != _auto_sparse_expected(case["opt"], m["kind"], m["D"]):
                return ("auto-sparse", "sparse=None returned %s" % type(X).__name__,
                        "sparse" if _auto_sparse_expected(case["opt"], m["kind"], m["D"]) else "ndarray")
            if mode is True and sp.issparse(X) and m["D"].shape[0] < 65536:
                er, ec = _coo_expected(case["opt"], m["kind"], m["D"])
                Xc = X.tocoo()
                if Xc.row.tolist() != er or Xc.col.tolist() != ec:
                    return ("coo-triplets", {"row": Xc.row.tolist()[:40], "col": Xc.col.tolist()[:40]},
                            {"row": er[:40], "col": ec[:40]})
            A = X.toarray() if sp.issparse(X) else np.asarray(X)
            D = m["D"]
            if A.shape != D.shape:
                return ("shape", list(A.shape), list(D.shape))
            if rt[k] != (4 if m["cplx"] else 2):
                return ("mtype", int(rt[k]), 4 if m["cplx"] else 2)
            if not sp.issparse(X) and np.iscomplexobj(A) != m["cplx"]:
                return ("dtype", str(A.dtype), "complex" if m["cplx"] else "float")
            if int(rf[k]) not in _expected_form(m, case["forms"][k]):
                return ("form", int(rf[k]), sorted(_expected_form(m, case["forms"][k])))
            want = D if binary else _want_ascii(D, case["digits"])
            if not _same_bits(A, want):
                bad = np.argwhere(~((A == want) | ((A != A) & (want != want))))
                i, j = (int(bad[0][0]), int(bad[0][1])) if len(bad) else (-1, -1)
                return ("values", {"matrix": k, "at": [i, j], "read": repr(A[i, j]) if i >= 0 else "?", "sparse": repr(mode)},
                        {"written": repr(D[i, j]) if i >= 0 else "?"})
    # listings
    try:
        dn, ds, df, dt = op4.dir(p, verbose=False)
    except Exception as e:  # noqa: BLE001
        return ("dir-raises", "%s: %s" % (type(e).__name__, e), "a listing")
    if dn != names or [tuple(map(int, s)) for s in ds] != [tuple(m["D"].shape) for m in case["mats"]] or list(df) != list(rf) or list(dt) != list(rt):
        return ("dir", [dn, [list(map(int, s)) for s in ds], list(map(int, df)), list(map(int, dt))],
                [names, [list(m["D"].shape) for m in case["mats"]], list(map(int, rf)), list(map(int, rt))])
    # dictionary interface: the last matrix of each name, in first-seen order
    try:
        with warnings.catch_warnings():
            warnings.simplefilter("ignore")
            dct = op4.read(p)
    except Exception as e:  # noqa: BLE001
        return ("read-raises", "%s: %s (dict)" % (type(e).__name__, e), "a dictionary")
    if list(dct) != list(dict.fromkeys(names)):
        return ("dict-names", list(dct), list(dict.fromkeys(names)))
    for nm, X in dct.items():
        k = max(i for i, n in enumerate(names) if n == nm)
        m = case["mats"][k]
        want = m["D"] if binary else _want_ascii(m["D"], case["digits"])
        if not _same_bits(np.asarray(X), want):
            return ("dict-values", nm, "matrix %d" % k)
    # named subsets = the full read filtered by name: every single name (a repeated one included), as a string and
    # as a list, and a two-name list; list interface (every occurrence, file order) and dictionary (last one wins)
    distinct = list(dict.fromkeys(names))
    picks = [[n] for n in distinct] + ([[distinct[-1], distinct[0]]] if len(distinct) > 1 else [])
    for pk in picks:
        for arg in ([pk[0], list(pk)] if len(pk) == 1 else [list(pk)]):
            try:
                with warnings.catch_warnings():
                    warnings.simplefilter("ignore")
                    sn, sm, _, _ = op4.load(p, namelist=arg, into="list")
                    sd = op4.read(p, namelist=arg)
            except Exception as e:  # noqa: BLE001
                return ("namelist-raises", "%s: %s" % (type(e).__name__, e), "the matrices named %r" % (arg,))
            idx = [i for i, n in enumerate(names) if n in pk]
            if sn != [names[i] for i in idx]:
                return ("namelist", sn, [names[i] for i in idx])
            for X, i in zip(sm, idx):
                m = case["mats"][i]
                want = m["D"] if binary else _want_ascii(m["D"], case["digits"])
                if not _same_bits(np.asarray(X), want):
                    return ("namelist-values", arg, "matrix %d" % i)
            if list(sd) != list(dict.fromkeys(names[i] for i in idx)):
                return ("namelist-dict-names", list(sd), list(dict.fromkeys(names[i] for i in idx)))
            for nm, X in sd.items():
                k = max(i for i in idx if names[i] == nm)
                m = case["mats"][k]
                want = m["D"] if binary else _want_ascii(m["D"], case["digits"])
                if not _same_bits(np.asarray(X), want):
                    return ("namelist-dict-values", nm, "matrix %d (the last of that name)" % k)
    return None



# -- ASCII variant files: model-free -----------------------------------------------------------------------------


def _py_encode_variant(case):
    """the text of a variant file, written from the format description only (no Lean, no pyYeti)"""
    w, p = case["width"], case["perline"]

    def num(neg, exp, digits):
        body = (("-" if neg else "") + str(digits[0]) + "." + "".join(map(str, digits[1:]))
                + ("D" if case["useD"] else "E") + ("-" if exp < 0 else "+") + "%02d" % abs(exp))
        return body.rjust(w)

    def lines(vals):
        out = ""
        for i in range(0, len(vals), p):
            out += "".join(num(*v) for v in vals[i : i + p]) + "\n"
        return out

    wper = 1 if case["single"] else 2
    out = ""
    for m in case["mats"]:
        spec = ("1P," if case["lead1P"] else "") + "%d%s%d.%d" % (p, "D" if case["fmtD"] else "E", w, w - 7)
        if case["lower"]:
            spec = spec.lower()
        mtype = (3 if m["cplx"] else 1) + (0 if case["single"] else 1)
        out += "%8d%8d%8d%8d%-8s%s\n" % (m["ncols"], -m["rows"] if m["neg"] else m["rows"], m["form"], mtype, m["name"], spec)
        for c, strs in m["cols"]:
            if m["lay"] == "d":
                r0, vals = strs[0]
                out += "%8d%8d%8d\n" % (c + 1, r0 + 1, len(vals)) + lines(vals)
            elif m["lay"] == "b":
                out += "%8d%8d%8d\n" % (c + 1, 0, sum(len(v) * wper + 2 for _, v in strs))
                for r0, vals in strs:
                    out += "%8d%8d\n" % (len(vals) * wper + 1, r0 + 1) + lines(vals)
            else:
                out += "%8d%8d%8d\n" % (c + 1, 0, sum(len(v) * wper + 1 for _, v in strs))
                for r0, vals in strs:
                    out += "%12d\n" % ((r0 + 1) + ((len(vals) * wper + 1) << 16)) + lines(vals)
        out += "%8d%8d%8d\n" % (m["ncols"] + 1, 1, 1) + num(0, 0, [1, 0, 0, 0, 0]) + "\n"
    return out


def _vcase_norm(case):
    """(after a JSON round trip the tuples are lists)"""
    c = dict(case)
    c["mats"] = [dict(m, cols=[(cc, [(r0, [tuple([v[0], v[1], list(v[2])]) for v in vals]) for r0, vals in strs])
                               for cc, strs in m["cols"]]) for m in case["mats"]]
    return c


def _check_variant(op4, sc, case):
    """None, or (what, observed, required): pyYeti reads the file as the content it was generated from"""
    case = _vcase_norm(case)
    p = sc.path()
    with open(p, "w", newline="") as f:
        f.write(_py_encode_variant(case))
    want = _vcase_expected(case)
    for mode in (False, True, None):
        try:
            with warnings.catch_warnings(), _TimeLimit(60):
                warnings.simplefilter("ignore")
                rn, rm, rf, rt = op4.load(p, into="list", sparse=mode)
        except Exception as e:  # noqa: BLE001
            return ("read-raises", "%s: %s (sparse=%r)" % (type(e).__name__, e, mode), "the matrices of the file")
        if rn != [w[0] for w in want]:
            return ("names", rn, [w[0] for w in want])
        for k, (w_, X) in enumerate(zip(want, rm)):
            A = X.toarray() if sp.issparse(X) else np.asarray(X)
            if A.shape != (w_[1], w_[2]):
                return ("shape", list(A.shape), [w_[1], w_[2]])
            if int(rf[k]) != w_[3] or int(rt[k]) != w_[4]:
                return ("form-type", [int(rf[k]), int(rt[k])], [w_[3], w_[4]])
            B = w_[5]
            if not np.all(np.isfinite(B.view(np.float64) if np.iscomplexobj(B) else B)):
                continue  # a value beyond the double range: outside "any finite double"
            if not _same_bits(A, B):
                bad = np.argwhere(A != B)
                i, j = (int(bad[0][0]), int(bad[0][1])) if len(bad) else (-1, -1)
                return ("values", {"matrix": k, "at": [i, j], "read": repr(A[i, j]) if i >= 0 else "?", "sparse": repr(mode)},
                        {"in the file": repr(B[i, j]) if i >= 0 else "?"})
    try:
        dn, ds, df, dt = op4.dir(p, verbose=False)
    except Exception as e:  # noqa: BLE001
        return ("dir-raises", "%s: %s" % (type(e).__name__, e), "a listing")
    got = [(a, int(b[0]), int(b[1]), int(c), int(d)) for a, b, c, d in zip(dn, ds, df, dt)]
    if got != [w[:5] for w in want]:
        return ("dir", got, [list(w[:5]) for w in want])
    return None


def _variant_family(case, what):
    lays = "+".join(sorted({{"d": "dense", "b": "bigmat", "n": "nonbigmat"}[m["lay"]] for m in case["mats"]}))
    return "op4-ascii-read-variant-%s-%s%s-%s" % (lays, "D" if case["useD"] else "E", "-single" if case["single"] else "", what)


def _oracle_mixed_formats(ctx, op4, sc, rng):
    """one ASCII file whose matrices announce DIFFERENT number formats, some of them none at all (the reader's default
    5E16.9): a full read, the listing, and every single-name / two-name named read (= the full read filtered) - what
    the reader remembers of one matrix's format must not reach the next one, also when the first one is only skipped"""
    cases = []
    for k in range(rng.randint(2, 5)):
        c = _gen_vcase(rng)
        c["mats"] = c["mats"][:1]
        c["mats"][0]["name"] = "M%d%s" % (k, c["mats"][0]["name"][:3])
        if rng.random() < 0.45:
            c["width"], c["perline"], c["announce"] = 16, 5, False
            pass
            c["mats"] = [_gen_vmat(rng, c["single"], 8)]
            c["mats"][0]["name"] = "M%dU" % k
        cases.append(c)
    use_d = rng.random() < 0.4  # (the reader decides E or D once per file, from the first data line)
    for c in cases:
        c["useD"] = use_d
    cases = [_vcase_norm(c) if c.get("announce") is not False else dict(_vcase_norm(c), announce=False) for c in cases]
    text = ""
    for c in cases:
        t = _py_encode_variant(c)
        if c.get("announce") is False:
            first, rest = t.split("\n", 1)
            t = first[:40].rstrip() + "\n" + rest
        text += t
    want = [e for c in cases for e in _vcase_expected(c)]
    p = sc.path()
    open(p, "w").write(text)
    ctx.count("oracle:ascii-mixed-formats")
    inp = {"kind": "mixed-formats", "text": text, "formats": [("none" if c.get("announce") is False else "%dE%d" % (c["perline"], c["width"]))
                                                             for c in cases]}

    def load(**kw):
        with warnings.catch_warnings():
            warnings.simplefilter("ignore")
            n, X, f_, t_ = op4.load(p, into="list", **kw)
        return [(a, np.asarray(x)) for a, x in zip(n, X)]

    try:
        full = load()
        ok = [a for a, _ in full] == [w[0] for w in want] and all(
            x.shape == w[5].shape and (not np.all(np.isfinite(w[5].view(np.float64) if np.iscomplexobj(w[5]) else w[5]))
                                       or _same_bits(x, w[5])) for (_, x), w in zip(full, want))
        if not ok:
            ctx.fail("op4-ascii-mixed-formats-full-read", "a file whose matrices announce different formats (or none) is not "
                     "read back", inp, [a for a, _ in full], [w[0] for w in want])
            return
        names = [w[0] for w in want]
        picks = [[n_] for n_ in names] + [[names[-1], names[0]]]
        for pk in picks:
            sub = load(namelist=pk)
            ref = [(a, x) for a, x in full if a in pk]
            if [a for a, _ in sub] != [a for a, _ in ref] or any(x.shape != y.shape or not _same_bits(x, y)
                                                                  for (_, x), (_, y) in zip(sub, ref)):
                ctx.fail("op4-ascii-mixed-formats-named-read", "a named read of a file with mixed number formats is not the "
                         "full read filtered (namelist %r)" % (pk,), inp, [a for a, _ in sub], [a for a, _ in ref])
                return
    except Exception as e:  # noqa: BLE001
        ctx.fail("op4-ascii-mixed-formats-raises", "reading a valid file with mixed number formats raises", inp,
                 "%s: %s" % (type(e).__name__, str(e)[:160]), "the matrices")
    finally:
        os.path.exists(p) and os.remove(p)


def _oracle_variant(ctx, op4, sc, case):
    r = _check_variant(op4, sc, case)
    ctx.count("oracle:ascii-variant")
    if r is not None:
        ctx.fail(_variant_family(case, r[0]), "ASCII variant file read by op4.load / op4.dir: %s" % r[0],
                 {"variant": case}, r[1], r[2])
        ctx.extra["unknown_failures"] = ctx.extra.get("unknown_failures", 0) + 1


def _unrepresentable(case):
    """ASCII with fewer than 17 significant digits: a value that rounds past the largest double cannot be
    'read back to the requested digits' (it reads as inf) - outside the property's domain"""
    if case["digits"] >= 17:
        return False
    for m in case["mats"]:
        D = m["D"]
        big = np.abs(D.view(np.float64) if np.iscomplexobj(D) else D) > 9e307
        if np.any(big) and not np.all(np.isfinite(_rounded(D, case["digits"]).view(np.float64))):
            return True
    return False


def _oracle_case(ctx, op4, sc, case, rng, record=True):
    inputs = [_as_input(rng, m) for m in case["mats"]]
    res = []
    for binary in (True, False):
        if not binary and _unrepresentable(case):
            ctx.skip("ascii: a value rounds past DBL_MAX at the requested digits")
            continue
        r = _check_roundtrip(op4, sc, case, inputs, binary)
        ctx.count("oracle:" + ("binary" if binary else "ascii"))
        if r is not None:
            res.append((binary, r))
    fails = []
    for binary, (what, obs, reqd) in res:
        c = _shrink(op4, sc, case, binary, rng)
        r2 = _check_roundtrip(op4, sc, c, [_as_input(rng, m) for m in c["mats"]], binary) or (what, obs, reqd)
        f = {"family": _family(c, binary, r2[0]),
             "what": "%s op4.write(sparse=%r) then read: %s" % ("binary" if binary else "ASCII", c["opt"], r2[0]),
             "input": dict(_case_json(c), binary=binary), "observed": r2[1], "required": r2[2]}
        fails.append(f)
        if record:
            ctx.fail(f["family"], f["what"], f["input"], f["observed"], f["required"])
            ctx.extra["unknown_failures"] = ctx.extra.get("unknown_failures", 0) + 1
    return fails


def _shrink(op4, sc, case, binary, rng):
    """smaller failing case: one matrix, then one column, if the failure persists"""
    def fails(c):
        return _check_roundtrip(op4, sc, c, [_as_input(rng, m) for m in c["mats"]], binary) is not None

    best = case
    if len(case["mats"]) > 1:
        for k in range(len(case["mats"])):
            c = dict(case, mats=[case["mats"][k]], names=[case["names"][k]], forms=[case["forms"][k]])
            if fails(c):
                best = c
                break
    m = best["mats"][0]
    if len(best["mats"]) == 1 and m["D"].shape[1] > 1 and m["D"].size < 500000:
        for j in range(m["D"].shape[1]):
            c = dict(best, mats=[dict(m, D=m["D"][:, j : j + 1].copy())], forms=[best["forms"][0] or 2])
            if fails(c):
                best = c
                break
    if best["mats"][0]["D"].size > 200000:
        return best
    return best


def _oracle_f49(ctx, op4, sc):
    try:
        avail = int([ln for ln in open("/proc/meminfo") if ln.startswith("MemAvailable")][0].split()[1]) // 1024 ** 2
        free_gb = shutil.disk_usage("/tmp").free // 1024 ** 3
    except Exception:  # noqa: BLE001
        avail, free_gb = 0, 0
    if avail < 24 or free_gb < 8:
        ctx.skip("F49 reproduction needs 24 GB of memory and 8 GB of scratch space")
        return
    n = 2 ** 28 - 1
    A = sp.coo_matrix((np.array([1.0, 2.0]), ([0, n - 1], [0, 0])), shape=(n, 1))
    p = sc.path()
    ctx.count("oracle:f49-2GiB-record")
    inp = {"input": "scipy.sparse.coo_matrix(([1.0, 2.0], ([0, 2**28 - 2], [0, 0])), shape=(2**28 - 1, 1))",
           "call": "op4.write(f, ['a', 'z'], [A, numpy.eye(2)], sparse='dense'); op4.dir(f)"}
    try:
        with warnings.catch_warnings():
            warnings.simplefilter("ignore")
            op4.write(p, ["a", "z"], [A, np.eye(2)], sparse="dense")
    except (struct.error, ValueError, OverflowError):
        os.path.exists(p) and os.remove(p)
        return  # a refused write is what the ndarray path does: fine
    except MemoryError:
        os.path.exists(p) and os.remove(p)
        ctx.skip("F49 reproduction: MemoryError")
        return
    try:
        reclen = struct.unpack("<i", open(p, "rb").read(36)[32:36])[0]
        try:
            names = op4.dir(p, verbose=False)[0]
            ok = names == ["a", "z"]
            obs = "dir -> %r" % (names,)
        except Exception as e:  # noqa: BLE001
            ok, obs = False, "dir raises %s: %s" % (type(e).__name__, e)
        if reclen < 0 or not ok:
            ctx.fail(FIXED_F49, "binary dense-layout write of a scipy.sparse input whose column record is >= 2 GiB: the record "
                     "length is computed in numpy int32 arithmetic and wraps", inp,
                     "record marker %d; %s" % (reclen, obs), "struct.error like the ndarray path, or a readable file")
            ctx.extra["unknown_failures"] = ctx.extra.get("unknown_failures", 0) + 1
    finally:
        os.path.exists(p) and os.remove(p)


class _StopWrite(Exception):
    pass


def _oracle_f49_quick(ctx, op4):
    """the cheap guard of F49: the dense-layout column record of a scipy.sparse input (int32 index arrays) spanning
    2**28 - 1 rows, handed to the binary writer with a file object that looks at the column header and stops the write
    before any value is packed (so neither 9 GB of memory nor a 2 GiB file are needed).  The repaired code never gets
    that far: struct.pack refuses the record length, as for an ndarray.  Uses OP4._write_binary / _ensure_2d_dp
    directly; if they are not there or do not take these arguments the guard is skipped, never failed."""
    n = 2 ** 28 - 1
    A = sp.coo_matrix((np.array([1.0, 2.0]), (np.array([0, n - 1], dtype=np.int32), np.array([0, 0], dtype=np.int32))), shape=(n, 1))
    seen = []

    class _F:
        def write(self, b):
            seen.append(bytes(b))
            if len(seen) >= 2:
                raise _StopWrite()
            return len(b)

    ctx.count("oracle:f49-quick-guard")
    try:
        mat = op4._ensure_2d_dp(A)
        with warnings.catch_warnings():
            warnings.simplefilter("ignore")
            op4.OP4()._write_binary(_F(), "a", mat, "<", 2)
        ctx.skip("F49 quick guard: the writer returned without a second write")
    except (struct.error, OverflowError):
        return  # refused like the ndarray path
    except _StopWrite:
        rec = seen[1]
        reclen = struct.unpack("<i", rec[:4])[0] if len(rec) >= 4 else None
        if reclen != 3 * 4 + n * 8:
            ctx.fail(FIXED_F49, "binary dense-layout write of a scipy.sparse input whose column record is >= 2 GiB: the record "
                     "length is computed in numpy int32 arithmetic and wraps",
                     {"input": "scipy.sparse.coo_matrix(([1.0, 2.0], ([0, 2**28 - 2], [0, 0])), shape=(2**28 - 1, 1))",
                      "call": "OP4()._write_binary(f, 'a', _ensure_2d_dp(A), '<', 2), stopped after the column header"},
                     "column header announces record length %r" % (reclen,), "struct.error like the ndarray path")
            ctx.extra["unknown_failures"] = ctx.extra.get("unknown_failures", 0) + 1
    except MemoryError:
        ctx.skip("F49 quick guard: MemoryError")
    except (AttributeError, TypeError) as e:
        ctx.skip("F49 quick guard: inner writer interface changed (%s)" % type(e).__name__)


HUGE_FORM = "op4-huge-sparse-input-automatic-form"


def _huge_sparse_cases(rng, count):
    """square scipy.sparse matrices with more than 2**32 positions and a handful of entries: the automatic form (6 iff
    value-symmetric) must be decided on (row, col) pairs, not on a linearised index that wraps.  Entries are placed so
    that a non-mirror pair coincides modulo 2**32 in r*n + c (the textbook way a 32-bit linear index goes wrong)."""
    out = []
    for _ in range(count):
        n = rng.choice([131072, 100000, 70001, 2 ** 17 + 3])
        cplx = rng.random() < 0.3
        val = complex(2.5, -1.0) if cplx else 2.5
        for _try in range(200):
            r, c = rng.randrange(n), rng.randrange(n)
            L = r * n + c - 2 ** 32
            if L < 0 or r <= c:
                continue
            c2, r2 = divmod(L, n)  # (r2, c2) has the transposed linear index L
            if r2 < c2 and (r2, c2) != (c, r):
                break
        else:
            continue
        kind = rng.choice(["collide", "mirror", "collide+diag"])
        if kind == "mirror":
            trip = [(r, c, val), (c, r, val)]
        else:
            trip = [(r, c, val), (r2, c2, val)]
            if kind == "collide+diag":
                trip.append((7, 7, 1.0))
        out.append({"n": n, "trip": trip, "cplx": cplx, "binary": rng.random() < 0.6,
                    "fmt": rng.choice(["coo", "csr", "csc"]), "opt": rng.choice(["auto", "bigmat"])})
    return out


def _oracle_huge_sparse(ctx, op4, sc, case):
    n, trip = case["n"], case["trip"]
    ctx.count("oracle:huge-sparse-form")
    rows = np.array([t[0] for t in trip])
    cols = np.array([t[1] for t in trip])
    vals = np.array([t[2] for t in trip], dtype=complex if case["cplx"] else float)
    A = sp.coo_matrix((vals, (rows, cols)), shape=(n, n))
    A = {"coo": lambda: A, "csr": A.tocsr, "csc": A.tocsc}[case["fmt"]]()
    ent = {(t[0], t[1]): t[2] for t in trip}
    sym = all(ent.get((c, r)) == v for (r, c), v in ent.items())
    want = 6 if sym else 1
    p = sc.path()
    inp = {"kind": "huge-sparse", "case": {k: (v if k != "trip" else [[t[0], t[1], [complex(t[2]).real, complex(t[2]).imag]] for t in v])
                                          for k, v in case.items()}}
    try:
        with warnings.catch_warnings():
            warnings.simplefilter("ignore")
            op4.write(p, ["a"], [A], binary=case["binary"], sparse=case["opt"])
            forms = op4.dir(p, verbose=False)[2]
            _, ms, fs, _ = op4.load(p, into="list", sparse=True)
    except MemoryError:
        ctx.skip("huge sparse form: MemoryError")
        return
    except Exception as e:  # noqa: BLE001
        ctx.fail(HUGE_FORM + "-raises", "write / dir / sparse read of a %d x %d sparse matrix with %d entries raises" % (n, n, len(trip)),
                 inp, "%s: %s" % (type(e).__name__, str(e)[:160]), "form %d" % want)
        return
    finally:
        os.path.exists(p) and os.remove(p)
    got = sp.coo_matrix(ms[0])
    back = {(int(r), int(c)): complex(v) for r, c, v in zip(got.row, got.col, got.data)}
    if list(forms) != [want] or list(fs) != [want]:
        ctx.fail(HUGE_FORM, "automatic form of a %s %d x %d scipy.sparse input (%s)" % (
            "value-symmetric" if sym else "non-symmetric", n, n, "entries: " + ", ".join("(%d,%d)" % (t[0], t[1]) for t in trip)),
            inp, "form %s (dir), %s (load)" % (list(forms), list(fs)), "form %d" % want)
    elif back != {k: complex(v) for k, v in ent.items()} or got.shape != (n, n):
        ctx.fail(HUGE_FORM + "-values", "sparse read of a huge sparse matrix differs", inp, sorted(back.items())[:4], sorted(ent.items())[:4])


def _valid_names(rng, case):
    case["names"] = [_gen_name(rng, valid_only=True) for _ in case["names"]]
    for i in range(1, len(case["names"])):  # repeated names anywhere in the file
        if rng.random() < 0.3:
            case["names"][i] = case["names"][rng.randrange(i)]
    return case


def _big_oracle_cases(ctx, rng):
    """shapes on both sides of 65536 rows and of the 3000-value read cut-off; 16383/16384 strings"""
    out = []

    def mk(rows, cols, cplx, fill, kind="ndarray", opt=None, **kw):
        D = np.zeros((rows, cols), complex if cplx else float)
        fill(D)
        c = {"mats": [{"kind": kind, "cplx": cplx, "D": D}], "names": ["big"], "forms": [kw.get("form", 2)],
             "opt": opt or rng.choice(["auto", "dense", "bigmat", "nonbigmat"]), "endian": rng.choice(["<", ">"]),
             "digits": kw.get("digits", 16)}
        out.append(c)

    def runs(D):
        g = ctx.np_rng(rng.randrange(1 << 30))
        for j in range(D.shape[1]):
            i = int(g.integers(0, 50))
            while i < D.shape[0]:
                L = int(g.choice([1, 2, 5, 40, 2999, 3000, 3001, 7000]))
                L = min(L, D.shape[0] - i)
                v = g.normal(size=L)
                v[v == 0] = 1.0
                D[i : i + L, j] = v + (1j * g.normal(size=L) if np.iscomplexobj(D) else 0)
                i += L + int(g.integers(1, 3000))

    def full(D):
        D[:] = 1.5 + (0.25j if np.iscomplexobj(D) else 0)

    # the F2 boundary, all layouts
    for opt in ("nonbigmat", "bigmat", "dense"):
        for rows in (16383, 16384):
            mk(rows, 1, False, full, opt=opt)
        for rows in (8191, 8192):
            mk(rows, 1, True, full, opt=opt)
    # a long string that is not the whole column, in a sparse-matrix input
    def part(D):
        D[5 : 5 + 16384, 0] = 2.0
        D[30000:30010, 0] = 3.0
    mk(40000, 2, False, part, kind="sparse", opt="nonbigmat")
    shapes = [(2999, 2), (3000, 1), (3001, 2), (65535, 1), (65536, 1), (65537, 2), (70000, 1)]
    if ctx.thorough:
        shapes += [(1499, 3), (1500, 2), (1501, 1), (32767, 2), (32768, 1), (66000, 3), (69999, 2)]
    for rows, cols in shapes:
        for cplx in ((False, True) if ctx.thorough else (rng.random() < 0.4,)):
            mk(rows, cols, cplx, runs, kind=rng.choice(["ndarray", "sparse"]),
               opt=rng.choice(["auto", "dense", "bigmat", "nonbigmat"]))
    return out


def search(ctx, hints):
    op4 = _op4()
    rng = ctx.rng
    sc = _Scratch()
    try:
        # 1. the disagreements found by the correspondence
        seen = 0
        for h in hints:
            j = h.get("input")
            if isinstance(j, dict) and "mats" in j and seen < 25:
                seen += 1
                _oracle_case(ctx, op4, sc, _case_from_json(j), rng)
            elif isinstance(j, dict) and isinstance(j.get("variant"), dict) and seen < 40:
                seen += 1
                _oracle_variant(ctx, op4, sc, j["variant"])
        # 2. corpus
        cp = os.path.join(ctx.verif, "corpus", "c04.json")
        if os.path.exists(cp):
            for j in json.load(open(cp)):
                _oracle_case(ctx, op4, sc, _case_from_json(j), rng)
        # 3. boundary families
        for case in _big_oracle_cases(ctx, rng):
            _oracle_case(ctx, op4, sc, case, rng)
            ctx.count("oracle:big-shape")
        # the F3 point itself and its neighbours
        for v, d in ((-2.5e-120, 16), (2.5e-120, 16), (-2.5e-99, 16), (-1e100, 9), (-9.9999999999999999e99, 3)):
            D = np.array([[v, 1.0], [0.0, -3.0]])
            _oracle_case(ctx, op4, sc, {"mats": [{"kind": "ndarray", "cplx": False, "D": D}], "names": ["a"],
                                        "forms": [None], "opt": "dense", "endian": "<", "digits": d}, rng)
        # 1-D and integer inputs go through atleast_2d / astype
        for x in (np.arange(5), np.array([1, 0, 2]), np.array([[1, 2], [2, 1]], dtype=np.int32), np.float32([0.5, 0.25])):
            p = sc.path()
            ctx.count("oracle:coerced-input")
            try:
                op4.write(p, "x", x)
                got = op4.read(p)["x"]
                if not _same_bits(got, np.atleast_2d(x).astype(float)):
                    ctx.fail("op4-binary-coerced-input", "1-D / integer / float32 input does not read back as the 2-D double matrix",
                             {"x": x.tolist(), "dtype": str(x.dtype)}, got.tolist(), np.atleast_2d(x).astype(float).tolist())
            except Exception as e:  # noqa: BLE001
                ctx.fail("op4-binary-coerced-input", "write/read raises", {"x": x.tolist(), "dtype": str(x.dtype)}, repr(e), "round trip")
        # an invalid `sparse` option is refused before the file is touched
        for binary in (True, False):
            p = sc.path()
            op4.write(p, "a", np.eye(2), binary=binary)
            before = open(p, "rb").read()
            ctx.count("oracle:invalid-sparse-option")
            try:
                op4.write(p, "a", np.ones((3, 3)), binary=binary, sparse="sprase")
                ctx.fail("op4-write-invalid-sparse-option", "an invalid `sparse` option is accepted", {"sparse": "sprase", "binary": binary},
                         "no exception", "ValueError")
            except ValueError:
                if open(p, "rb").read() != before:
                    ctx.fail("op4-write-invalid-sparse-option", "the refused call modified the file", {"sparse": "sprase", "binary": binary},
                             "file changed", "file untouched")
        # more than two dimensions
        ctx.count("oracle:3d-input")
        try:
            op4.write(sc.path(), "a", np.ones((2, 2, 2)))
            ctx.fail("op4-write-3d-input", "a 3-d array is accepted", {"shape": [2, 2, 2]}, "no exception", "ValueError")
        except ValueError:
            pass
        # F49: a sparse input in the dense layout whose column record reaches 2 GiB (needs ~9 GB of memory and a
        # 2 GiB scratch file: thorough tier only, and only when the machine has the room)
        _oracle_f49_quick(ctx, op4)
        if ctx.thorough:
            _oracle_f49(ctx, op4, sc)
        # huge sparse inputs: index arithmetic beyond 2**32 positions
        for hc in _huge_sparse_cases(rng, ctx.pick(8, 60)):
            _oracle_huge_sparse(ctx, op4, sc, hc)
        for _ in range(ctx.pick(60, 500)):
            _oracle_mixed_formats(ctx, op4, sc, rng)
        # ASCII variant files (reader only)
        for _ in range(ctx.pick(300, 2500)):
            _oracle_variant(ctx, op4, sc, _gen_vcase(rng))
            if ctx.extra.get("unknown_failures", 0) > 25:
                break
        # 4. seeded random stream
        n = ctx.pick(1500, 12000)
        for i in range(n):
            vstyle = rng.choice(["int", "normal", "bits+", "special", "normal", "bits+", "neg3" if i % 8 == 0 else "normal"])
            big = rng.random() < 0.15
            case = _valid_names(rng, _gen_file(rng, vstyle, max_rows=200 if big else 12, max_cols=8 if big else 6))
            _oracle_case(ctx, op4, sc, case, rng)
            if ctx.extra.get("unknown_failures", 0) > 25 or sum(1 for f in ctx.failures if f["what"].endswith("timeout")) >= 2:
                break
    finally:
        sc.close()


def replay(ctx, data):
    op4 = _op4()
    f = data.get("failure")
    if not f:
        return None
    j = f["input"]
    if str(f.get("family", "")).startswith(HUGE_FORM):
        sc = _Scratch()
        try:
            before = len(ctx.failures)
            c = dict(j["case"])
            c["trip"] = [(t[0], t[1], complex(t[2][0], t[2][1]) if c["cplx"] else t[2][0]) for t in c["trip"]]
            _oracle_huge_sparse(ctx, op4, sc, c)
            return dict(ctx.failures[-1]) if len(ctx.failures) > before else None
        finally:
            sc.close()
    if f.get("family") == FIXED_F49:
        sc = _Scratch()
        try:
            before = len(ctx.failures)
            if "stopped after the column header" in str(j.get("call", "")):
                _oracle_f49_quick(ctx, op4)
            else:
                _oracle_f49(ctx, op4, sc)
            return dict(ctx.failures[-1]) if len(ctx.failures) > before else None
        finally:
            sc.close()
    if isinstance(j.get("variant"), dict):
        sc = _Scratch()
        try:
            r = _check_variant(op4, sc, j["variant"])
            if r is None:
                return None
            return {"family": _variant_family(j["variant"], r[0]), "what": r[0], "input": j, "observed": r[1], "required": r[2]}
        finally:
            sc.close()
    if "mats" not in j:
        return None
    sc = _Scratch()
    try:
        case = _case_from_json(j)
        r = _check_roundtrip(op4, sc, case, [_as_input(ctx.rng, m) for m in case["mats"]], j.get("binary", True))
        if r is None:
            return None
        return {"family": _family(case, j.get("binary", True), r[0]), "what": r[0], "input": j,
                "observed": r[1], "required": r[2]}
    finally:
        sc.close()
