"""C13 — bulk-data writers and readers are mutual inverses (DESIGN.md section 6/C13).

Tie: exact-text correspondence between the Lean model lean/PyYetiVerif/Model/Bulk.lean (run through
Drivers/C13.lean) and pyyeti.nastran.bulk:

  writers  _find_sequence, wtnasints, wtcsuper, wtextrn, wtspoints (_wt_with_thru + wtcard8), wtset
           (+ _wrap_text_lines), wttabled1 (both widths; the pair fields are formatted by Python and
           handed to the model as opaque fixed-width tokens), wtdmig (integer-valued matrices, forms
           1/2/6/9, types 1-4) — character for character;
  readers  rdcards(list mode; fixed 8, fixed 16, comma; comments, continuation styles), rdspoints,
           rdcsupers, rdextrn(expand=False), rdtabled1, rdsets, rddmig — on the written texts and on
           independently generated variants; number fields are compared as exact decimals
           (float(Fraction) == value the code returns).

Second model file lean/PyYetiVerif/Model/BulkGrid.lean: writer.vecwrite (argument packaging, the `length` rule and
its ValueError / IndexError), wtgrids (8 / 16 wide, short form and PS / SEID form, every packaging of cp / xyz / cd / ps /
seid), wtcoordcards, the layout of uset2bulk — exact text, the coordinate fields formatted by Python and handed over as
opaque tokens; readers rdgrids (array mode, ragged cards padded with 0), rdcards(regex cord2, keep_name) and
rdcord2cards (the twelve numbers per card exactly, and the final dictionary through the real n2p.build_coords), on the
written texts and on independently rendered GRID / CORD2x files; rddmig is compared frame by frame with the frame the
Lean model assembles (DmigRead.frame).

Further model files: Model/BulkDmigX.lean (rddmig expanded / square: stream rddmig-options), Model/BulkMulti.lean (files
holding the cards of several readers: stream multi-file, the model's FileOK decision on every generated file),
Model/BulkReal.lean (real fields through C12's exact float formatting: streams real-fields, wtdmig-real),
Model/BulkUset.lean (uset2bulk / bulk2uset at the table level: streams uset-table-write / uset-table-read),
Model/BulkFmt.lean + Generated/BulkFormats.lean (translator harness/translate/c13_bulkformats.py: the writers' format
strings, widths, items per line, continuation markers, the reader's slicing constants).

The model-free oracle restates the property on the API: read(write(x)) == x for every pair, including
GRID / CORD2x / uset2bulk / bulk2uset and real / complex DMIG with non-integer values.  Coordinate values
are drawn with mixed magnitudes (up to ~12 decades on one card, tiny non-zero components next to large
ones) and each value is compared to the precision of the written format relative to its own magnitude
({:16.8e}: 9 significant digits; the writer's documented noise floor is 1e-15 of the card's largest value);
form-9 DMIG uses column numbers that are not 1..n and is read back both by default and with expanded=True
(header NCOL = largest column number).
"""
import io
import itertools
import json
import math
import os
import re
from fractions import Fraction

import numpy as np

from runner import Infra, TieBroken

ID = "C13"
LEAN_MODULES = ["PyYetiVerif.Props.C13", "PyYetiVerif.Props.C13Text", "PyYetiVerif.Props.C13Dmig", "PyYetiVerif.Props.C13Grid",
                "PyYetiVerif.Props.C13Cord", "PyYetiVerif.Props.C13DmigX", "PyYetiVerif.Props.C13Fmt", "PyYetiVerif.Props.C13Multi", "PyYetiVerif.Props.C13Values", "PyYetiVerif.Props.C13Uset", "PyYetiVerif.Props.C13Set",
                "PyYetiVerif.Props.C13ValuesTab", "PyYetiVerif.Props.C13SetIff", "PyYetiVerif.Props.C13FileOK", "PyYetiVerif.Audit.C13"]
AUDIT_FILE = "PyYetiVerif/Audit/C13.lean"
THEOREMS = [
    "PyYetiVerif.C13." + n
    for n in (
        "thru_roundtrip thru_maximal nasints_layout nasints_columns spoint_roundtrip csuper_roundtrip "
        "extrn_roundtrip set_wrap_roundtrip wrap_line_length tabled1_layout fixed_field_slicing "
        "dmig_structure dmig_form6_iff dmig_roundtrip dmig_ncol_form9 dmig_header_ncol "
        "int_field_roundtrip int_field_padL set_roundtrip set_any_wrap tabled1_roundtrip "
        "spoint_lines_roundtrip csuper_lines_roundtrip extrn_lines_roundtrip "
        "dmig_roundtrip_converse dmig_assignments_iff dmig_reader_on_written dmig_frame_roundtrip "
        "dmig_value_field dmig_lines_cards dmig_text_roundtrip "
        "vecwrite_length_rule vecwrite_mismatch_raises vecwrite_broadcast wtgrids_packaging wtgrids_mismatch_raises "
        "grid_roundtrip cord2_roundtrip uset_roundtrip "
        "rddmig_default_is_plain rddmig_options_same_cells rddmig_square_index rddmig_expanded_index "
        "rddmig_expanded_spec rddmig_square_spec rddmig_options_on_lines "
        "bulk_format_widths_ok dmig_lines_are_templates grid_card_is_template cord_card_is_template nasints_is_template "
        "set_tokens_are_templates tabled1_is_template "
        "readers_independent typed_readers_independent sets_in_file wtset_is_segment "
        "real_field_reads real_field_accuracy real_field_clean tabled1_roundtrip_values grid_roundtrip_values "
        "cord2_roundtrip_values dmig_roundtrip_values dmig_lines_int_instance "
        "uset_bulk_roundtrip_labels uset_bulk_roundtrip_labels_full set_header_split_fails set_roundtrip_iff_partial "
        "set_header_split1_fails set_item_cut_reads set_item_cut_fails set_roundtrip_iff "
        "file_ok_of_blocks written_file_ok typed_readers_independent_written readers_independent_written "
        "dmig_field_fits dmig_terms_in_range "
        "tabled1_all_doubles tabled1_default_eq_before_fix tabled1_default_differs_iff"
    ).split()
]
TRUSTED = [
    "correspondence harness harness/props/c13.py (exact text; number fields as exact decimals) and the translator "
    "harness/translate/c13_bulkformats.py (Python ast, no execution of repo code)",
    "CPython str.format for '{:8d}', '{:<8s}', '{:>8}' (integer rendering `dec` = Lean `toString`; padding = `padL` / `padR`); "
    "CPython's float formatting '%.pE' / '%.pe' / '%.pf' is C12's bit-exact model Model/PyFloat.lean (fmtE, fmtF: correctly "
    "rounded on the exact binary value), tied here by the exact-text stream real-fields (every decade, three-digit "
    "exponents, subnormals, values that round to the next power of ten) and by wtdmig-real",
    "user-supplied `form` strings of wtgrids / wttabled1 other than the defaults are formatted by Python and handed to the "
    "model as opaque tokens (the theorems then say the reader returns nas_sscanf(token)); the default formats '{:16.8f}', "
    "'{:16.9E}{:16.9E}' and the fixed _dmig_field ('{:16.9E}' / fallback '{:16.8E}', wtdmig), '{:16.8e}' (wtcoordcards) are modelled and proved as values",
    "text domain of the reader model: ASCII, no tabs, no 'inf'/'nan' words, no '_' inside numbers, no INCLUDE",
    "np.allclose(m.T, m) of wtdmig is modelled as exact symmetry (the streams use exactly symmetric or clearly "
    "asymmetric matrices; symmetric-within-allclose-only inputs are skipped and counted)",
    "rddmig locates a cell by np.searchsorted on 10*id+dof, the model by label equality (the same for DOF 0..9 and labels "
    "that are in the index: expanded=True therefore asks that an id is used either as a scalar point or as a grid); pandas "
    "MultiIndex / DataFrame construction around the assembled matrix; the dmig_names filter argument is not modelled",
    "vecwrite arguments are Python scalars, lists, tuples or 1-d numpy arrays (np.ndim == 2 matrices and 0-d arrays are not "
    "used by the C13 writers)",
    "wtcoordcards' noise floor (values below 1e-15 of the card's largest are written as 0; the constant is checked by the "
    "translator) is applied by the harness before the nine values are handed over; n2p.mkcordcardinfo / build_coords / "
    "addgrid geometry is C14 (rdcord2cards is compared through the real build_coords applied to the model's rows); the "
    "ORDER of the cards of uset2bulk is the dictionary order of the real mkcordcardinfo",
    "USET tables are read entry by entry by the harness (a grid = six consecutive rows DOF 1..6, a scalar point = one row "
    "DOF 0); np.argsort of distinct grid ids = ascending order; n2p.mkusetmask()['b'] = the constant of C18's generated table",
    "C12's lemma files about fmtE / fmtF (Lemmas/PyFloatLog, NasFloatSci, NasFloatRat, PyFloatStr) are imported read-only; "
    "through them the C13 closure contains C12's Generated/NasFloatTables.lean (not used by any C13 statement)",
]
RULE = (
    "id lists built from run structures (singletons, runs of 2..12, line-filling lengths 0..40, unsorted and "
    "repeated ids, 1..8 digit ids), every start field 1..10, SET max_length 24..72 and short widths that force "
    "token splits (oracle: every max_length 2..26 x six id lists, round trip iff every token fits, and exactly what rdsets returns on a cut token: {} for a cut head, the ids before the cut item followed by the reading of its first max_length-1 characters, or ValueError; streams wtset / rdsets on cut texts: head cut by >= 2 columns, by exactly 1, item cut inside a plain id / inside a / inside THRU / inside b / before its comma), TABLED1 with 0..13 "
    "points in four formats and both widths, DMIG with grid/scalar partial-DOF index sets, forms 1/2/6/9, types 1-4, "
    "integer AND real / complex values of 60 decades, read plain and with expanded / square / both; vecwrite with 1..5 "
    "arguments, each a scalar, a length-1 / length-N / other-length list, tuple or array in every order (ValueError and "
    "IndexError cases included); wtgrids with 1..9 grids, seven formats (8 and 16 wide), cp / cd / ps / seid scalar, "
    "length-1 vector, length-N vector or '' and xyz with 1 row, N rows or a wrong number of rows; wtcoordcards with 1..3 "
    "systems of mixed magnitude; uset2bulk of generated USET tables with 0..3 coordinate systems, also with scalar points "
    "and grids out of id order; single real fields over every decade incl. three-digit exponents, zero, -0.0, subnormals, "
    "values rounding to the next power of ten; files that interleave the cards of up to eight writers with comments, "
    "foreign cards, empty lines and SET statements; reader variants re-render the same cards in fixed-8 / fixed-16 / comma "
    "form with random continuation markers, comments, blank lines, case and spacing (GRID cards of different length, "
    "CORD2x cards with 11, 12, 13 fields, words, near-miss names, SET statements with EXCEPT). A case is one (writer or "
    "reader, input) pair; non-trivial = the text has more than one physical line, a THRU, a wrap, a continuation, a "
    "vector argument or a non-default form; distinct by the canonical input"
)
ASSUMPTIONS = [
    "wtcoordcards zeroes values below 1e-15 of the largest value on the card (documented noise floor): coordinate "
    "cards are generated with at most ~12 decades between their values",
    "wtdmig's symmetry test is np.allclose(m.T, m): a square frame symmetric within those tolerances is symmetric by "
    "the writer's definition (written as form 6 from its lower triangle); test matrices are exactly symmetric or "
    "asymmetric well above the tolerance, anything in between is skipped and counted",
    "every integer written in an 8 (16) column field has at most 8 (16) characters",
    "DMIG names have at most 8 characters and do not parse as numbers",
    "TABLED1 pair formats produce two equal-width fields whose last character is not blank and that contain no '$'",
    "SET ids and set ids are non-negative (the reader's regular expressions are \\d+)",
    "GRID / CORD2x coordinate formats produce fields of exactly 8 (16) columns without '$' or ',' that do not end in a blank; "
    "the card name of wttabled1 has at most 8 (7) characters without '$', ',' or '*'",
    "DMIG row labels are duplicate-free and column labels are duplicate-free (pandas allows duplicates; the reader then "
    "keeps the last term: shown by example in Props/C13Dmig.lean), DOF are 0..9",
    "wtgrids / vecwrite with no grid at all raise IndexError (modelled, not part of the round trip)",
    "a real value is 'representable in the field' when its text in the writer's own format is not longer than the field: "
    "'%.9E' of a NEGATIVE double with a three-digit exponent is 17 characters — wtdmig falls back to '%.8E' (F64, repaired: "
    "dmig_field_fits needs no hypothesis on the values), wttabled1's default case goes through the same helper (F65, repaired "
    "by 328435d: tabled1_roundtrip_values needs no hypothesis on the values either); a user-supplied `form` is the caller's",
    "rddmig(expanded=True): every id referenced on the DMIG is used either as a scalar point (DOF 0) or as a grid (DOF "
    "1..6) throughout, form-9 column numbers are >= 1 and the header NCOL is an integer",
    "files read by several readers: the line after a card is not a continuation line of that card's syntax (a line of "
    "blanks after an 8-wide card IS one for _rdfixed); SET statements stand before BEGIN BULK; DMIG matrices in one file "
    "carry different names",
    "wtset: max_length >= 2 (max_length = 1 with a longer token does not terminate: _wrap_text_lines cuts pieces of length 0)",
    "USET tables handed to uset2bulk: grid ids distinct; bulk2uset puts every DOF in the b-set and sorts by id, uset2bulk "
    "does not write scalar points (documented: 'CORD2* and GRID cards')",
]
PARTIAL = (
    "user-supplied `form` strings of "
    "wtgrids / wttabled1 other than the defaults stay opaque tokens (reader returns nas_sscanf(token)); rdcord2cards is "
    "modelled up to the twelve numbers per card handed to n2p.build_coords and bulk2uset up to the labels (id, dof, "
    "nasset, cd id and type) and the written coordinates — the geometry of build_coords / addgrid is C14 (tied through the "
    "real build_coords and the round-trip oracle); written_file_ok ranges over the blocks of the modelled writers (wtdmig integer- and real-valued, wtgrids, wtcoordcards, wtcsuper, wtextrn, wtspoints, wttabled1 with the name TABLED1, wtset, $ comment lines) on the admissible inputs of their round-trip theorems; files with other junk lines (blank lines, foreign cards) keep the FileOK hypothesis, checked by the model on every generated file; "
    "the op2 path of rddmig "
    "and its dmig_names filter are oracle-only / not modelled"
)
MANIFEST = {
    "level_text": "Proof (Lean 4, kernel-checked, standard axioms only) about an exact, character-level model of the bulk-data "
    "writers and readers. Proved for all inputs: THRU compression is inverted by expansion and emits THRU exactly for "
    "maximal runs; wtnasints lays any list out from any start field within 72 columns; rdspoints(wtspoints(ids)) = ids, "
    "rdcsupers(wtcsuper(id, grids)) = {id: [id, 0, grids]} and rdextrn(wtextrn(ids, dof)) = the pairs, on physical lines; a "
    "written integer field is read back exactly; rdsets(wtset(id, ids, max_length)) = {id: ids} on physical lines for every "
    "non-empty list of non-negative ids (sorted or not, with repeats) and every max_length >= the longest token, for ANY "
    "way of breaking the tokens into lines, and for any number of SET statements between other lines of one file "
    "(sets_in_file); for every max_length >= 2 the round trip holds IF AND ONLY IF every token fits max_length "
    "(set_roundtrip_iff), with what rdsets returns instead: {} when the head token `SET n = ` is cut "
    "(set_header_split_fails, set_header_split1_fails), and when the head fits and an item token is cut, the ids of the items "
    "before the cut token followed by what _rd_set_line makes of its first max_length - 1 characters, or the ValueError of "
    "int() (set_item_cut_reads; never {id: ids}: set_item_cut_fails); rdtabled1(wttabled1(...)) for every number of points and both widths; DMIG: card structure, form 6 iff "
    "identical index lists and mirrored matrix, the reader's assignments are EXACTLY the non-zero terms, rddmig(wtdmig(X)) "
    "= X as one statement (sorted duplicate-free index of the non-null rows/columns, every cell = the term, nothing "
    "lost) for forms 1/2/6/9 and types 1-4 on the card values AND on the physical lines — for integer-valued and for "
    "REAL / COMPLEX valued terms; rddmig(expanded=True) and rddmig(square=True): the options only re-index (same cells on "
    "every card list), the expanded index is all six DOF of every referenced grid id / the single label of a scalar "
    "point, form-9 columns 1..NCOL, form 1 with square gets the union index zero-filled and NOT mirrored, every written "
    "term sits at its own (row id, column id) and all other positions are 0; VALUES: a written '{:w.pE}' / '{:w.pe}' / D / "
    "'{:w.pf}' field (C12's bit-exact float formatting) is read back by nas_sscanf as exactly the decimal it shows, "
    "within half a unit of its last digit of the value written (relative 0.5e-p for E formats, absolute 0.5e-p for f), "
    "and on physical lines tabled1_roundtrip_values (default format through _dmig_field: {:16.9E}, {:16.8E} for a negative value with a three-digit exponent; every finite value), grid_roundtrip_values ({:16.8f}), cord2_roundtrip_values "
    "({:16.8e}), dmig_roundtrip_values ({:16.9E} / D) state the values read; files with the cards of several readers: each "
    "reader returns exactly its own cards' content regardless of the other cards, comments and SET statements present "
    "(readers_independent, typed for rddmig / rdgrids / rdcord2cards / rdspoints / rdcsupers / rdextrn / rdtabled1); "
    "the hypothesis FileOK of these is derived, not assumed, for every file assembled in any order from the texts of wtdmig "
    "(integer- and real-valued), wtgrids, wtcoordcards, wtcsuper, wtextrn, wtspoints, wttabled1, wtset and $ comment lines on "
    "admissible inputs (written_file_ok, hence readers_independent_written / typed_readers_independent_written; assembly of "
    "any well-formed segments: file_ok_of_blocks); "
    "uset2bulk -> bulk2uset at the table level: per grid sorted by id (id, cd, type of cd), six DOF, b-set; scalar points "
    "are not written (label-for-label identity exactly for sorted all-grid b-set tables, cd != cp included); "
    "writer.vecwrite's length rule and broadcast semantics, wtgrids for every packaging, rdgrids(wtgrids), "
    "rdcord2cards(wtcoordcards). The writers' format strings, field widths, items per line, continuation markers and the "
    "reader's slicing constants are regenerated from the source by a translator; their side conditions are re-proved by "
    "decide and the model's text is proved to BE the rendering of the extracted templates. Tied to "
    "pyyeti/nastran/bulk.py and pyyeti/writer.py by character-for-character correspondence of every writer and "
    "value-for-value correspondence of every reader on written, independently rendered and interleaved texts. Right "
    "level: the layer is list/column/character arithmetic plus one rounding per real field, fully provable; coordinate "
    "geometry is C14.",
    "level_note": "Trusted: Lean kernel; propext, Classical.choice, Quot.sound; the Python harness and translator; CPython "
    "integer formatting; C12's float-format model (tied again here by an exact-text stream). Not proved (tied by "
    "correspondence / oracle only): user-supplied `form` strings other than "
    "the defaults (opaque tokens); n2p.build_coords / addgrid / mkcordcardinfo geometry behind rdcord2cards / bulk2uset / "
    "uset2bulk (C14); FileOK for files that hold lines other than written blocks and $ comments (blank lines, foreign cards: checked per generated file by the model's own "
    "decision procedure); op2 DMIG. Findings: a NEGATIVE value with a three-digit decimal exponent needs 17 characters in '{:16.9E}' — "
    "F64 wtdmig (repaired by 4411a34: _dmig_field falls back to '{:16.8E}'; modelled, translated, dmig_field_fits; regression "
    "guard in the oracle), F65 wttabled1 default pair format (repaired by 328435d: the default case is formatted value by "
    "value through the same _dmig_field; modelled (tabled1LinesDefault), translated (the default-form test, the helper call and "
    "the '{:s}{:s}' hand-over are extracted and re-proved), tabled1_roundtrip_values / tabled1_all_doubles hold for every "
    "finite value, tabled1_default_eq_before_fix / tabled1_default_differs_iff say where the text changed; exact-text stream "
    "with negative three-digit-exponent values; regression guard in the oracle).",
    "technique": "Lean 4 proof (induction over run/line/column/character structure; rational bounds through C12's eParts / "
    "rheDiv lemmas) + Python-ast translator of format strings and layout constants + exact-text differential "
    "correspondence with pyyeti.nastran.bulk / pyyeti.writer writers and readers",
}

NAMES_BAD = {"INF", "NAN", "INFINITY"}


def translate(ctx):
    """format strings / field widths / layout constants of the writers and the slicing constants of the card reader,
    regenerated from pyyeti/nastran/bulk.py (Python ast, no execution) into Generated/BulkFormats.lean"""
    from translate import c13_bulkformats as tr

    try:
        c = tr.run(ctx.repo, ctx.lean)
    except tr.Unparsable as e:
        raise TieBroken("bulk.py format strings: %s" % e)
    ctx.extra["bulk_formats"] = {"constants": c["C"], "strings": c["S"], "templates": sorted(c["T"])}
    return ["BulkFormats"]

# ---------------------------------------------------------------------------------------
# helpers


def _bulk():
    from pyyeti.nastran import bulk

    return bulk


def _hex(s):
    h = s.encode("ascii").hex()
    return h if h else "-"


def _unhex(h):
    if h == "-":
        return ""
    return bytes.fromhex(h).decode("ascii")


def _write(fn, *a, **k):
    f = io.StringIO()
    try:
        fn(f, *a, **k)
    except Exception as e:  # the kind is part of the behaviour
        return "error:" + type(e).__name__
    return f.getvalue()


def _read(fn, text, *a, **k):
    f = io.StringIO(text)
    try:
        return fn(f, *a, **k)
    except Exception as e:
        return "error:" + type(e).__name__


def _val_py(v):
    """canonical form of one list-mode field returned by rdcards"""
    if isinstance(v, (bool, np.bool_)):
        return ("?", repr(v))
    if isinstance(v, (int, np.integer)):
        return ("i", int(v))
    if isinstance(v, (float, np.floating)):
        return ("f", float(v))
    if isinstance(v, str):
        return ("b",) if v == "" else ("s", v)
    return ("?", repr(v))


def _val_model(tok):
    if tok == "b":
        return ("b",)
    if tok[0] == "i":
        return ("i", int(tok[1:]))
    if tok[0] == "f":
        m, e = tok[1:].split("e")
        return ("f", float(Fraction(int(m)) * Fraction(10) ** int(e)))
    if tok[0] == "s":
        return ("s", _unhex(tok[1:] or "-"))
    return ("?", tok)


def _num(v):
    """array-mode number of a canonical value (blank/str -> None)"""
    if v[0] in "if":
        return float(v[1])
    return None


def _card_model(c):
    c = c.strip("[]")
    return [_val_model(t) for t in c.split(",")] if c != "" else []


def _cards_model(rep):
    if rep in ("", "none"):
        return "none"
    return [_card_model(c) for c in rep.split(";")]


# ---------------------------------------------------------------------------------------
# generators


def _rand_id(rng, digits=None):
    d = digits or rng.choice([1, 1, 2, 3, 4, 5, 6, 7, 8])
    return rng.randint(10 ** (d - 1), 10 ** d - 1)


def _ids_from_runs(rng, runs, start=None, gap=None):
    """ascending id list with the given run lengths"""
    out = []
    v = start if start is not None else rng.randint(1, 3000)
    for r in runs:
        out += list(range(v, v + r))
        v += r + (gap if gap is not None else rng.choice([1, 1, 2, 3, 10, 100]))
    return out


def _gen_idlist(rng, maxlen=40):
    kind = rng.random()
    if kind < 0.5:
        runs = []
        n = rng.randint(0, maxlen)
        while sum(runs) < n:
            runs.append(rng.choice([1, 1, 1, 2, 2, 3, 4, 8, 9, 12]))
        ids = _ids_from_runs(rng, runs)[:n]
    elif kind < 0.7:
        n = rng.randint(0, maxlen)
        ids = sorted(rng.sample(range(1, 3 * maxlen + 2), min(n, 3 * maxlen)))
    elif kind < 0.85:
        n = rng.randint(1, maxlen)
        ids = [_rand_id(rng) for _ in range(n)]
    else:  # unsorted / repeated / descending
        n = rng.randint(1, maxlen)
        ids = [rng.randint(1, 12) for _ in range(n)]
    if ids and rng.random() < 0.1:
        top = 99999999
        k = rng.randint(1, min(4, len(ids)))
        ids = ids[:-k] + list(range(top - k + 1, top + 1))
    return ids


def _run_structures(L):
    """all compositions of L into run lengths (2^(L-1))"""
    for cuts in itertools.product((0, 1), repeat=L - 1):
        runs = []
        cur = 1
        for c in cuts:
            if c:
                runs.append(cur)
                cur = 1
            else:
                cur += 1
        runs.append(cur)
        yield runs


def _structured_idlists(ctx):
    """deterministic boundary families: every length x a set of run structures"""
    rng = ctx.rng
    out = []
    lmax_all = ctx.pick(8, 12)
    for L in range(1, 41):
        if L <= lmax_all:
            for runs in _run_structures(L):
                out.append(_ids_from_runs(rng, runs, start=rng.choice([1, 7, 95, 9996]), gap=2))
        else:
            out.append(list(range(5, 5 + L)))  # one run
            out.append(list(range(1, 2 * L, 2)))  # all singletons
            for _ in range(ctx.pick(3, 60)):
                runs = []
                while sum(runs) < L:
                    runs.append(rng.choice([1, 1, 2, 3, 7, 8, 9]))
                runs[-1] -= sum(runs) - L
                out.append(_ids_from_runs(rng, runs, gap=rng.choice([1, 2, 5])))
    return out


TAB_DEFAULT_FORM = "{:16.9E}{:16.9E}"
FORMS = [("{:8.2f}{:8.5f}", False), (TAB_DEFAULT_FORM, True), ("{:16.2f}{:16.5f}", True), ("{:8.1f}{:#8.0f}", False)]


def _gen_table(rng, n=None):
    npts = rng.randint(0, 13) if n is None else n
    t = [round(0.05 * i, 2) for i in range(npts)]
    d = [rng.choice([0.0, 1.0, -1.0, rng.uniform(-9, 9), rng.randint(-39, 39) / 4]) for _ in range(npts)]
    return t, d


def _tab_fields(form, t, d):
    out = []
    for a, b in zip(t, d):
        s = form.format(a, b)
        h = len(s) // 2
        out += [s[:h], s[h:]]
    return out


def _gen_labels(rng, n, scalar_share=0.3, sort=True):
    labs = set()
    while len(labs) < n:
        if rng.random() < scalar_share:
            labs.add((rng.randint(1, 60) * 100 + 1, 0))
        else:
            labs.add((rng.randint(1, 60) * 100, rng.randint(1, 6)))
    labs = list(labs)
    if sort:
        labs.sort(key=lambda p: 10 * p[0] + p[1])
    else:
        rng.shuffle(labs)
    return labs


def _gen_name(rng):
    while True:
        n = rng.randint(1, 8)
        s = rng.choice("ABCDEFGHKMPQRSTXYZ") + "".join(rng.choice("ABCDEKMXZ0123456789") for _ in range(n - 1))
        if s not in NAMES_BAD:
            return s


def _gen_dmig_int(rng, kind=None):
    """integer-valued DMIG input: dict with name, single, mtype, rowids, colids, m (re, im)"""
    kind = kind or rng.choice(["sym", "sym", "square", "rect", "form9", "f9-unequal", "sparse-sym", "hermitian"])
    mtype = rng.randint(1, 4)
    if kind == "hermitian":
        mtype = rng.choice([3, 4])
    cplx = mtype >= 3
    nr = rng.randint(2, 7) if kind == "hermitian" else rng.randint(1, 7)
    sortrows = rng.random() < 0.85

    def val(density=0.7):
        if rng.random() > density:
            return (0, 0)
        re = rng.randint(-9999, 9999)
        im = rng.randint(-9999, 9999) if cplx else 0
        if cplx and rng.random() < 0.2:
            re = 0
        return (re, im)

    rows = _gen_labels(rng, nr, sort=sortrows)
    single = False
    if kind in ("sym", "sparse-sym", "f9-unequal"):
        nc = nr
        cols = list(rows) if kind != "f9-unequal" else _gen_labels(rng, nc, sort=sortrows)
        dens = 0.35 if kind == "sparse-sym" else 0.8
        m = [[(0, 0)] * nc for _ in range(nr)]
        for i in range(nr):
            for j in range(i + 1):
                m[i][j] = m[j][i] = val(dens)
    elif kind == "hermitian":
        # complex, equal to its CONJUGATE transpose but not to its transpose: not symmetric, so form 1 (full storage)
        nc = nr
        cols = list(rows)
        m = [[(0, 0)] * nc for _ in range(nr)]
        for i in range(nr):
            m[i][i] = (rng.randint(-9999, 9999), 0)
            for j in range(i):
                re, im = rng.randint(-9999, 9999), rng.choice([-1, 1]) * rng.randint(1, 9999)
                m[i][j], m[j][i] = (re, im), (re, -im)
    elif kind == "square":
        nc = nr
        cols = list(rows) if rng.random() < 0.6 else _gen_labels(rng, nc, sort=sortrows)
        m = [[val() for _ in range(nc)] for _ in range(nr)]
    elif kind == "rect":
        nc = rng.choice([c for c in range(1, 8) if c != nr])
        cols = _gen_labels(rng, nc, sort=sortrows)
        m = [[val() for _ in range(nc)] for _ in range(nr)]
    else:
        nc = rng.randint(1, 6)
        cols = [(c, 0) for c in sorted(rng.sample(range(1, 12), nc))]
        if not sortrows:
            rng.shuffle(cols)
        single = True
        m = [[val() for _ in range(nc)] for _ in range(nr)]
    return {"name": _gen_name(rng), "single": single, "mtype": mtype, "rowids": rows, "colids": cols, "m": m,
            "kind": kind}


def _dmig_frame(d, values=None):
    import pandas as pd

    dt = {1: np.float32, 2: np.float64, 3: np.complex64, 4: np.complex128}[d["mtype"]]
    if values is None:
        a = np.array([[complex(re, im) for re, im in row] for row in d["m"]])
        a = a.astype(dt) if d["mtype"] >= 3 else a.real.astype(dt)
    else:
        a = np.asarray(values).astype(dt)
    ri = pd.MultiIndex.from_tuples(d["rowids"], names=["id", "dof"])
    if d["single"]:
        ci = [c for c, _ in d["colids"]]
    else:
        ci = pd.MultiIndex.from_tuples(d["colids"], names=["id", "dof"])
    return pd.DataFrame(a, index=ri, columns=ci)


def _dmig_req(d):
    nr, nc = len(d["rowids"]), len(d["colids"])
    flat = []
    for p in d["rowids"] + d["colids"]:
        flat += [p[0], p[1]]
    for row in d["m"]:
        for re, im in row:
            flat += [re, im]
    return "dmig %s %d %d %d %d %s" % (_hex(d["name"]), 1 if d["single"] else 0, d["mtype"], nr, nc,
                                       " ".join(str(v) for v in flat))


# ---- independent card renderer for reader variants ------------------------------------

WORDS = ["THRU", "thru", "ENDT", "ABC", "Grid", "X1", "SELOAD", "E", "D", "GRID", "1-", "E5", "'a'"]
REALS = ["1.7-4", "1.7E-4", "2.5", "-3.", ".5", "1.5D+3", "1.5d3", "-1.25+2", "0.0", "3.E2", "1.-3", "7.0e0", "-.5-1",
         "12.5", "1e5", "+4.5"]


def _gen_fields(rng, n, ints_only=False):
    out = []
    for _ in range(n):
        r = rng.random()
        if ints_only or r < 0.5:
            out.append(str(rng.choice([rng.randint(0, 9), _rand_id(rng, rng.randint(1, 7)), -rng.randint(1, 999)])))
        elif r < 0.7:
            out.append(rng.choice(REALS))
        elif r < 0.85:
            out.append(rng.choice(WORDS))
        else:
            out.append("")
    return out


def _case(rng, s):
    r = rng.random()
    return s.upper() if r < 0.6 else (s.lower() if r < 0.85 else s.capitalize())


def _render_card(rng, name, fields, style=None):
    """render (name, fields) in one of the three bulk-data syntaxes with random decorations"""
    style = style or rng.choice(["f8", "f8", "f16", "comma"])
    lines = []
    name = _case(rng, name)
    if style == "comma":
        groups = [fields[i:i + 8] for i in range(0, len(fields), 8)] or [[]]
        for k, g in enumerate(groups):
            lead = name if k == 0 else rng.choice(["", "+", " ", "+C%d" % k])
            toks = [lead] + [(" " * rng.randint(0, 2)) + f + (" " * rng.randint(0, 1)) for f in g]
            s = ",".join(toks)
            if k < len(groups) - 1 and len(g) == 8 and rng.random() < 0.4:
                s += ",+C%d" % (k + 1)
            if rng.random() < 0.15:
                s += "  $ trailing comment, with comma"
            lines.append(s)
        return lines
    w = 8 if style == "f8" else 16
    per = 8 if style == "f8" else 4
    groups = [fields[i:i + per] for i in range(0, len(fields), per)] or [[]]
    for k, g in enumerate(groups):
        if k == 0:
            lead = (name + ("*" if style == "f16" else "")).ljust(8)
        elif style == "f16":
            lead = rng.choice(["*", "*C%d" % k]).ljust(8)
        else:
            lead = rng.choice(["", "+", "+C%d" % k]).ljust(8)
        body = ""
        for f in g:
            f = f[:w]
            body += f.rjust(w) if rng.random() < 0.7 else (f.ljust(w) if rng.random() < 0.7 else f.center(w))
        s = lead + body
        if k < len(groups) - 1 and len(g) == per and rng.random() < 0.4:
            s = s.ljust(72) + ("*C%d" % (k + 1) if style == "f16" else "+C%d" % (k + 1))
        elif rng.random() < 0.3:
            s = s.rstrip()
        if rng.random() < 0.12:
            s = s.rstrip() + " $ comment"
        lines.append(s)
    return lines


def _decorate(rng, cards):
    """interleave cards (lists of lines) with comments, blank lines and foreign cards"""
    out = []
    if rng.random() < 0.3:
        out.append("$ header comment")
    for c in cards:
        r = rng.random()
        if r < 0.15:
            out.append("$ a comment")
        elif r < 0.22:
            out.append("")
        elif r < 0.32:
            out.append("PARAM   POST    -1")
        elif r < 0.37:
            out.append("        9999999 $ stray continuation")
        out += c
    if rng.random() < 0.2:
        out.append("ENDDATA")
    return "\n".join(out) + ("\n" if rng.random() < 0.85 else "")


# ---------------------------------------------------------------------------------------
# correspondence


class _Batch:
    """collects driver requests with the implementation's answer and a comparison function"""

    def __init__(self):
        self.items = []

    def add(self, stream, req, inp, impl, conv=None, nontrivial=True, branch=None):
        self.items.append((stream, req, inp, impl, conv, nontrivial, branch))

    def run(self, ctx):
        drv = ctx.driver("C13")
        reps = drv.ask([it[1] for it in self.items])
        for (stream, req, inp, impl, conv, nontriv, branch), rep in zip(self.items, reps):
            ctx.case((stream, req), nontrivial=nontriv, branch="stream:" + stream)
            if branch:
                for b in branch if isinstance(branch, (list, tuple)) else [branch]:
                    ctx.count(b)
            try:
                model = conv(rep) if conv else rep
            except Exception as e:  # unparsable reply = disagreement, not a crash
                model = "unparsable:%s:%s" % (type(e).__name__, rep[:80])
            if model != impl:
                ctx.disagree(stream, inp, impl if not isinstance(impl, str) else impl[:600],
                             model if not isinstance(model, str) else model[:600])


def _text_conv(trailing_newline=True):
    def conv(rep):
        if rep in ("bad-op", "error") or rep.startswith("error:"):
            return rep
        return _unhex(rep) + ("\n" if trailing_newline else "")

    return conv


def _writer_streams(ctx, B, texts):
    bulk = _bulk()
    rng = ctx.rng
    idlists = _structured_idlists(ctx) + [_gen_idlist(rng) for _ in range(ctx.pick(600, 6000))]
    ctx.extra["structured_idlists"] = "every run structure for lengths 1..%d, sampled structures for lengths up to 40" % ctx.pick(8, 12)

    # _find_sequence ------------------------------------------------------------------
    for ids in idlists[:: ctx.pick(6, 3)] + [[], [5]]:
        for start in {0, len(ids) - 1, len(ids), rng.randint(-1, len(ids) + 1), rng.randint(0, max(0, len(ids) - 1))}:
            if start < 0:
                continue
            try:
                impl = str(bulk._find_sequence(ids, start))
            except ValueError:
                impl = "value-error"
            B.add("find_sequence", "findseq %d %s" % (start, " ".join(map(str, ids))), {"seq": ids, "start": start},
                  impl, nontrivial=len(ids) > 1, branch="findseq:" + ("error" if impl == "value-error" else "ok"))

    # wtnasints: every start field x every length 0..40 ---------------------------------
    for start in range(1, 11):
        for n in range(0, 41):
            if not ctx.thorough and n > 26 and (n + start) % 3:
                continue
            ints = [rng.choice([_rand_id(rng), -_rand_id(rng, rng.randint(1, 7))]) for _ in range(n)]
            impl = _write(bulk.wtnasints, start, ints)
            first = 10 - start
            br = "nasints:" + ("short" if n < first else ("exact-fill" if (n - first) % 8 == 0 else "remainder"))
            B.add("wtnasints", "nasints %d %s" % (start, " ".join(map(str, ints))), {"start": start, "ints": ints},
                  impl, _text_conv(), nontrivial=n >= first, branch=br)

    # csuper / extrn / spoints / set ------------------------------------------------------
    for k, ids in enumerate(idlists):
        which = k % 4
        if which == 0:
            sid = rng.randint(1, 9999)
            impl = _write(bulk.wtcsuper, sid, ids)
            B.add("wtcsuper", "csuper %d %s" % (sid, " ".join(map(str, ids))), {"superid": sid, "grids": ids}, impl,
                  _text_conv(), nontrivial=len(ids) > 6,
                  branch="csuper:" + ("one-line" if len(ids) < 6 else ("exact-fill" if (len(ids) - 6) % 8 == 0 else "remainder")))
            if isinstance(impl, str) and not impl.startswith("error") and k % 8 == 0:
                texts.append(("csuper", impl))
        elif which == 1:
            dof = [rng.choice([0, 123456, 123, 3, 246]) for _ in ids]
            flat = [v for p in zip(ids, dof) for v in p]
            impl = _write(bulk.wtextrn, ids, dof)
            B.add("wtextrn", "extrn " + " ".join(map(str, flat)), {"ids": ids, "dof": dof}, impl, _text_conv(),
                  nontrivial=len(ids) > 4,
                  branch="extrn:" + ("one-line" if len(ids) < 4 else ("exact-fill" if (len(ids) - 4) % 4 == 0 else "remainder")))
            if isinstance(impl, str) and not impl.startswith("error") and k % 8 == 1:
                texts.append(("extrn", impl))
        elif which == 2:
            impl = _write(bulk.wtspoints, ids)
            if len(ids) == 0:
                B.add("wtspoints", "spoints", {"spoints": ids}, impl, lambda rep: "error:ValueError" if rep == "-" else rep,
                      nontrivial=False, branch="spoints:empty")
                continue
            thru = "THRU" in impl
            B.add("wtspoints", "spoints " + " ".join(map(str, ids)), {"spoints": ids}, impl, _text_conv(),
                  nontrivial=thru or len(ids) > 8, branch=["spoints:thru"] if thru else ["spoints:singles"])
            if k % 8 == 2:
                texts.append(("spoint", impl))
        else:
            sid = rng.randint(1, 99999)
            mx = rng.choice([72, 72, 72, 40, 30, 24, 80, 12, 7, 5, 3])
            if len(ids) == 0:
                continue
            impl = _write(bulk.wtset, sid, ids, mx)
            nl = isinstance(impl, str) and "\n" in impl
            B.add("wtset", "set %d %d %s" % (sid, mx, " ".join(map(str, ids))), {"setid": sid, "ids": ids, "max_length": mx},
                  impl, _text_conv(False), nontrivial=nl or "THRU" in impl,
                  branch=["set:wrapped" if nl else "set:one-line"] + (["set:token-split"] if mx < 24 else []))
            if mx >= 24 and k % 4 == 3:
                texts.append(("set", impl))

    # _wrap_text_lines directly -----------------------------------------------------------
    for _ in range(ctx.pick(500, 5000)):
        toks = ["".join(rng.choice("abcdefgh, 0123") for _ in range(rng.choice([0, 1, 2, 3, 5, 8, 13, 21])))
                for _ in range(rng.randint(0, 12))]
        mx = rng.randint(2, 30)
        try:
            impl = "\n".join(bulk._wrap_text_lines(list(toks), mx, ""))
            nlines = impl.count("\n") + 1
        except Exception as e:
            impl, nlines = "error:" + type(e).__name__, 0
        # an empty result list and a single empty line both print as ""
        B.add("wrap_text_lines", "wrap %d %s" % (mx, " ".join(_hex(t) for t in toks)), {"tokens": toks, "max_length": mx},
              impl, _text_conv(False), nontrivial=nlines > 1,
              branch="wrap:" + ("split" if any(len(t) > mx for t in toks) else "nosplit"))

    # wttabled1 ---------------------------------------------------------------------------
    for npts in list(range(0, 14)) * ctx.pick(2, 12):
        form, wide = FORMS[rng.randrange(len(FORMS))]
        t, d = _gen_table(rng, npts)
        tid = rng.randint(1, 99999999)
        name = rng.choice(["TABLED1", "TABLED1", "TABLEM1", "TABDMP1"])
        per = 2 if wide else 4
        br = ["tabled1:" + ("wide" if wide else "small"),
              "tabled1:" + ("shorter-than-line" if npts < per else ("exact-fill" if npts % per == 0 else "remainder"))]
        if form == TAB_DEFAULT_FORM:
            # the default case: the MODEL formats the values (`tabled1LinesDefault`: every value through `_dmig_field`, fix
            # 328435d of finding F65) - any double, in particular negative values with a three-digit exponent (17 characters
            # in '{:16.9E}': the fallback field)
            if rng.random() < 0.7:
                def dbl():  # inside the range every reader turns into the same double (the texts are read back below)
                    x = _gen_double(rng)
                    while x != 0 and not 1e-290 < abs(x) < 1e290:
                        x = _gen_double(rng)
                    return x
                t = [dbl() if rng.random() < 0.5 else x for x in t]
                d = [-rng.uniform(1.0, 9.999999) * 10.0 ** rng.choice([rng.randint(-290, -100), rng.randint(100, 290)])
                     if rng.random() < 0.4 else dbl() for _ in d]
            nfb = sum(1 for x in t + d if len("{:16.9E}".format(x)) > 16)
            br += ["tabled1:default-form"] + (["tabled1:default-form:fallback-field"] if nfb else [])
            impl = _write(bulk.wttabled1, tid, t, d, None, form, name) if rng.random() < 0.5 else \
                _write(bulk.wttabled1, tid, t, d, tablestr=name)
            req = "tabled1d %s %d %s" % (_hex(name), tid, " ".join("%d %d" % (_bits(a), _bits(b)) for a, b in zip(t, d)))
        else:
            impl = _write(bulk.wttabled1, tid, t, d, None, form, name)
            fields = _tab_fields(form, t, d)
            req = "tabled1 %d %s %d %s" % (1 if wide else 0, _hex(name), tid, " ".join(_hex(x) for x in fields))
        B.add("wttabled1", req,
              {"tid": tid, "t": t, "d": d, "form": form, "tablestr": name}, impl, _text_conv(), nontrivial=npts >= 1, branch=br)
        if isinstance(impl, str) and not impl.startswith("error") and name == "TABLED1":
            texts.append(("tabled1", impl))

    # wtdmig ------------------------------------------------------------------------------
    for _ in range(ctx.pick(400, 4000)):
        d = _gen_dmig_int(rng)
        impl = _write(bulk.wtdmig, {d["name"].lower() if rng.random() < 0.3 else d["name"]: _dmig_frame(d)})
        form = impl[24:32].strip() if isinstance(impl, str) and len(impl) > 32 else "?"
        B.add("wtdmig", _dmig_req(d), {k: d[k] for k in ("name", "single", "mtype", "rowids", "colids", "m")}, impl,
              _text_conv(), nontrivial=True, branch=["dmig:form" + form, "dmig:type%d" % d["mtype"], "dmig:kind-" + d["kind"]])
        if isinstance(impl, str) and not impl.startswith("error"):
            texts.append(("dmig", impl))


def _variant_texts(ctx, texts):
    """independently rendered files for every reader"""
    rng = ctx.rng
    out = [
        ("set", "SET 8 = 1, 2,\n"),  # EOF inside a set
        ("set", "SET 9 = 1, x\n"),
        ("set", "set 10 = 5 thru 9,\n\n  11\n"),
        ("set", "SET 11 = 1, 2,,\n3\n"),  # several trailing commas: rstrip(",") removes them all
        ("set", "SET 12 = 4 THRU 6,,, \n 9,\n10\n"),
        # EXCEPT is not supported by the reader: after a THRU it is silently ignored (re.search finds the THRU and the rest
        # of the item is dropped: the excepted ids stay in the set), on its own it is a ValueError
        ("set", "SET 13 = 1 THRU 10 EXCEPT 5, 20\n"), ("set", "SET 14 = 1, EXCEPT 3\n"),
        ("set", "SET 15 = 1 THRU 10 EXCEPT 3 THRU 5\n"), ("set", "SET 16 = ALL\n"),
        ("extrn", "EXTRN,3,123456,11\n"),  # odd number of values
        ("extrn", "EXTRN          3  123456      11  123456 $ c\n"),
        ("spoint", "SPOINT*              980            thru            1004\n"),
        ("csuper", "CSUPER,101,0,3,11,19,27,1995001,1995002\n,1995003,thru,1995010  $ comment\n"),
        ("tabled1", "TABLED1,1\n,0.,1.,1.,2.,ENDT\n"),
    ]
    n = ctx.pick(250, 2500)
    for _ in range(n):
        # generic cards for rdcards
        name = rng.choice(["DTI", "SPOINT", "CSUPER", "XYZ", "TABLED1", "EXTRN"])
        cards = []
        for _ in range(rng.randint(1, 4)):
            nm = name if rng.random() < 0.8 else rng.choice(["DTIX", "OTHER", "SPOINT"])
            cards.append(_render_card(rng, nm, _gen_fields(rng, rng.choice([0, 1, 2, 3, 7, 8, 9, 15, 16, 17, 24, 25]))))
        out.append(("generic:" + name.lower(), _decorate(rng, cards)))
    for _ in range(n):
        kind = rng.choice(["spoint", "csuper", "extrn", "tabled1", "set"])
        if kind == "spoint":
            cards = []
            for _ in range(rng.randint(1, 4)):
                if rng.random() < 0.4:
                    a = rng.randint(1, 5000)
                    cards.append(_render_card(rng, "SPOINT", [str(a), _case(rng, "thru"), str(a + rng.randint(0, 30))]))
                else:
                    cards.append(_render_card(rng, "SPOINT", [str(_rand_id(rng, rng.randint(1, 7))) for _ in range(rng.randint(1, 20))]))
            out.append(("spoint", _decorate(rng, cards)))
        elif kind == "csuper":
            cards = []
            for _ in range(rng.randint(1, 3)):
                f = [str(rng.randint(1, 40)), "0"] + [str(_rand_id(rng, rng.randint(1, 7))) for _ in range(rng.randint(0, 22))]
                if rng.random() < 0.4:
                    f += [str(1000), "THRU", str(1010)]
                if rng.random() < 0.2:
                    f.insert(rng.randint(2, len(f)), "")
                cards.append(_render_card(rng, "CSUPER", f))
            out.append(("csuper", _decorate(rng, cards)))
        elif kind == "extrn":
            cards = []
            for _ in range(rng.randint(1, 3)):
                f = []
                for _ in range(rng.randint(1, 14)):
                    f += [str(_rand_id(rng, rng.randint(1, 7))), rng.choice(["0", "123456", "123", "", "3"])]
                if rng.random() < 0.1:
                    f.append(str(rng.randint(1, 9)))  # odd count
                cards.append(_render_card(rng, "EXTRN", f))
            out.append(("extrn", _decorate(rng, cards)))
        elif kind == "tabled1":
            cards = []
            for _ in range(rng.randint(1, 2)):
                npts = rng.randint(0, 9)
                f = [str(rng.randint(1, 9999))] + [""] * 7
                for i in range(npts):
                    f += [rng.choice(["%.2f" % (0.1 * i), str(i) + ".", "%d.-1" % i]), rng.choice(REALS)]
                if rng.random() < 0.05:
                    f.append("3.5")  # odd number of values
                f.append(_case(rng, "ENDT"))
                cards.append(_render_card(rng, "TABLED1", f))
            out.append(("tabled1", _decorate(rng, cards)))
        else:
            lines = []
            for _ in range(rng.randint(1, 3)):
                sid = rng.randint(1, 999)
                items = []
                for _ in range(rng.randint(1, 14)):
                    if rng.random() < 0.35:
                        a = rng.randint(1, 900)
                        items.append("%d%s%s%s%d" % (a, " " * rng.randint(1, 2), _case(rng, "thru"), " " * rng.randint(1, 2), a + rng.randint(0, 9)))
                    else:
                        items.append(" " * rng.randint(0, 2) + str(rng.randint(1, 99999)))
                s = " " * rng.randint(0, 2) + _case(rng, "set") + " " * rng.randint(0, 2) + str(sid) + " " * rng.randint(0, 2) + "=" + " " * rng.randint(0, 2)
                cur = s
                for k, it in enumerate(items):
                    cur += it + ("," if k < len(items) - 1 else "")
                    if k < len(items) - 1 and rng.random() < 0.25:
                        if rng.random() < 0.15:
                            cur += "," * rng.randint(1, 2)  # extra trailing commas are stripped by the reader
                        lines.append(cur + " " * rng.randint(0, 2))
                        if rng.random() < 0.15:
                            lines.append("")
                        cur = " " * rng.randint(0, 3)
                lines.append(cur)
                if rng.random() < 0.2:
                    lines.append("DISP = ALL")
            if rng.random() < 0.3:
                lines.append(_case(rng, "begin bulk"))
                lines.append("SET 7 = 1, 2")
            if rng.random() < 0.04:
                lines.append("SET 8 = 1, 2,")  # EOF inside a set
            out.append(("set", "\n".join(lines) + "\n"))
    return out


def _reader_streams(ctx, B, texts):
    bulk = _bulk()
    rng = ctx.rng
    allt = list(texts) + _variant_texts(ctx, texts)
    # written DMIG texts re-rendered in comma form (independent free-format variant)
    for kind, text in list(texts):
        if kind == "dmig" and rng.random() < 0.5:
            allt.append(("dmig", _dmig_to_comma(text)))
        if kind in ("spoint", "csuper", "extrn") and rng.random() < 0.5:
            allt.append((kind, _fixed8_to_comma(text)))

    def cards_conv(rep):
        return _cards_model(rep)

    for kind, text in allt:
        th = _hex(text)
        gen = kind.startswith("generic:")
        name = kind.split(":")[1] if gen else kind
        deco = ["reader:" + ("comma" if "," in text else "fixed")]
        if "*" in text:
            deco.append("reader:fixed16")
        if "$" in text:
            deco.append("reader:comment")
        # rdcards in list mode on every text
        if name != "set":
            r = _read(bulk.rdcards, text, name, return_var="list")
            impl = "none" if r is None else (r if isinstance(r, str) else [[_val_py(v) for v in c] for c in r])
            B.add("rdcards", "rdcards %s %s" % (_hex(name), th), {"name": name, "text": text}, impl,
                  cards_conv, nontrivial=text.count("\n") > 1, branch=deco)
        if gen:
            continue
        if kind == "spoint":
            r = _read(bulk.rdspoints, text)
            impl = "error" if isinstance(r, str) else [int(v) for v in r]
            B.add("rdspoints", "rdspoints " + th, {"text": text}, impl,
                  lambda rep: rep if rep == "error" else [int(v) for v in rep.split()], branch="rdspoints")
        elif kind == "csuper":
            r = _read(bulk.rdcsupers, text)
            if isinstance(r, str) or r is None:
                impl = r or []
            else:
                impl = [(("i", int(k)), [int(v) for v in vals]) for k, vals in r.items()]

            def conv(rep):
                if rep == "":
                    return []
                out = []
                for item in rep.split(";"):
                    k, c = item.split("=")
                    vals = _card_model(c)
                    out.append((_val_model(k), [int(v[1]) if v[0] in "if" else -1 for v in vals]))
                return out

            B.add("rdcsupers", "rdcsupers " + th, {"text": text}, impl, conv, branch="rdcsupers")
        elif kind == "extrn":
            r = _read(bulk.rdextrn, text, False)
            impl = "error" if isinstance(r, str) else [[int(a), int(b)] for a, b in r.tolist()]

            def conv(rep):
                if rep in ("error",):
                    return rep
                if rep == "":
                    return "error"  # rdcards returned None -> AttributeError in rdextrn
                out = []
                for pr in rep.split(","):
                    a, b = [_val_model(t) for t in pr.split("/")]
                    out.append([int(_num(a) or 0), int(_num(b) or 0)])
                return out

            B.add("rdextrn", "rdextrn " + th, {"text": text}, impl, conv,
                  branch="rdextrn:" + ("error" if impl == "error" else "ok"))
        elif kind == "tabled1":
            r = _read(bulk.rdtabled1, text)
            if isinstance(r, str):
                impl = "error"
            else:
                impl = [(float(k), [[float(a), float(b)] for a, b in v.tolist()]) for k, v in r.items()]

            def conv(rep):
                if rep == "error":
                    return rep
                if rep == "":
                    return "error"  # no cards: rdcards returns None -> TypeError in rdtabled1
                out = []
                for item in rep.split(";"):
                    k, c = item.split("=")
                    prs = []
                    if c:
                        for pr in c.split(","):
                            a, b = [_val_model(t) for t in pr.split("/")]
                            prs.append([_num(a) or 0.0, _num(b) or 0.0])
                    out.append((_num(_val_model(k)) or 0.0, prs))
                return out

            B.add("rdtabled1", "rdtabled1 %s %s" % (_hex("tabled1"), th), {"text": text}, impl, conv,
                  branch="rdtabled1:" + ("error" if impl == "error" else "ok"))
        elif kind == "set":
            r = _read(bulk.rdsets, text)
            impl = "error" if isinstance(r, str) else [(int(k), [int(x) for x in v]) for k, v in r.items()]

            def conv(rep):
                if rep == "error":
                    return rep
                if rep == "":
                    return []
                out = []
                for item in rep.split(";"):
                    k, c = item.split("=")
                    out.append((_val_model(k)[1], [int(x) for x in c.split()]))
                return out

            B.add("rdsets", "rdsets " + th, {"text": text}, impl, conv, nontrivial="\n" in text.strip(),
                  branch="rdsets:" + ("error" if impl == "error" else "ok"))
        elif kind == "dmig":
            r = _read(bulk.rddmig, text)
            impl = "error" if isinstance(r, str) else [_frame_canon(k, v) for k, v in r.items()]
            B.add("rddmig", "rddmig " + th, {"text": text}, impl, _dmig_conv, branch="rddmig")
            # the re-indexing options: expanded (all six DOF of every grid id; form 9: columns 1..NCOL),
            # square (form 1: union index on both axes, zero filled, not mirrored)
            forms = {ln[24:32].strip() for ln in text.split("\n") if ln.upper().startswith("DMIG ")}
            forms |= {ln.split(",")[3].strip() for ln in text.split("\n") if ln.upper().startswith("DMIG,") and ln.count(",") >= 3}
            for e, q in ((1, 0), (0, 1), (1, 1)):
                r = _read(bulk.rddmig, text, expanded=bool(e), square=bool(q))
                impl = "error" if isinstance(r, str) else [_frame_canon(k, v) for k, v in r.items()]
                br = ["rddmigx:" + ("expanded" if e else "") + ("square" if q else "")]
                br += ["rddmigx:form%s-%s" % (f, "expanded" if e else "square") for f in forms if f in ("1", "2", "6", "9")]
                B.add("rddmig-options", "rddmigx %d %d %s" % (e, q, th), {"text": text, "expanded": bool(e), "square": bool(q)},
                      impl, _dmig_conv, branch=br)


def _fixed8_to_comma(text):
    out = []
    for line in text.split("\n"):
        if not line:
            continue
        fs = [line[i:i + 8].strip() for i in range(0, len(line), 8)]
        out.append(",".join(fs))
    return "\n".join(out) + "\n"


def _dmig_to_comma(text):
    out = []
    for line in text.split("\n"):
        if not line:
            continue
        if line.startswith("DMIG    "):
            fs = [line[i:i + 8].strip() for i in range(0, len(line), 8)]
            out.append(",".join(fs))
        else:
            fs = [line[:8].strip().rstrip("*")] + [line[i:i + 16].strip() for i in range(8, len(line), 16)]
            out.append(",".join(fs))
    # join the row lines of one column into comma continuations is not needed: every `*` line
    # became a line starting with "," which is a comma continuation of the DMIG column card
    return "\n".join(out) + "\n"


def _frame_canon(name, df):
    rows = [(int(a), int(b)) for a, b in df.index.tolist()]
    if df.columns.nlevels == 2:
        cols = [(int(a), int(b)) for a, b in df.columns.tolist()]
    else:
        cols = [(int(a), 0) for a in df.columns.tolist()]
    vals = [[(float(complex(v).real), float(complex(v).imag)) for v in row] for row in df.values.tolist()]
    return (str(name), rows, cols, vals)


def _dmig_conv(rep):
    """driver reply name|form|mtype|rows|cols|frame (the frame is assembled by the Lean model)"""
    if rep == "error":
        return rep
    if rep == "":
        return []
    out = []
    for item in rep.split(";"):
        nm, form, mtype, rows, cols, frame = item.split("|")
        rows = [tuple(int(x) for x in r.split(".")) for r in rows.split()]
        cols = [tuple(int(x) for x in r.split(".")) for r in cols.split()]
        mat = []
        for line in (frame.split("/") if rows else []):
            row = []
            for e in line.split():
                x, y = e.split("@")
                row.append((_num(_val_model(x)) or 0.0, _num(_val_model(y)) or 0.0))
            mat.append(row)
        out.append((_unhex(nm), rows, cols, mat))
    return out


# ---------------------------------------------------------------------------------------
# vecwrite / GRID / CORD2x / USET streams (Model/BulkGrid.lean)


def _arg_req(v, opt=False):
    """driver encoding of one vecwrite argument: scalar or list of ints ('' -> '-')"""
    enc = (lambda x: "-" if x == "" else str(int(x))) if opt else (lambda x: str(int(x)))
    if isinstance(v, (list, tuple, np.ndarray)):
        return "v %d %s" % (len(v), " ".join(enc(x) for x in v)) if len(v) else "v 0"
    return "s " + enc(v)


def _pack(rng, n, lo, hi, opt=False, bad=0.0):
    """one documented packaging of a per-grid quantity: scalar, length-1 vector, length-N vector
    (rarely a vector of another length: the writer must refuse it)"""
    u = rng.random()
    if opt and u < 0.25:
        return ""
    if u < 0.45:
        return rng.randint(lo, hi)
    if u < 0.7:
        return [rng.randint(lo, hi)]
    m = n
    if rng.random() < bad:
        m = rng.choice([k for k in (0, 2, 3, n + 1, n + 2) if k != n and k != 1])
    v = [rng.randint(lo, hi) for _ in range(m)]
    if opt and v and rng.random() < 0.2:
        v[rng.randrange(len(v))] = ""
    return v


GRID_FORMS = ["{:16.8f}", "{:8.2f}", "{:8.3f}", "{:16.6f}", "{:16.8e}", "{:16.9E}", "{:8.1f}"]


def _gen_grid_case(rng, bad=0.12):
    n = rng.choice([1, 1, 2, 3, 4, 5, 6, 9])
    form = rng.choice(GRID_FORMS)
    lim = {"{:8.2f}": 9999.0, "{:8.3f}": 999.0, "{:8.1f}": 99999.0}.get(form, 9.9e5)
    m = n if rng.random() < 0.55 else 1
    if rng.random() < bad:
        m = rng.choice([k for k in (2, 3, n + 1) if k != n])
    xyz = [[round(rng.uniform(-lim, lim), 3) * rng.choice([1, 1, 1e-3, 0]) for _ in range(3)] for _ in range(m)]
    return {"ids": sorted(rng.sample(range(1, 99999999), n)), "cp": _pack(rng, n, 0, 9999, bad=bad), "xyz": xyz,
            "cd": _pack(rng, n, 0, 9999, bad=bad), "form": form, "ps": _pack(rng, n, 1, 123456, opt=True, bad=bad),
            "seid": _pack(rng, n, 1, 99, opt=True, bad=bad)}


def _grid_req(c):
    form = c["form"]
    wide = len(form.format(1.0)) == 16
    toks = []
    for row in c["xyz"]:
        toks += [_hex(form.format(v)) for v in row]
    return "grids %d I %s C %s X %d %s D %s P %s S %s" % (
        1 if wide else 0, _arg_req(c["ids"]), _arg_req(c["cp"]), len(c["xyz"]), " ".join(toks), _arg_req(c["cd"]),
        _arg_req(c["ps"], True), _arg_req(c["seid"], True))


def _grid_write(c):
    return _write(_bulk().wtgrids, c["ids"], c["cp"], np.array(c["xyz"], dtype=float), c["cd"], c["ps"], c["seid"], c["form"])


def _cord_tokens(name, cid, coord):
    """what wtcoordcards prints for one system: noise floor 1e-15 of the largest value, '{:16.8e}'"""
    abc = np.array(coord[1:], dtype=float)
    abc[abs(abc) < abs(abc).max() * 1e-15] = 0.0
    return "%s %d %d %s" % (_hex(name), cid, int(coord[0][2]), " ".join(_hex("{:16.8e}".format(v)) for v in abc.ravel()))


def _gen_cord_ci(rng):
    ci = {}
    for _ in range(rng.randint(1, 3)):
        cid = rng.randint(1, 99999999)
        typ = rng.randint(1, 3)
        if rng.random() < 0.5:
            abc = [[_mixed(rng, -6, 6, 0.2) for _ in range(3)] for _ in range(3)]
        else:
            abc = [[round(rng.uniform(-500, 500), 2) for _ in range(3)] for _ in range(3)]
        ci[cid] = [{1: "CORD2R", 2: "CORD2C", 3: "CORD2S"}[typ],
                   np.vstack([[cid, typ, rng.choice([0, 0, 5, 12345678])], np.array(abc, dtype=float)])]
    return ci


def _uset_parts(uset):
    """the quantities uset2bulk takes from a USET table (documented layout: row dof 1 = location,
    row dof 2 = [cd id, type, 0])"""
    from pyyeti.nastran import n2p

    ci = n2p.mkcordcardinfo(uset)
    dof = uset.index.get_level_values("dof")
    ids = [int(i) for i in uset.index.get_level_values("id")[dof == 1]]
    xyz = uset.loc[dof == 1, "x":"z"].values
    cd = [int(v) for v in uset.loc[dof == 2, "x"].values]
    return ci, ids, xyz, cd


def _grid_streams(ctx, B, texts):
    bulk = _bulk()
    from pyyeti import writer

    rng = ctx.rng
    # vecwrite: argument packaging -----------------------------------------------------------
    for _ in range(ctx.pick(400, 4000)):
        n = rng.choice([0, 1, 2, 3, 5])
        args = []
        for _ in range(rng.randint(1, 5)):
            u = rng.random()
            if u < 0.3:
                a = rng.randint(-99, 999)
            elif u < 0.5:
                a = [rng.randint(-99, 999)]
            elif u < 0.9:
                a = [rng.randint(-99, 999) for _ in range(n)]
            else:
                a = [rng.randint(-99, 999) for _ in range(rng.choice([0, 2, 3, 4]))]
            if isinstance(a, list) and rng.random() < 0.3:
                a = np.array(a, dtype=np.int64) if rng.random() < 0.5 else tuple(a)
            args.append(a)
        impl = _write(writer.vecwrite, " ".join(["{}"] * len(args)) + "\n", *args)
        kind = "value-error" if impl == "error:ValueError" else ("index-error" if impl == "error:IndexError" else "ok")
        lens = sorted({len(a) for a in args if not isinstance(a, int)})
        B.add("vecwrite", "vecw " + " ".join(_arg_req(a) for a in args),
              {"args": [a.tolist() if isinstance(a, np.ndarray) else (list(a) if isinstance(a, tuple) else a) for a in args]},
              impl, _text_conv(), nontrivial=len(lens) > 0,
              branch=["vecw:" + kind] + (["vecw:len1-after-lenN"] if _len1_after_lenN(args) else []))

    # wtgrids: every packaging --------------------------------------------------------------
    for k in range(ctx.pick(500, 5000)):
        c = _gen_grid_case(rng)
        impl = _grid_write(c)
        wide = len(c["form"].format(1.0)) == 16
        short = c["ps"] == "" and c["seid"] == ""
        br = ["grids:%s-%d" % ("short" if short else "long", 16 if wide else 8)]
        if impl.startswith("error"):
            br.append("grids:" + impl.split(":")[1])
        else:
            n = len(c["ids"])
            if n > 1 and len(c["xyz"]) == 1:
                br.append("grids:one-row-xyz")
            if n > 1 and any(isinstance(c[q], list) and len(c[q]) == 1 for q in ("cp", "cd", "ps", "seid")):
                br.append("grids:len1-vector")
            if k % 3 == 0:
                texts.append(("grid", impl))
        B.add("wtgrids", _grid_req(c), c, impl, _text_conv(), nontrivial=True, branch=br)
    # the signature defaults: wtgrids(f, ids) --------------------------------------------------
    for n in (1, 2, 5):
        ids = list(range(11, 11 + n))
        c = {"ids": ids, "cp": 0, "xyz": [[0.0, 0.0, 0.0]], "cd": 0, "form": "{:16.8f}", "ps": "", "seid": ""}
        B.add("wtgrids", _grid_req(c), c, _write(bulk.wtgrids, ids), _text_conv(), branch="grids:defaults")

    # wtcoordcards --------------------------------------------------------------------------
    for k in range(ctx.pick(150, 1500)):
        ci = _gen_cord_ci(rng)
        impl = _write(bulk.wtcoordcards, ci)
        req = "cords %d %s" % (len(ci), " ".join(_cord_tokens(v[0], cid, v[1]) for cid, v in ci.items()))
        B.add("wtcoordcards", req, {"systems": [(cid, v[0], v[1].tolist()) for cid, v in ci.items()]}, impl, _text_conv(),
              branch="cord:written")
        if not impl.startswith("error") and k % 2 == 0:
            texts.append(("cord2", impl))

    # uset2bulk -----------------------------------------------------------------------------
    for k in range(ctx.pick(40, 400)):
        case = {"seed": rng.randint(0, 2 ** 31), "ncs": rng.randint(0 if k % 3 == 0 else 1, 3), "ngrids": rng.randint(1, 5),
                "mixed": k % 2 == 0}
        if k % 3 == 0:
            case["ncs"] = 0
        try:
            uset = _gen_uset(case)[0]
            ci, ids, xyz, cd = _uset_parts(uset)
        except Exception as e:
            ctx.skip("uset-generator:" + type(e).__name__)
            continue
        impl = _write(bulk.uset2bulk, uset)
        toks = []
        for row in xyz:
            toks += [_hex("{:16.8f}".format(v)) for v in row]
        req = "uset %d %s I %s X %d %s D %s" % (
            len(ci), " ".join(_cord_tokens(v[0], cid, v[1]) for cid, v in ci.items()), _arg_req(ids), len(xyz), " ".join(toks),
            _arg_req(cd))
        B.add("uset2bulk", req, case, impl, _text_conv(), branch="uset:" + ("with-coords" if ci else "no-coords"))
        if not impl.startswith("error"):
            texts.append(("uset", impl))


def _len1_after_lenN(args):
    seen = False
    for a in args:
        if isinstance(a, int):
            continue
        if len(a) > 1:
            seen = True
        elif len(a) == 1 and seen:
            return True
    return False


def _grid_variant_texts(ctx):
    """independently rendered GRID / CORD2x files (fixed 8, fixed 16, comma; blank fields, words, lower
    case, comments, foreign cards, cards of different length)"""
    rng = ctx.rng
    out = [("grid", "GRID\n"), ("grid", "GRID    \nGRID           1\n"), ("grid", "$ nothing here\nCORD2R  1\n"),
           ("grid", "grid,7,,1.,2.,3.\nGRID*                  8               0              1.              2.\n*                     3.\n"),
           ("cord2", "CORD2R,1,0,0.,0.,0.,0.,0.,1.\n,1.,0.,0.\n"), ("cord2", "cord2c  2       0       0.      0.      0.      0.      0.      1.\n        1.      0.      0.\n"),
           ("cord2", "CORD2R,1,0,0.,0.,0.,0.,0.,1.\n,1.,0.\n"), ("cord2", "CORD2RX 1\nCORD2R1 2\nCORD2X  3\n"),
           ("cord2", "CORD2S,3,,0.,0.,0.,0.,0.,1.\n,1.,0.,0.,\n"), ("cord2", "CORD2S,3,,0.,0.,0.,0.,0.,1.\n,1.,0.,0.,0.\n"),
           ("cord2", "CORD2S,3,,0.,0.,0.,0.,0.,1.\n,1.,0.,THRU\n")]
    for _ in range(ctx.pick(200, 2000)):
        cards = []
        for _ in range(rng.randint(1, 4)):
            nf = rng.choice([0, 1, 3, 5, 6, 6, 7, 8, 8, 9, 10])
            f = []
            for j in range(nf):
                if j in (2, 3, 4):
                    f.append(rng.choice(REALS + [""]))
                else:
                    f.append(rng.choice([str(_rand_id(rng, rng.randint(1, 7))), "0", "", "123456", rng.choice(WORDS)]))
            nm = "GRID" if rng.random() < 0.85 else rng.choice(["GRIDX", "CORD2R", "SPOINT"])
            cards.append(_render_card(rng, nm, f))
        out.append(("grid", _decorate(rng, cards)))
    for _ in range(ctx.pick(200, 2000)):
        cards = []
        for _ in range(rng.randint(1, 3)):
            f = [str(_rand_id(rng, rng.randint(1, 7))), rng.choice(["0", "", "5"])] + [rng.choice(REALS) for _ in range(9)]
            u = rng.random()
            if u < 0.08:
                f = f[:-1]
            elif u < 0.16:
                f.append(rng.choice(["", "0", "0.", "7"]))
            elif u < 0.2:
                f[rng.randint(2, 10)] = rng.choice(["THRU", ""])
            nm = rng.choice(["CORD2R", "CORD2C", "CORD2S", "CORD2R", "CORD2X", "CORD2R1", "CORD1R"])
            cards.append(_render_card(rng, nm, f))
        out.append(("cord2", _decorate(rng, cards)))
    return out


def _rows_conv(rep):
    """rows of numbers printed by the driver -> list of lists of float"""
    if rep in ("none", "error", "error:IndexError"):
        return rep
    return [[_num(v) if _num(v) is not None else 0.0 for v in _card_model(c)] for c in rep.split(";")]


def _grid_reader_streams(ctx, B, texts):
    bulk = _bulk()
    from pyyeti.nastran import n2p

    rng = ctx.rng
    allt = [(k, t) for k, t in texts if k in ("grid", "cord2", "uset")] + _grid_variant_texts(ctx)
    for kind, text in list(allt):
        if kind == "grid" and rng.random() < 0.3:
            allt.append(("grid", _grid_to_comma(text, rng)))
    for kind, text in allt:
        th = _hex(text)
        if kind in ("grid", "uset"):
            r = _read(bulk.rdgrids, text)
            if r is None:
                impl = "none"
            elif isinstance(r, str):
                impl = r
            else:
                impl = [[float(v) for v in row] for row in r.tolist()]
            br = ["rdgrids:" + ("none" if impl == "none" else ("index-error" if impl == "error:IndexError" else "ok"))]
            if not isinstance(impl, str) and len({len([x for x in ln.split(",")]) for ln in text.split("\n") if ln.lower().startswith("grid")}) > 1:
                br.append("rdgrids:ragged")
            B.add("rdgrids", "rdgrids " + th, {"text": text}, impl, _rows_conv, nontrivial=text.count("\n") > 1, branch=br)
        if kind in ("cord2", "uset"):
            cards = _read(bulk.rdcards, text, r"(cord2[rcs])\b", return_var="list", regex=True, keep_name=True, blank=0)
            impl = "none" if cards is None else (cards if isinstance(cards, str) else [[_val_py(v) for v in c] for c in cards])

            def conv_k(rep):
                m = _cards_model(rep)
                return m if isinstance(m, str) else [[("i", 0) if v == ("b",) else v for v in c] for c in m]

            B.add("rdcards-regex-keepname", "rdcardsk " + th, {"text": text}, impl, conv_k, branch="rdcardsk")
            # the twelve numbers handed to n2p.build_coords, and the final dictionary through build_coords
            conv_fn = getattr(bulk, "_convert_card", None)
            if conv_fn is not None and not isinstance(cards, str):
                try:
                    impl2 = [[float(v) for v in conv_fn(list(c))] for c in (cards or [])]
                except ValueError:
                    impl2 = "error"
                B.add("rdcord2-convert", "rdcord2 " + th, {"text": text}, impl2,
                      lambda rep: [] if rep == "" else _rows_conv(rep),
                      branch=["rdcord2:" + ("error" if impl2 == "error" else ("empty" if not impl2 else "ok"))] +
                             (["rdcord2:13-fields"] if not isinstance(cards, str) and any(len(c) == 13 for c in (cards or [])) else []))
            full = _read(bulk.rdcord2cards, text)

            def conv_full(rep, n2p=n2p):
                rows = [] if rep == "" else _rows_conv(rep)
                if rows == "error":
                    return "error:ValueError"
                if not rows:
                    return {}
                try:
                    d = n2p.build_coords(np.array(rows, dtype=float))
                except Exception as e:
                    return "error:" + type(e).__name__
                return {int(k): v.tolist() for k, v in d.items()}

            implf = full if isinstance(full, str) else {int(k): v.tolist() for k, v in full.items()}
            B.add("rdcord2cards", "rdcord2 " + th, {"text": text}, implf, conv_full, branch="rdcord2cards")


def _grid_to_comma(text, rng):
    """free-format rendering of written GRID cards (8- and 16-wide), lower case now and then"""
    out = []
    lines = [l for l in text.split("\n") if l]
    i = 0
    while i < len(lines):
        l = lines[i]
        if l.startswith("GRID*"):
            fs = [l[j:j + 16].strip() for j in range(8, len(l), 16)]
            if i + 1 < len(lines) and lines[i + 1].startswith("*"):
                l2 = lines[i + 1]
                fs += [""] * (4 - len(fs)) + [l2[j:j + 16].strip() for j in range(8, len(l2), 16)]
                i += 1
            name = "GRID"
        elif l.startswith("GRID"):
            fs = [l[j:j + 8].strip() for j in range(8, len(l), 8)]
            name = "GRID"
        else:
            out.append(l)
            i += 1
            continue
        if rng.random() < 0.3:
            name = name.lower()
        if len(fs) > 8:
            out.append(",".join([name] + fs[:8]))
            out.append(",".join([""] + fs[8:]))
        else:
            out.append(",".join([name] + fs))
        i += 1
    return "\n".join(out) + "\n"


# ---------------------------------------------------------------------------------------
# files that hold the cards of several readers (Model/BulkMulti.lean)

OWNERS = {"dmig": 0, "grid": 1, "cord2r": 2, "cord2c": 2, "cord2s": 2, "spoint": 3, "csuper": 4, "extrn": 5, "tabled1": 6}


def _segments(text):
    """cut a written block into the segments of Model/BulkMulti.lean: a card = a line that begins with a letter and the
    following lines that begin with one of ' +*'; comment lines, SET statements and everything else are junk"""
    segs = []
    lines = text.split("\n")
    if lines and lines[-1] == "":
        lines.pop()
    in_set = False
    for ln in lines:
        low = ln.lower()
        owner = None
        for nm, o in OWNERS.items():
            if low.startswith(nm) and not low.startswith("set"):
                owner = o
                break
        if owner is not None:
            segs.append(["c%d" % owner, ln])
            in_set = False
        elif ln[:1] in (" ", "+", "*") and segs and segs[-1][0] != "j" and not in_set:
            segs[-1].append(ln)
        else:
            in_set = low.lstrip().startswith("set") or (in_set and ln[:1].isdigit())
            if segs and segs[-1][0] == "j":
                segs[-1].append(ln)
            else:
                segs.append(["j", ln])
    return segs


def _gen_multi_file(rng, dmig=True):
    """one file with the cards of several writers, comments, foreign cards, empty lines and SET statements interleaved;
    -> (text, segments, {reader: text of its own blocks alone, in file order}, sets)"""
    bulk = _bulk()
    blocks = []   # (reader or None, text)
    names = set()
    for _ in range(rng.randint(1, 3) if dmig else 0):
        d = _gen_dmig_int(rng)
        if d["name"].lower() in names or not any(any(v != (0, 0) for v in row) for row in d["m"]):
            continue
        names.add(d["name"].lower())
        blocks.append(("dmig", _write(bulk.wtdmig, {d["name"]: _dmig_frame(d)})))
    for _ in range(rng.randint(0, 2)):
        c = _gen_grid_case(rng, bad=0.0)
        t = _grid_write(c)
        if not t.startswith("error"):
            blocks.append(("grid", t))
    if rng.random() < 0.7:
        blocks.append(("cord2", _write(bulk.wtcoordcards, _gen_cord_ci(rng))))
    if rng.random() < 0.6:
        blocks.append(("spoint", _write(bulk.wtspoints, [i for i in _gen_idlist(rng, 25) if i > 0] or [5])))
    if rng.random() < 0.6:
        blocks.append(("csuper", _write(bulk.wtcsuper, rng.randint(1, 999), [i for i in _gen_idlist(rng, 25) if i > 0])))
    if rng.random() < 0.5:
        ids = [i for i in _gen_idlist(rng, 12) if i > 0] or [9]
        blocks.append(("extrn", _write(bulk.wtextrn, ids, [rng.choice([0, 123456, 3]) for _ in ids])))
    if rng.random() < 0.5:
        form, _w = FORMS[rng.randrange(len(FORMS))]
        t, dd = _gen_table(rng, rng.randint(1, 9))
        blocks.append(("tabled1", _write(bulk.wttabled1, rng.randint(1, 9999), t, dd, None, form)))
    sets = []
    for _ in range(rng.randint(0, 2)):
        sid = rng.randint(1, 99999)
        ids = [i for i in _gen_idlist(rng, 30) if i > 0] or [1]
        if sid in [s_[0] for s_ in sets]:
            continue
        sets.append((sid, ids))
        blocks.append((None, _write(bulk.wtset, sid, ids, rng.choice([72, 40, 30])) + "\n"))
    rng.shuffle(blocks)
    out = []
    for rd, text in blocks:
        u = rng.random()
        if u < 0.25:
            out.append((None, "$ a comment\n"))
        elif u < 0.35:
            out.append((None, "\n"))
        elif u < 0.5:
            out.append((None, "PARAM   POST    -1\n"))
        elif u < 0.55:
            out.append((None, "$\n$ DMIG GRID CORD2R in a comment\n"))
        out.append((rd, text))
    text = "".join(t for _, t in out)
    own = {}
    for rd, t in out:
        if rd:
            own[rd] = own.get(rd, "") + t
    order = [sid for sid, _ in sorted(sets, key=lambda p: [i for i, (rd, t) in enumerate(out) if t.startswith("SET %d = " % p[0])][0])]
    sets_in_order = [(sid, dict(sets)[sid]) for sid in order]
    return text, _segments(text), own, sets_in_order


def _multi_streams(ctx, B):
    bulk = _bulk()
    from pyyeti.nastran import n2p

    for k in range(ctx.pick(60, 600)):
        text, segs, own, sets = _gen_multi_file(ctx.rng, dmig=k % 20 != 0)
        th = _hex(text)
        req = "fileok " + " ".join("/".join([s_[0]] + [_hex(l) for l in s_[1:]]) for s_ in segs)
        B.add("multi-file", req, {"text": text}, "ok", branch=["multi:fileok"] + ["multi:" + k for k in sorted(own)] +
              (["multi:set"] if sets else []))
        r = _read(bulk.rddmig, text)
        B.add("multi-file", "rddmig " + th, {"text": text, "reader": "rddmig"},
              "error" if isinstance(r, str) else [_frame_canon(k, v) for k, v in r.items()], _dmig_conv,
              branch="multi:rddmig-" + ("no-dmig-card" if "dmig" not in own else "ok"))
        e, q = ctx.rng.choice([(1, 0), (0, 1), (1, 1)])
        r = _read(bulk.rddmig, text, expanded=bool(e), square=bool(q))
        B.add("multi-file", "rddmigx %d %d %s" % (e, q, th), {"text": text, "reader": "rddmig", "expanded": bool(e), "square": bool(q)},
              "error" if isinstance(r, str) else [_frame_canon(k, v) for k, v in r.items()], _dmig_conv)
        r = _read(bulk.rdgrids, text)
        B.add("multi-file", "rdgrids " + th, {"text": text, "reader": "rdgrids"},
              "none" if r is None else (r if isinstance(r, str) else [[float(v) for v in row] for row in r.tolist()]), _rows_conv)
        full = _read(bulk.rdcord2cards, text)

        def conv_full(rep, n2p=n2p):
            rows = [] if rep == "" else _rows_conv(rep)
            if rows == "error":
                return "error:ValueError"
            if not rows:
                return {}
            try:
                dd = n2p.build_coords(np.array(rows, dtype=float))
            except Exception as ex:
                return "error:" + type(ex).__name__
            return {int(k): v.tolist() for k, v in dd.items()}

        B.add("multi-file", "rdcord2 " + th, {"text": text, "reader": "rdcord2cards"},
              full if isinstance(full, str) else {int(k): v.tolist() for k, v in full.items()}, conv_full)
        if "spoint" in own:
            r = _read(bulk.rdspoints, text)
            B.add("multi-file", "rdspoints " + th, {"text": text, "reader": "rdspoints"},
                  "error" if isinstance(r, str) else [int(v) for v in r],
                  lambda rep: rep if rep == "error" else [int(v) for v in rep.split()])
        r = _read(bulk.rdsets, text)
        impl = "error" if isinstance(r, str) else [(int(k), [int(x) for x in v]) for k, v in r.items()]

        def conv_sets(rep):
            if rep == "error":
                return rep
            if rep == "":
                return []
            return [(_val_model(item.split("=")[0])[1], [int(x) for x in item.split("=")[1].split()]) for item in rep.split(";")]

        B.add("multi-file", "rdsets " + th, {"text": text, "reader": "rdsets"}, impl, conv_sets)


# ---------------------------------------------------------------------------------------
# real-valued fields (Model/BulkReal.lean: C12's exact float formatting)

import struct


def _bits(x):
    return struct.unpack("<Q", struct.pack("<d", float(x)))[0]


def _gen_double(rng):
    u = rng.random()
    if u < 0.08:
        return rng.choice([0.0, -0.0, 1.0, -1.0, 0.5, 9.9999999995, 99999.999995, 9.9999999999999e99, 1e100, -1e-100, 5e-324,
                           -2.2250738585072014e-308, 1.7976931348623157e308, 0.1, -0.015625, 123456789.0, 999999.999999995])
    if u < 0.5:
        return rng.choice([-1.0, 1.0]) * rng.uniform(1.0, 9.999999) * 10.0 ** rng.randint(-12, 12)
    if u < 0.8:
        return rng.choice([-1.0, 1.0]) * rng.uniform(1.0, 9.999999) * 10.0 ** rng.randint(-300, 300)
    if u < 0.9:
        return float(rng.randint(-10 ** 9, 10 ** 9)) / rng.choice([1, 2, 4, 8, 1000])
    # values that round to the next power of ten at 9 / 10 significant digits
    return rng.choice([-1.0, 1.0]) * (10.0 ** rng.randint(-20, 20)) * (1 - rng.choice([1e-10, 4.9e-10, 5e-10, 5.1e-10, 1e-9, 1e-11]))


REAL_SPECS = [(16, 9, "E"), (16, 8, "e"), (16, 8, "f"), (8, 2, "f"), (8, 5, "f"), (16, 2, "f"), (16, 5, "f"), (8, 3, "f"), (16, 6, "f"),
              (8, 1, "f")]


def _gen_dmig_real(rng):
    """a real / complex valued DMIG input: _gen_dmig_int structure with non-integer doubles (float32 for types 1 / 3)"""
    d = _gen_dmig_int(rng)
    dt = {1: np.float32, 2: np.float64, 3: np.float32, 4: np.float64}[d["mtype"]]

    wide = d["mtype"] % 2 == 0 and rng.random() < 0.25   # double types: also three-digit exponents (the fallback field)

    def rv():
        if wide and rng.random() < 0.5:
            mag = 10.0 ** rng.choice([rng.randint(-300, -100), rng.randint(100, 300)])
        else:
            mag = 10.0 ** rng.randint(-30 if d["mtype"] % 2 == 0 else -20, 30 if d["mtype"] % 2 == 0 else 20) if rng.random() < 0.5 else 1.0
        return float(dt(rng.uniform(0.5, 9.5) * rng.choice([-1, 1]) * mag))

    vals = {}
    m = []
    for i, row in enumerate(d["m"]):
        out = []
        for j, (re, im) in enumerate(row):
            key = (min(i, j), max(i, j)) if d["kind"] in ("sym", "sparse-sym", "f9-unequal") else (i, j)
            if key not in vals:
                vals[key] = (rv() if re else 0.0, rv() if im else 0.0)
            x, y = vals[key]
            if d["kind"] == "hermitian" and i < j:
                y = -vals[(j, i)][1] if (j, i) in vals else y
            out.append((x, y))
        m.append(out)
    if d["kind"] == "hermitian":
        for i in range(len(m)):
            for j in range(i):
                m[j][i] = (m[i][j][0], -m[i][j][1])
    d["mr"] = m
    return d


def _dmig_real_req(d):
    flat = []
    for p in d["rowids"] + d["colids"]:
        flat += [p[0], p[1]]
    for row in d["mr"]:
        for re, im in row:
            flat += [_bits(re) if re != 0 else 0, _bits(im) if im != 0 else 0]
    return "dmigr %s %d %d %d %d %s" % (_hex(d["name"]), 1 if d["single"] else 0, d["mtype"], len(d["rowids"]), len(d["colids"]),
                                        " ".join(str(v) for v in flat))


def _real_streams(ctx, B, texts):
    bulk = _bulk()
    rng = ctx.rng
    for _ in range(ctx.pick(1500, 15000)):
        x = _gen_double(rng)
        w, p, ty = REAL_SPECS[rng.randrange(len(REAL_SPECS))] if rng.random() < 0.5 else REAL_SPECS[rng.randrange(3)]
        if ty == "f" and abs(x) > 1e22:
            x = x / 10.0 ** rng.randint(280, 300) if abs(x) > 1e280 else math.copysign(1.0, x) * (abs(x) % 1e15)
        impl = ("{:%d.%d%s}" % (w, p, ty)).format(x)
        if ty == "f":
            req = "pyf %d %d %d" % (w, p, _bits(x))
        else:
            ec = ty
            if ty == "E" and rng.random() < 0.4:
                impl, ec = impl.replace("E", "D"), "D"
            req = "pye %d %d %s %d" % (w, p, ec, _bits(x))
        e3 = ty != "f" and x != 0 and not (1e-99 <= abs(x) < 9.9e99)
        B.add("real-fields", req, {"x": x, "spec": "{:%d.%d%s}" % (w, p, ty)}, impl, lambda rep: _unhex(rep),
              branch=["real:" + ty] + (["real:three-digit-exponent"] if e3 else []) + (["real:zero"] if x == 0 else []) +
                     (["real:wider-than-field"] if len(impl) > w else []))
    for _ in range(ctx.pick(250, 2500)):
        d = _gen_dmig_real(rng)
        a = np.array([[complex(re, im) for re, im in row] for row in d["mr"]])
        if a.shape[0] == a.shape[1] and np.allclose(a.T, a) and not np.array_equal(a.T, a):
            # symmetric within np.allclose only: symmetric by the writer's definition, outside the model's (ASSUMPTIONS)
            ctx.skip("dmig-real: symmetric within np.allclose but not exactly")
            continue
        impl = _write(bulk.wtdmig, {d["name"]: _dmig_frame(d, a if d["mtype"] >= 3 else a.real)})
        form = impl[24:32].strip() if isinstance(impl, str) and len(impl) > 32 else "?"
        B.add("wtdmig-real", _dmig_real_req(d), {k: d[k] for k in ("name", "single", "mtype", "rowids", "colids", "mr")}, impl,
              _text_conv(), branch=["dmigr:form" + form, "dmigr:type%d" % d["mtype"]] +
              (["dmigr:fallback-field"] if any(v < 0 and not (1e-99 <= -v < 9.9999999995e99) for row in d["mr"] for pr in row for v in pr) else []))
        if isinstance(impl, str) and not impl.startswith("error") and rng.random() < 0.5:
            texts.append(("dmig", impl))


# ---------------------------------------------------------------------------------------
# uset2bulk / bulk2uset at the table level (Model/BulkUset.lean)


def _gen_uset_table(rng):
    """a USET table with grids in any order, output systems different from the input systems, and scalar points
    (one row, DOF 0) before / between / after the grids -> (uset, entries) with entries = ('g', id, cd, cdtype, xyz) | ('s', id)"""
    import pandas as pd
    from pyyeti.nastran import n2p

    case = {"seed": rng.randint(0, 2 ** 31), "ncs": rng.randint(0, 3), "ngrids": rng.randint(1, 5), "mixed": False}
    uset = _gen_uset(case)[0]
    blocks = [uset.iloc[6 * k:6 * k + 6] for k in range(len(uset) // 6)]
    if rng.random() < 0.5:
        rng.shuffle(blocks)
    used = set(int(i) for i in uset.index.get_level_values("id"))
    for _ in range(rng.choice([0, 0, 1, 2, 3])):
        sid = rng.choice([i for i in range(1, 9000) if i not in used])
        used.add(sid)
        blocks.insert(rng.randint(0, len(blocks)), n2p.make_uset([[sid, 0]], rng.choice(["b", "q", "o"])))
    tab = pd.concat(blocks, axis=0)
    ents = []
    for b in blocks:
        gid = int(b.index[0][0])
        if int(b.index[0][1]) == 0:
            ents.append(("s", gid))
        else:
            ents.append(("g", gid, int(b.iloc[1, 1]), int(b.iloc[1, 2]), [float(v) for v in b.iloc[0, 1:4]]))
    return tab, ents


def _uset_table_streams(ctx, B):
    bulk = _bulk()
    from pyyeti.nastran import n2p

    rng = ctx.rng
    for _ in range(ctx.pick(60, 600)):
        try:
            tab, ents = _gen_uset_table(rng)
            ci = n2p.mkcordcardinfo(tab)
        except Exception as e:
            ctx.skip("uset-table generator:" + type(e).__name__)
            continue
        impl = _write(bulk.uset2bulk, tab)
        parts = []
        for e in ents:
            if e[0] == "s":
                parts.append("s %d" % e[1])
            else:
                parts.append("g %d %d %d %s" % (e[1], e[2], e[3], " ".join(_hex("{:16.8f}".format(v)) for v in e[4])))
        req = "usettab %d %s %d %s" % (len(ci), " ".join(_cord_tokens(v[0], cid, v[1]) for cid, v in ci.items()), len(ents), " ".join(parts))
        gids = [e[1] for e in ents if e[0] == "g"]
        br = ["usettab:" + ("with-spoints" if any(e[0] == "s" for e in ents) else "grids-only"),
              "usettab:" + ("sorted" if gids == sorted(gids) else "unsorted")]
        if any(e[0] == "g" and e[2] != 0 for e in ents):
            br.append("usettab:cd-not-cp")
        B.add("uset-table-write", req, {"entries": ents}, impl, _text_conv(), branch=br)
        if impl.startswith("error"):
            continue
        try:
            u2, c2 = bulk.bulk2uset(io.StringIO(impl))
            dof = u2.index.get_level_values("dof").values
            got = {"grids": [(int(i), int(x), int(y)) for (i, _d), x, y in zip(u2.index[dof == 2].tolist(), u2.loc[dof == 2, "x"], u2.loc[dof == 2, "y"])],
                   "index": [(int(a), int(b)) for a, b in u2.index.tolist()], "nasset": sorted(set(int(v) for v in u2["nasset"].values))}
        except Exception as e:  # noqa: BLE001
            got = "error:" + type(e).__name__

        def conv(rep):
            if rep == "error":
                return rep
            gs = [tuple(int(v) for v in w.split(".")) for w in rep.split()]
            return {"grids": gs, "index": [(g[0], k) for g in gs for k in range(1, 7)], "nasset": [2097154]}

        B.add("uset-table-read", "b2u " + _hex(impl), {"text": impl}, got, conv, branch="b2u")


REQUIRED = [
    "findseq:ok", "findseq:error", "nasints:short", "nasints:exact-fill", "nasints:remainder",
    "csuper:one-line", "csuper:exact-fill", "csuper:remainder", "extrn:exact-fill", "extrn:remainder",
    "spoints:thru", "spoints:singles", "set:wrapped", "set:one-line", "set:token-split", "wrap:split", "wrap:nosplit",
    "tabled1:wide", "tabled1:small", "tabled1:default-form", "tabled1:default-form:fallback-field", "tabled1:shorter-than-line", "tabled1:exact-fill", "tabled1:remainder",
    "dmig:form1", "dmig:form2", "dmig:form6", "dmig:form9", "dmig:type1", "dmig:type2", "dmig:type3", "dmig:type4",
    "dmig:kind-f9-unequal", "reader:comma", "reader:fixed", "reader:fixed16", "reader:comment",
    "rdspoints", "rdcsupers", "rdextrn:ok", "rdextrn:error", "rdtabled1:ok", "rdsets:ok", "rdsets:error", "rddmig",
    "set:cut:head", "set:cut:head-boundary", "set:cut:item-digits", "set:cut:item-thru-prefix", "set:cut:item-error",
    "rdsets:cut:head", "rdsets:cut:head-boundary", "rdsets:cut:item-digits", "rdsets:cut:item-thru-prefix", "rdsets:cut:item-error",
    "vecw:ok", "vecw:value-error", "vecw:index-error", "vecw:len1-after-lenN",
    "grids:short-8", "grids:short-16", "grids:long-8", "grids:long-16", "grids:one-row-xyz", "grids:len1-vector",
    "grids:ValueError", "grids:defaults", "cord:written", "uset:with-coords", "uset:no-coords",
    "rdgrids:ok", "rdgrids:none", "rdgrids:index-error", "rdgrids:ragged", "rdcardsk", "rdcord2:ok", "rdcord2:error",
    "rdcord2:empty", "rdcord2:13-fields", "rdcord2cards",
    "usettab:with-spoints", "usettab:grids-only", "usettab:sorted", "usettab:unsorted", "usettab:cd-not-cp", "b2u",
    "real:E", "real:e", "real:f", "real:three-digit-exponent", "real:zero", "real:wider-than-field",
    "dmigr:form1", "dmigr:form2", "dmigr:form6", "dmigr:form9", "dmigr:type1", "dmigr:type2", "dmigr:type3", "dmigr:type4", "dmigr:fallback-field",
    "multi:fileok", "multi:dmig", "multi:grid", "multi:cord2", "multi:spoint", "multi:csuper", "multi:extrn", "multi:tabled1",
    "multi:set", "multi:rddmig-ok", "multi:rddmig-no-dmig-card", "rddmigx:expanded", "rddmigx:square", "rddmigx:expandedsquare", "rddmigx:form1-expanded", "rddmigx:form1-square",
    "rddmigx:form2-expanded", "rddmigx:form6-expanded", "rddmigx:form6-square", "rddmigx:form9-expanded", "rddmigx:form9-square",
]


def _set_tokens(setid, ids):
    """the tokens of a SET statement, restated (head, one per maximal run, all but the last followed by ', ')"""
    toks, items, i = ["SET %d = " % setid], [], 0
    while i < len(ids):
        j = i
        while j + 1 < len(ids) and ids[j + 1] == ids[j] + 1:
            j += 1
        items.append((ids[i], ids[j]))
        toks.append(("%d THRU %d" % (ids[i], ids[j]) if j > i else "%d" % ids[i]) + ", ")
        i = j + 1
    toks[-1] = toks[-1][:-2]
    return toks, items


def _set_cut_expect(setid, ids, mx):
    """what rdsets returns on wtset(...) when a token does not fit max_length >= 2, restated from the statement of
    set_header_split_fails / set_header_split1_fails / set_item_cut_reads WITHOUT the model: ("ok", dict), ("error",)
    or None when every token fits; second component = the class of the cut"""
    toks, items = _set_tokens(setid, ids)
    if all(len(t) <= mx for t in toks):
        return None, "fits"
    if len(toks[0]) > mx:
        return ("ok", {}), ("head-boundary" if len(toks[0]) == mx + 1 else "head")
    k = next(i for i, t in enumerate(toks[1:]) if len(t) > mx)
    before = [x for a, b in items[:k] for x in range(a, b + 1)]
    a, b = items[k]
    piece = (("%d THRU %d" % (a, b)) if b > a else "%d" % a)[: mx - 1].strip()
    if piece.isdigit():
        return ("ok", {setid: before + [int(piece)]}), "item-digits"
    m = re.fullmatch(r"(\d+) THRU (\d+)", piece)
    if m:
        return ("ok", {setid: before + list(range(int(m.group(1)), int(m.group(2)) + 1))}), "item-thru-prefix"
    return ("error",), "item-error"


def _set_cut_cases(ctx):
    rng = ctx.rng
    out = []
    # head token cut: at least two columns / exactly one column too long
    for sid in (1, 77, 12345, 99999999):
        h = len("SET %d = " % sid)
        for mx in (h - 1, h - 2, h - 3, max(2, h - 6), 2):
            for ids in ([7], [1, 2, 3], [5, 9, 10, 11, 300]):
                out.append((sid, ids, mx))
    # item token cut at every position: plain id, a THRU b (inside a, inside ' THRU ', inside b, only ', ' missing)
    for sid, ids in ((1, [1234567890, 5]), (1, [5, 1234567890]), (3, [3, 1001, 1002, 1003, 9]), (3, [1001, 1002, 1003]),
                     (12, [7, 100001, 100002, 100003, 100004, 12]), (5, [1, 2, 3, 4, 5, 6, 7, 8, 9, 10, 11, 12345678901, 13]),
                     (9, [20000000, 20000001, 20000002, 4]), (9, [4, 6, 20000000, 20000001, 20000002])):
        h = len("SET %d = " % sid)
        toks, _ = _set_tokens(sid, ids)
        for mx in range(h, max(len(t) for t in toks)):
            out.append((sid, ids, mx))
    for _ in range(ctx.pick(150, 1500)):
        n = rng.randint(1, 6)
        ids = []
        for _ in range(n):
            a = rng.choice([rng.randint(1, 99), rng.randint(10 ** 5, 10 ** 6), rng.randint(10 ** 8, 10 ** 11)])
            ids += list(range(a, a + rng.choice([1, 1, 2, 3, 40])))
        sid = rng.choice([1, 42, 9999])
        toks, _ = _set_tokens(sid, ids)
        lo, hi = len(toks[0]), max(len(t) for t in toks)
        if hi > lo:
            out.append((sid, ids, rng.randint(lo, hi - 1)))
    return out


def _set_cut_streams(ctx, B):
    """wtset with a max_length that cuts a token -> the exact text (writer model) and what rdsets makes of it (reader
    model): ties set_header_split_fails / set_header_split1_fails / set_item_cut_reads to the code"""
    bulk = _bulk()
    for sid, ids, mx in _set_cut_cases(ctx):
        exp, cls = _set_cut_expect(sid, ids, mx)
        if exp is None:
            continue
        text = _write(bulk.wtset, sid, ids, mx)
        B.add("wtset", "set %d %d %s" % (sid, mx, " ".join(map(str, ids))), {"setid": sid, "ids": ids, "max_length": mx},
              text, _text_conv(False), nontrivial=True, branch=["set:token-split", "set:cut:" + cls])
        r = _read(bulk.rdsets, text)
        impl = "error" if isinstance(r, str) else [(int(k), [int(x) for x in v]) for k, v in r.items()]

        def conv(rep):
            if rep == "error":
                return rep
            if rep == "":
                return []
            res = []
            for item in rep.split(";"):
                k, c = item.split("=")
                res.append((_val_model(k)[1], [int(x) for x in c.split()]))
            return res

        B.add("rdsets", "rdsets " + _hex(text), {"text": text, "cut": cls}, impl, conv, nontrivial=True,
              branch="rdsets:cut:" + cls)


def correspondence(ctx):
    B = _Batch()
    texts = []
    _writer_streams(ctx, B, texts)
    _grid_streams(ctx, B, texts)
    _real_streams(ctx, B, texts)
    _reader_streams(ctx, B, texts)
    _grid_reader_streams(ctx, B, texts)
    _set_cut_streams(ctx, B)
    _multi_streams(ctx, B)
    _uset_table_streams(ctx, B)
    B.run(ctx)
    for it in B.items[:: max(1, len(B.items) // 6)]:
        ctx.sample({"stream": it[0], "input": it[2]})
    ctx.exhaustive = False
    ctx.extra["exhaustive_set"] = (
        "wtnasints: every start field 1..10 x every length 0..40 (thorough; quick thins lengths > 26); "
        "THRU/wrap: every run structure of lengths 1..%d" % ctx.pick(8, 12)
    )
    ctx.require_branches(REQUIRED)


# ---------------------------------------------------------------------------------------
# model-free oracle: read(write(x)) == x on the API


def _known_open():
    path = os.path.join(os.path.dirname(os.path.dirname(os.path.dirname(os.path.abspath(__file__)))), "known_findings.json")
    try:
        return {k["family"] for k in json.load(open(path))["findings"] if k.get("property") == ID and k.get("status") == "open"}
    except Exception:
        return set()


def _o_ids(kind, case):
    """SET / SPOINT / CSUPER / EXTRN round trips; returns a failure tuple or None"""
    bulk = _bulk()
    ids = case["ids"]
    if kind == "set":
        text = _write(bulk.wtset, case["setid"], ids, case["max_length"])
        if text.startswith("error"):
            return ("wtset-raises", "wtset raises for a non-empty id list", text, "a SET card")
        if any(len(l) > case["max_length"] for l in text.split("\n")):
            return ("wtset-line-too-long", "a SET line exceeds max_length", max(len(l) for l in text.split("\n")), case["max_length"])
        got = _read(bulk.rdsets, text)
        want = {case["setid"]: list(ids)}
        # the tokens of the statement, restated here: the head, one token per maximal run ("a THRU b" for >= 2 ids), all but
        # the last followed by ", ".  The round trip holds EXACTLY when no token is longer than max_length (a longer
        # token is cut into pieces: the line that ends inside it closes the set, or the head no longer matches)
        toks, i = ["SET %d = " % case["setid"]], 0
        while i < len(ids):
            j = i
            while j + 1 < len(ids) and ids[j + 1] == ids[j] + 1:
                j += 1
            toks.append(("%d THRU %d" % (ids[i], ids[j]) if j > i else "%d" % ids[i]) + ", ")
            i = j + 1
        toks[-1] = toks[-1][:-2]
        fits = all(len(t) <= case["max_length"] for t in toks)
        if fits and got != want:
            return ("set-roundtrip", "rdsets(wtset(ids)) differs from ids", got if isinstance(got, str) else {k: v[:30] for k, v in got.items()}, want)
        if not fits and got == want:
            return ("set-roundtrip-with-split-token", "a token longer than max_length was cut into pieces and the set was still read "
                    "back: the stated condition (round trip iff every token fits) is not exact", text[:200], "a different result")
        if not fits and case["max_length"] >= 2 and all(i >= 0 for i in ids) and case["setid"] >= 0:
            exp, cls = _set_cut_expect(case["setid"], list(ids), case["max_length"])
            gotc = ("error",) if isinstance(got, str) else ("ok", {int(k): [int(x) for x in v] for k, v in got.items()})
            if exp is not None and gotc != exp:
                return ("set-cut-token-reads-differently", "a token longer than max_length was cut (%s): rdsets does not return what "
                        "the statement of set_header_split_fails / set_header_split1_fails / set_item_cut_reads says" % cls,
                        gotc if gotc[0] == "error" else {k: v[:30] for k, v in gotc[1].items()},
                        exp if exp[0] == "error" else {k: v[:30] for k, v in exp[1].items()})
    elif kind == "spoint":
        text = _write(bulk.wtspoints, ids)
        if text.startswith("error"):
            return ("wtspoints-raises", "wtspoints raises", text, "SPOINT cards")
        if any(len(l) > 72 for l in text.split("\n")):
            return ("spoint-line-too-long", "an SPOINT line exceeds 72 columns", text[:200], "<= 72 columns")
        got = _read(bulk.rdspoints, text)
        if isinstance(got, str) or got.tolist() != list(ids):
            return ("spoint-roundtrip", "rdspoints(wtspoints(ids)) differs from ids", got if isinstance(got, str) else got.tolist()[:40], list(ids)[:40])
    elif kind == "csuper":
        text = _write(bulk.wtcsuper, case["superid"], ids)
        if text.startswith("error"):
            return ("wtcsuper-raises", "wtcsuper raises", text, "a CSUPER card")
        if any(len(l) > 72 for l in text.split("\n")):
            return ("csuper-line-too-long", "a CSUPER line exceeds 72 columns", text[:200], "<= 72 columns")
        got = _read(bulk.rdcsupers, text)
        want = [case["superid"], 0] + list(ids)
        if isinstance(got, str) or list(got.keys()) != [case["superid"]] or got[case["superid"]].tolist() != want:
            return ("csuper-roundtrip-%s" % _len_family(len(ids), 6, 8), "rdcsupers(wtcsuper(id, grids)) differs",
                    got if isinstance(got, str) else {k: v.tolist()[:40] for k, v in got.items()}, want[:40])
    elif kind == "extrn":
        from pyyeti.nastran import n2p

        dof = case["dof"]
        text = _write(bulk.wtextrn, ids, dof)
        if text.startswith("error"):
            return ("wtextrn-raises", "wtextrn raises", text, "an EXTRN card")
        if any(len(l) > 72 for l in text.split("\n")):
            return ("extrn-line-too-long", "an EXTRN line exceeds 72 columns", text[:200], "<= 72 columns")
        got = _read(bulk.rdextrn, text, False)
        want = [[a, b] for a, b in zip(ids, dof)]
        if isinstance(got, str) or got.tolist() != want:
            return ("extrn-roundtrip-%s" % _len_family(len(ids), 4, 4), "rdextrn(wtextrn(ids, dof)) differs",
                    got if isinstance(got, str) else got.tolist()[:20], want[:20])
        got2 = _read(bulk.rdextrn, text, True)
        want2 = n2p.expanddof(np.array(want, dtype=np.int64).reshape(-1, 2))
        if isinstance(got2, str) or got2.tolist() != want2.tolist():
            return ("extrn-expand", "rdextrn(expand=True) differs from expanddof of the pairs", str(got2)[:200], want2.tolist()[:20])
    return None


def _len_family(n, first, per):
    if n < first:
        return "shorter-than-first-line"
    return "exact-fill" if (n - first) % per == 0 else "with-remainder"


def _fmt_tol(form, x, second=False):
    """half a unit in the last written place of one formatted value"""
    if form == TAB_DEFAULT_FORM:  # every value through _dmig_field: one digit less when '{:16.9E}' is 17 characters
        s = "{:16.9E}".format(x)
        s = s if len(s) <= 16 else "{:16.8E}".format(x)
    else:
        s = form.format(x, x)
        s = s[len(s) // 2:] if second else s[: len(s) // 2]
    if "E" in s.upper():
        digits = len(s.upper().split("E")[0].split(".")[1]) if "." in s else 0
        return 0.5000001 * 10.0 ** (np.floor(np.log10(abs(x))) - digits) if x != 0 else 0.0
    digits = len(s.split(".")[1]) if "." in s else 0
    return 0.5000001 * 10.0 ** (-digits)


def _o_tabled1(case):
    bulk = _bulk()
    t, d, form, tid = case["t"], case["d"], case["form"], case["tid"]
    text = _write(bulk.wttabled1, tid, t, d, case.get("title"), form)
    wide = len(form.format(1, 1)) == 32
    per = 2 if wide else 4
    npts = len(t)
    if text.startswith("error"):
        fam = "wttabled1-shorter-than-one-line" if npts < per else "wttabled1-raises"
        return (fam, "wttabled1 raises %s for %d point(s), %d-wide fields" % (text, npts, 16 if wide else 8), text, "a TABLED1 card")
    if any(len(l) > 72 for l in text.split("\n")):
        return ("tabled1-line-too-long", "a TABLED1 line exceeds 72 columns", text[:300], "<= 72 columns")
    got = _read(bulk.rdtabled1, text)
    if isinstance(got, str) or list(got.keys()) != [tid]:
        return ("tabled1-roundtrip-" + _len_family(npts, per, per), "rdtabled1 fails on the written table", str(got)[:200], "table %d" % tid)
    g = got[tid]
    if g.shape != (npts, 2):
        return ("tabled1-roundtrip-" + _len_family(npts, per, per), "rdtabled1(wttabled1(t, d)) has %s rows, %d written" % (g.shape, npts),
                g.tolist()[:12], [[a, b] for a, b in zip(t, d)][:12])
    for i in range(npts):
        if (abs(g[i, 0] - t[i]) > _fmt_tol(form, t[i]) * 1.0001 + 4 * np.spacing(abs(t[i]))
                or abs(g[i, 1] - d[i]) > _fmt_tol(form, d[i], True) * 1.0001 + 4 * np.spacing(abs(d[i]))):
            return ("tabled1-values", "a value differs by more than the written precision", [g[i, 0], g[i, 1]], [t[i], d[i]])
    return None


def _o_dmig(case, known):
    """returns list of failure tuples"""
    import pandas as pd

    bulk = _bulk()
    d = case
    a = np.array(d["values"])
    df = _dmig_frame(d, a)
    a = df.values  # after dtype cast
    text = _write(bulk.wtdmig, {d["name"]: df})
    if text.startswith("error"):
        return [("wtdmig-raises", "wtdmig raises", text, "DMIG cards")]
    if any(len(l) > 72 for l in text.split("\n")):
        return [("dmig-line-too-long", "a DMIG line exceeds 72 columns", text[:300], "<= 72 columns")]
    got = _read(bulk.rddmig, text)
    if isinstance(got, str):
        return [("rddmig-raises", "rddmig raises on the written matrix", got, "a DataFrame")]
    nz_r = [i for i in range(a.shape[0]) if a[i].any()]
    nz_c = [j for j in range(a.shape[1]) if a[:, j].any()]
    if not nz_c:
        return [] if d["name"].lower() in got or True else []
    g = got.get(d["name"].lower())
    if g is None:
        return [("rddmig-name", "the matrix name is not found by the reader", list(got), d["name"].lower())]
    form = int(text[24:32])
    rows = [d["rowids"][i] for i in nz_r]
    cols = [d["colids"][j] for j in nz_c]
    sq_same = (not d["single"]) and d["rowids"] == d["colids"]
    if form == 6 and sq_same:
        both = sorted(set(rows) | set(cols), key=lambda p: 10 * p[0] + p[1])
        rows = cols = both
    want_rows = sorted(rows, key=lambda p: 10 * p[0] + p[1])
    want_cols = sorted(cols, key=lambda p: 10 * p[0] + p[1])
    grow = [(int(x), int(y)) for x, y in g.index.tolist()]
    gcol = [(int(x), int(y)) for x, y in g.columns.tolist()] if g.columns.nlevels == 2 else [(int(x), 0) for x in g.columns.tolist()]
    fam = None
    exact_sym = a.shape[0] == a.shape[1] and np.array_equal(a.T, a)
    if form == 6 and not sq_same:
        fam = "wtdmig-form6-from-unequal-index-sets"
    elif form == 6 and not exact_sym:
        if np.allclose(a.T, a):
            # symmetric within np.allclose = symmetric by the writer's own definition (see ASSUMPTIONS):
            # outside the property's domain, skipped and counted
            return [("skip", "square frame symmetric within np.allclose but not exactly")]
        # half storage chosen for a matrix that is not symmetric even by the writer's own definition
        # (e.g. Hermitian): the mirrored half cannot reproduce it; compared below like any other matrix
        fam = "wtdmig-form6-for-non-symmetric-matrix"
    bad = None
    if grow != want_rows or gcol != want_cols:
        bad = ("index sets differ", {"rows": grow, "cols": gcol}, {"rows": want_rows, "cols": want_cols})
    else:
        gv = g.values
        for i, r in enumerate(want_rows):
            for j, c in enumerate(want_cols):
                x = a[d["rowids"].index(r), d["colids"].index(c)]
                y = gv[i, j]
                for xx, yy in ((complex(x).real, complex(y).real), (complex(x).imag, complex(y).imag)):
                    if abs(xx - yy) > 5.0000001e-10 * abs(xx) * 1.01 + 1e-300:
                        bad = ("value at row %s col %s differs by more than the 10 significant digits written" % (r, c), [yy], [xx])
                        break
                if bad:
                    break
            if bad:
                break
    if not bad and d["single"]:
        bad9 = _o_dmig_form9(d, a, text)
        if bad9:
            return [bad9]
    if not bad and fam is None:
        bado = _o_dmig_options(d, a, text, form)
        if bado:
            return [bado]
    if not bad:
        return []
    fam = fam or ("dmig-roundtrip-form%d-type%d" % (form, d["mtype"]))
    return [(fam, "rddmig(wtdmig(x)) != x: " + bad[0], bad[1], bad[2])]


def _o_dmig_options(d, a, text, form):
    """rddmig(expanded=True / square=True / both) of a written matrix, restated on the API: the index is the (expanded)
    label set of the non-null rows / columns — their union on both axes for form 6 and for form 1 with square=True;
    1..max column number for an expanded form-9 matrix — every written term sits at its own (row id, column id), all
    other positions are exactly 0, and nothing is mirrored except for form 6"""
    bulk = _bulk()
    key = lambda p: 10 * p[0] + p[1]
    nzr = [d["rowids"][i] for i in range(a.shape[0]) if a[i].any()]
    nzc = [d["colids"][j] for j in range(a.shape[1]) if a[:, j].any()]

    def expand(labels):
        out = set()
        for g, c in labels:
            out |= {(g, k) for k in range(1, 7)} if c > 0 else {(g, 0)}
        return out

    for expanded, square in ((True, False), (False, True), (True, True)):
        opt = ("expanded" if expanded else "") + ("-" if expanded and square else "") + ("square" if square else "")
        fam = "dmig-%s-form%d" % (opt, form)
        g = _read(bulk.rddmig, text, expanded=expanded, square=square)
        if isinstance(g, str) or d["name"].lower() not in g:
            return (fam + "-raises", "rddmig(%s) fails on a written matrix" % opt, str(g)[:200], "a DataFrame")
        g = g[d["name"].lower()]
        union = form == 6 or (form == 1 and square)
        rows = set(nzr) | (set(nzc) if union else set())
        cols = set(nzc) | (set(nzr) if union else set())
        want_rows = sorted(expand(rows) if expanded else rows, key=key)
        if form == 9:
            nums = [c for c, _ in nzc]
            want_cols = [(k, 0) for k in (range(1, max(c for c, _ in d["colids"]) + 1) if expanded else sorted(nums))]
        else:
            want_cols = sorted(expand(cols) if expanded else cols, key=key)
        grow = [(int(x), int(y)) for x, y in g.index.tolist()]
        gcol = [(int(x), int(y)) for x, y in g.columns.tolist()] if g.columns.nlevels == 2 else [(int(x), 0) for x in g.columns.tolist()]
        if grow != want_rows or gcol != want_cols:
            return (fam + "-index", "rddmig(%s): the index is not the %s label set of the non-null rows / columns%s"
                    % (opt, "expanded" if expanded else "plain", " (union on both axes)" if union else ""),
                    {"rows": grow[:14], "cols": gcol[:14]}, {"rows": want_rows[:14], "cols": want_cols[:14]})
        gv = g.values
        want = {}
        for i, r in enumerate(d["rowids"]):
            for j, c in enumerate(d["colids"]):
                if a[i, j] != 0:
                    want[(r, c)] = complex(a[i, j])
        for i, r in enumerate(grow):
            for j, c in enumerate(gcol):
                y = complex(gv[i, j])
                x = want.get((r, c))
                if x is None:
                    if not (y == 0):  # NaN counts as non-zero
                        what = "mirrored" if (c, r) in want and form != 6 else "fill"
                        return (fam + "-" + what, "rddmig(%s): position (row %s, column %s) holds no written term but is not 0%s"
                                % (opt, r, c, " (the term of the transposed position: only form 6 is mirrored)" if what == "mirrored" else ""),
                                [y.real, y.imag], [0.0, 0.0])
                elif (abs(x.real - y.real) > 5.05e-10 * abs(x.real) + 1e-300 or abs(x.imag - y.imag) > 5.05e-10 * abs(x.imag) + 1e-300
                      or y != y):
                    return (fam + "-values", "rddmig(%s): the term at row %s column %s differs" % (opt, r, c),
                            [y.real, y.imag], [x.real, x.imag])
    return None


def _val_tol(form1, x):
    """half a unit in the last place of `form1.format(x)` (relative for e/E formats, absolute for f)"""
    s1 = form1.format(x).strip().upper()
    if "E" in s1:
        mant = s1.split("E")[0]
        digits = len(mant.split(".")[1]) if "." in mant else 0
        if x == 0:
            return 0.0
        return 0.5000001 * 10.0 ** (int(s1.split("E")[1]) - digits) + 4 * np.spacing(abs(x))
    digits = len(s1.split(".")[1]) if "." in s1 else 0
    return 0.5000001 * 10.0 ** (-digits) + 4 * np.spacing(abs(x))


def _mixed(rng, lo=-6, hi=6, zero=0.15):
    """a value whose magnitude is drawn log-uniformly over `hi - lo` decades (sometimes exactly 0)"""
    if rng.random() < zero:
        return 0.0
    return rng.choice([-1.0, 1.0]) * rng.uniform(1.0, 9.999) * 10.0 ** rng.randint(lo, hi)


def _o_cord(case):
    """wtcoordcards -> the nine A/B/C fields as read by rdcards, each to the written precision
    ({:16.8e}: 9 significant digits of ITS OWN magnitude); then rdcord2cards on the same text"""
    from pyyeti.nastran import n2p

    bulk = _bulk()
    ci = {}
    for cid, typ, ref, abc in case["systems"]:
        name = {1: "CORD2R", 2: "CORD2C", 3: "CORD2S"}[typ]
        ci[cid] = [name, np.vstack([[cid, typ, ref], np.array(abc, dtype=float)])]
    text = _write(bulk.wtcoordcards, ci)
    if text.startswith("error"):
        return ("wtcoordcards-raises", "wtcoordcards raises", text, "CORD2x cards")
    if any(len(l) > 73 for l in text.split("\n")):
        return ("cord2-line-too-long", "a CORD2x line exceeds 72 columns + continuation mark", text[:300], "<= 73 columns")
    cards = _read(bulk.rdcards, text, "cord2", return_var="list")
    if isinstance(cards, str) or cards is None or len(cards) != len(ci):
        return ("cord2-cards", "rdcards does not find the written CORD2x cards", str(cards)[:200], "%d cards" % len(ci))
    for card, (cid, typ, ref, abc) in zip(cards, case["systems"]):
        flat = [v for row in abc for v in row]
        if len(card) != 11 or card[0] != cid or card[1] != ref:
            return ("cord2-roundtrip-ids", "CORD2x id / reference id differ", card[:3], [cid, ref])
        big = max(abs(v) for v in flat)
        for k, (got, want) in enumerate(zip(card[2:], flat)):
            # the writer documents a noise floor of 1e-15 of the largest value on the card
            if abs(float(got) - want) > _val_tol("{:16.8e}", want) + 1e-15 * big:
                span = "%.0e" % (abs(want) / big) if big else "0"
                return ("cord2-small-value-lost" if float(got) == 0.0 else "cord2-values",
                        "CORD2x field %s%d of system %d differs by more than 9 significant digits "
                        "(value/largest on card = %s)" % ("ABC"[k // 3], k % 3 + 1, cid, span), float(got), want)
    return None


def _local_to_rect(typ, p):
    """coordinates of a point given in a rectangular (1), cylindrical (2: r, theta, z) or spherical
    (3: r, theta from z, phi about z) system -> its rectangular coordinates in that system's axes"""
    a, b, c = (float(v) for v in p)
    if typ == 1:
        return np.array([a, b, c])
    if typ == 2:
        t = math.radians(b)
        return np.array([a * math.cos(t), a * math.sin(t), c])
    t, f = math.radians(b), math.radians(c)
    return np.array([a * math.sin(t) * math.cos(f), a * math.sin(t) * math.sin(f), a * math.cos(t)])


def _o_cordchain(case):
    """CORD2x systems that refer to one another (a tree over system 0 of any depth, ids in any order relative to the
    chain, cards in any order): wtcoordcards -> rdcord2cards gives, for every system, [cid, type, 0], its origin and
    its axes in basic.  The reference is computed here from the nine numbers AS READ BACK by rdcards (so the
    written precision plays no role) by the textbook construction: z along AB, y along z x AC, x = y x z."""
    bulk = _bulk()
    ci = {}
    for cid, typ, ref, abc in case["systems"]:
        name = {1: "CORD2R", 2: "CORD2C", 3: "CORD2S"}[typ]
        ci[cid] = [name, np.vstack([[cid, typ, ref], np.array(abc, dtype=float)])]
    text = _write(bulk.wtcoordcards, ci)
    if text.startswith("error"):
        return ("wtcoordcards-raises", "wtcoordcards raises", text, "CORD2x cards")
    cards = _read(bulk.rdcards, text, "cord2", return_var="list")
    if isinstance(cards, str) or cards is None or len(cards) != len(ci):
        return ("cord2-cards", "rdcards does not find the written CORD2x cards", str(cards)[:200], "%d cards" % len(ci))
    typ_of = {cid: typ for cid, typ, _, _ in case["systems"]}
    read = {int(c[0]): (int(c[1]), [float(v) for v in c[2:11]]) for c in cards}
    if sorted(read) != sorted(ci) or any(read[cid][0] != ref for cid, _, ref, _ in case["systems"]):
        return ("cord2-roundtrip-ids", "CORD2x ids / reference ids differ", sorted(read.items())[:4], sorted(ci)[:4])
    try:
        got = bulk.rdcord2cards(io.StringIO(text))
    except Exception as e:  # noqa: BLE001
        return ("cordchain-rdcord2cards-raises", "rdcord2cards raises on a written chain of CORD2x cards (depth %d, ids %s "
                "along the deepest chain)" % (case["depth"], case["order"]), type(e).__name__ + ": " + str(e)[:160],
                "the coordinate systems")
    if sorted(int(k) for k in got if k != 0) != sorted(ci):  # the basic system 0 is always present
        return ("cordchain-ids", "rdcord2cards returns other system ids than were written", sorted(int(k) for k in got), sorted(ci))
    solved = {0: (np.zeros(3), np.eye(3))}

    def basic(cid):
        if cid not in solved:
            ref, nine = read[cid]
            o, T = basic(ref)
            rt = typ_of.get(ref, 1)
            A, B, C = (o + T @ _local_to_rect(rt, nine[3 * k:3 * k + 3]) for k in range(3))
            z = (B - A) / np.linalg.norm(B - A)
            y = np.cross(z, C - A)
            y /= np.linalg.norm(y)
            solved[cid] = (A, np.column_stack([np.cross(y, z), y, z]))
        return solved[cid]

    for cid, typ, ref, _ in case["systems"]:
        o, T = basic(cid)
        g = np.asarray(got[cid], dtype=float)
        if g.shape != (5, 3) or g[0].tolist() != [cid, typ, 0]:
            return ("cordchain-header", "first row of system %d is not [cid, type, 0]" % cid, g[0].tolist(), [cid, typ, 0])
        scale = max(1.0, float(np.abs(o).max()))
        if np.abs(g[1] - o).max() > 1e-9 * scale * case["depth"] or np.abs(g[2:] - T).max() > 1e-9 * case["depth"]:
            return ("cordchain-geometry", "system %d (depth %d, ids %s): origin / axes in basic differ from the construction "
                    "through its reference systems" % (cid, case["depth"], case["order"]),
                    g[1:].tolist(), np.vstack([o, T]).tolist())
    return None


def _gen_cordchain(rng):
    """a tree of 1..7 systems; the deepest chain has 1..5 levels; ids increasing, decreasing or shuffled along it;
    well-conditioned geometry (|AB| ~ 1, AC at 35..145 degrees from AB), origins off the reference's z axis"""
    n = rng.randint(1, 7)
    order = rng.choice(["increasing", "decreasing", "shuffled"])
    ids = sorted(rng.sample(range(1, 400), n))
    if order == "decreasing":
        ids.reverse()
    elif order == "shuffled":
        rng.shuffle(ids)
    chainy = rng.random() < 0.6
    parent, depth, systems = {}, {0: 0}, []
    for k, cid in enumerate(ids):
        ref = 0 if k == 0 else (ids[k - 1] if chainy and rng.random() < 0.85 else rng.choice([0] + ids[:k]))
        parent[cid] = ref
        depth[cid] = depth[ref] + 1
    typ = {cid: rng.randint(1, 3) for cid in ids}
    for cid in ids:
        rt = typ.get(parent[cid], 1)

        def pt():
            if rt == 1:
                return np.array([rng.uniform(-5, 5) for _ in range(3)])
            if rt == 2:
                return np.array([rng.uniform(0.5, 5), rng.uniform(-170, 170), rng.uniform(-5, 5)])
            return np.array([rng.uniform(0.5, 5), rng.uniform(20, 160), rng.uniform(-170, 170)])

        for _ in range(200):
            A, B, C = pt(), pt(), pt()
            a, b, c = (_local_to_rect(rt, q) for q in (A, B, C))
            u, w = b - a, c - a
            nu, nw = np.linalg.norm(u), np.linalg.norm(w)
            if 0.5 < nu < 8 and 0.5 < nw < 8 and abs(float(u @ w)) / (nu * nw) < 0.8:
                break
        else:
            return None
        systems.append((cid, typ[cid], parent[cid], [[float(v) for v in q] for q in (A, B, C)]))
    rng.shuffle(systems)  # the order of the cards in the file is free
    return {"systems": systems, "depth": max(depth.values()), "order": order if n > 1 else "single"}


def _o_dmig_form9(d, a, text):
    """form 9: the header NCOL must be the largest column number; rddmig(expanded=True) rebuilds
    columns 1..NCOL and puts every written column at its own number"""
    bulk = _bulk()
    colnums = [c for c, _ in d["colids"]]
    want_ncol = max(colnums)
    head = text.split("\n")[0]
    contig = "contiguous-from-1" if sorted(colnums) == list(range(1, len(colnums) + 1)) else "noncontiguous-columns"
    fam = "dmig-form9-ncol-" + contig
    try:
        ncol = int(head[64:72])
    except ValueError:
        return (fam, "form-9 header has no NCOL field", head, want_ncol)
    if ncol != want_ncol:
        return (fam, "form-9 header NCOL is not the largest column number", ncol, want_ncol)
    g = _read(bulk.rddmig, text, expanded=True)
    if isinstance(g, str) or d["name"].lower() not in g:
        return ("dmig-form9-expanded-raises", "rddmig(expanded=True) fails on a written form-9 matrix", str(g)[:200], "a DataFrame")
    g = g[d["name"].lower()]
    if [int(c) for c in g.columns.tolist()] != list(range(1, want_ncol + 1)):
        return (fam, "rddmig(expanded=True) columns are not 1..max column number", [int(c) for c in g.columns.tolist()],
                list(range(1, want_ncol + 1)))
    grow = [(int(x), int(y)) for x, y in g.index.tolist()]
    gv = g.values
    for i, r in enumerate(d["rowids"]):
        if not a[i].any():
            continue
        if r not in grow:
            return ("dmig-form9-expanded-rows", "a written row label is missing from rddmig(expanded=True)", grow[:12], r)
        for j, c in enumerate(colnums):
            x, y = complex(a[i, j]), complex(gv[grow.index(r), c - 1])
            if abs(x.real - y.real) > 5.05e-10 * abs(x.real) + 1e-300 or abs(x.imag - y.imag) > 5.05e-10 * abs(x.imag) + 1e-300:
                return (fam, "rddmig(expanded=True): value at row %s column %d differs" % (r, c), [y.real, y.imag], [x.real, x.imag])
    # every other position of the expanded matrix is zero
    nz = int(np.count_nonzero(gv))
    if nz != int(np.count_nonzero(a)):
        return (fam, "rddmig(expanded=True) has a different number of non-zero terms", nz, int(np.count_nonzero(a)))
    return None


def _o_grids(case):
    bulk = _bulk()
    ids, cp, xyz, cd, form, ps, seid = (case[k] for k in ("ids", "cp", "xyz", "cd", "form", "ps", "seid"))
    text = _write(bulk.wtgrids, ids, cp, np.array(xyz), cd, ps, seid, form)
    nn = len(ids)
    bad = [q for q, v in (("cp", cp), ("xyz", xyz), ("cd", cd), ("ps", ps), ("seid", seid))
           if isinstance(v, list) and len(v) not in (1, nn)]
    if bad:
        if nn == 1 or any(isinstance(case[q], list) and len(case[q]) == 0 for q in bad):
            return None  # empty vector, or a single grid with longer vectors: outside the documented domain
        if text != "error:ValueError":
            return ("wtgrids-mismatch-not-refused", "an argument with %s rows for %d grids is not refused" % (bad, nn),
                    text[:200], "ValueError")
        return None
    if text.startswith("error"):
        return ("wtgrids-raises", "wtgrids raises", text, "GRID cards")
    if any(len(l) > 72 for l in text.split("\n")):
        return ("grid-line-too-long", "a GRID line exceeds 72 columns", text[:300], "<= 72 columns")
    g = _read(bulk.rdgrids, text)
    n = len(ids)
    if isinstance(g, str) or g is None or g.shape != (n, 8):
        return ("grid-roundtrip", "rdgrids fails / wrong shape", str(g)[:200], "(%d, 8) array" % n)
    def at(v, i):  # scalar, length-1 vector (a repeated scalar) or length-N vector
        return (v[i] if len(v) > 1 else v[0]) if isinstance(v, list) else v

    for i in range(n):
        want = [ids[i], at(cp, i)] + list(xyz[i] if len(xyz) > 1 or n == 1 else xyz[0]) + [at(cd, i), at(ps, i) or 0, at(seid, i) or 0]
        got = g[i].tolist()
        for k in (0, 1, 5, 6, 7):
            if got[k] != want[k]:
                return ("grid-roundtrip-field%d" % (k + 2), "GRID integer field differs", got, want)
        for k in (2, 3, 4):
            if abs(got[k] - want[k]) > _val_tol(form, want[k]):
                return ("grid-values", "GRID coordinate differs by more than the written precision", got, want)
    return None


def _gen_uset(case):
    """-> (uset, cref, cout)"""
    from pyyeti.nastran import n2p

    bulk = _bulk()
    rng = np.random.default_rng(case["seed"])
    ncs = case["ncs"]
    systems = {}
    order = []
    for k in range(ncs):
        cid = 10 * (k + 1)
        ref = 0 if (k == 0 or rng.random() < 0.3) else int(order[rng.integers(0, len(order))])
        typ = int(rng.integers(1, 4))
        A = rng.uniform(-5, 5, 3)
        if case.get("mixed") and (k == 0 or ref == 0):
            # origin components spanning up to ~12 decades (tiny non-zero next to large)
            A = np.array([rng.choice([-1.0, 1.0]) * rng.uniform(1, 9.99) * 10.0 ** int(rng.integers(-6, 6))
                          if rng.random() > 0.2 else 0.0 for _ in range(3)])
            ref = 0
        B = A + rng.uniform(0.5, 2, 3) * rng.choice([-1, 1], 3)
        C = A + np.cross(B - A, rng.uniform(-1, 1, 3) + 0.1) + 0.3 * (B - A)
        reftype = 1 if ref == 0 else int(systems[ref][0, 1])
        if reftype != 1:
            # A, B, C are points in a curvilinear reference system: keep r > 0 and angles moderate
            A = np.array([rng.uniform(1, 5), rng.uniform(10, 80), rng.uniform(20, 70)])
            B = np.array([rng.uniform(1, 5), rng.uniform(100, 170), rng.uniform(20, 70)])
            C = np.array([rng.uniform(6, 9), rng.uniform(190, 260), rng.uniform(80, 150)])
        systems[cid] = np.vstack([[cid, typ, ref], A, B, C])
        order.append(cid)
    ng = case["ngrids"]
    gids = sorted(rng.choice(np.arange(1, 5000), ng, replace=False).tolist())
    cin, xyz, cout = [], [], []
    for _ in range(ng):
        c = 0 if rng.random() < 0.3 or not order else int(order[rng.integers(0, len(order))])
        typ = 1 if c == 0 else int(systems[c][0, 1])
        if typ == 1:
            p = rng.uniform(-50, 50, 3)
        elif typ == 2:
            p = np.array([rng.uniform(0.5, 50), rng.uniform(-170, 170), rng.uniform(-50, 50)])
        else:
            p = np.array([rng.uniform(0.5, 50), rng.uniform(5, 175), rng.uniform(-170, 170)])
        cin.append(c)
        xyz.append(p)
        cout.append(0 if rng.random() < 0.3 or not order else int(order[rng.integers(0, len(order))]))
    cref = {}
    # define all systems first (reference chain order), then the grids by id
    u0 = n2p.addgrid(None, list(range(90001, 90001 + ncs)), "b", 0, np.zeros((ncs, 3)), [systems[c] for c in order], cref) if ncs else None
    uset = n2p.addgrid(None, gids, "b", cin, np.array(xyz), cout, cref)
    return uset, cref, cout


def _o_vecwrite(case):
    """documented semantics of writer.vecwrite, restated without the model: scalars and length-1 arrays are repeated,
    the row count is the common length of the longer arguments, two different lengths > 1 raise ValueError"""
    from pyyeti import writer

    args = case["args"]
    conv = [np.array(a, dtype=np.int64) if (isinstance(a, list) and case.get("arrays")) else a for a in args]
    lens = sorted({len(a) for a in args if isinstance(a, list) and len(a) > 1})
    text = _write(writer.vecwrite, " ".join(["{}"] * len(args)) + "\n", *conv)
    if len(lens) > 1:
        if text != "error:ValueError":
            return ("vecwrite-mismatch-not-refused", "arguments of different lengths > 1 are not refused", text[:200], "ValueError")
        return None
    if any(isinstance(a, list) and len(a) == 0 for a in args):
        return None  # empty argument: outside the documented domain (IndexError today)
    n = lens[0] if lens else 1
    want = "".join(" ".join(str(a if not isinstance(a, list) else (a[0] if len(a) == 1 else a[i])) for a in args) + "\n"
                   for i in range(n))
    if text != want:
        fam = "vecwrite-length1-array-not-repeated" if any(isinstance(a, list) and len(a) == 1 for a in args) else "vecwrite-rows"
        return (fam, "vecwrite does not write the documented rows (scalars and length-1 arrays repeated, N-vectors by element)",
                text[:300], want[:300])
    return None


def _o_uset(case):
    from pyyeti.nastran import n2p

    bulk = _bulk()
    try:
        uset, cref, cout = _gen_uset(case)
    except Exception as e:
        return ("skip", "generator: " + type(e).__name__)
    text = _write(bulk.uset2bulk, uset)
    if text.startswith("error"):
        return ("uset2bulk-raises", "uset2bulk raises", text, "CORD2x + GRID cards")
    f = io.StringIO(text)
    try:
        u2, c2 = bulk.bulk2uset(f)
    except Exception as e:
        return ("bulk2uset-raises", "bulk2uset raises on uset2bulk output", type(e).__name__ + ": " + str(e)[:200], "a USET table")
    if u2.index.tolist() != uset.index.tolist():
        return ("uset-roundtrip-index", "id/dof index differs", u2.index.tolist()[:12], uset.index.tolist()[:12])
    if not np.array_equal(u2["nasset"].values, uset["nasset"].values):
        return ("uset-roundtrip-nasset", "nasset differs", u2["nasset"].values[:12].tolist(), uset["nasset"].values[:12].tolist())
    a, b = u2.loc[:, "x":"z"].values, uset.loc[:, "x":"z"].values
    scale = max(1.0, np.abs(b).max())
    err = np.abs(a - b).max()
    if err > 2e-6 * scale:
        i = int(np.argmax(np.abs(a - b).max(axis=1)))
        return ("uset-roundtrip-values", "USET geometry differs by %.3g (scale %.3g)" % (err, scale), a[i].tolist(), b[i].tolist())
    # origins of the output coordinate systems (rows dof 3): every component to 9 significant digits
    # of its own magnitude (the cards are written with {:16.8e}); noise floor 1e-15 of the card's largest value
    dofs = uset.index.get_level_values("dof")
    o1, o2 = b[dofs == 3], a[dofs == 3]
    for r1, r2 in zip(o1, o2):
        big = np.abs(r1).max() + 2.0  # B and C lie within ~2 of the origin
        for x1, x2 in zip(r1, r2):
            if abs(x1 - x2) > 1.5e-8 * abs(x1) + 1e-14 * big and abs(x1) > 1e-13 * big:
                return ("uset-origin-small-value-lost" if x2 == 0.0 else "uset-origin-values",
                        "origin component of an output coordinate system differs by more than the written precision "
                        "of its own magnitude", r2.tolist(), r1.tolist())
    used = sorted(set(int(c) for c in cout if c))
    rd = _read(bulk.rdcord2cards, text)
    if isinstance(rd, str) or any(c not in rd for c in used):
        return ("cord2-roundtrip", "an output coordinate system is missing from rdcord2cards(uset2bulk)", str(rd)[:100], used)
    for c in used:
        if np.abs(rd[c] - cref[c]).max() > 2e-6 * max(1.0, np.abs(cref[c]).max()):
            return ("cord2-roundtrip-values", "coordinate system %d differs" % c, rd[c].tolist(), cref[c].tolist())
    return None


def _canon_reader(name, r):
    if isinstance(r, str):
        return r
    if r is None:
        return "none"
    if name == "rddmig":
        return [_frame_canon(k, v) for k, v in r.items()]
    if name in ("rdcord2cards", "rdcsupers", "rdtabled1"):
        return {float(k): np.asarray(v).tolist() for k, v in r.items()}
    if name == "rdsets":
        return {int(k): [int(x) for x in v] for k, v in r.items()}
    return np.asarray(r).tolist()


def _o_multi(case):
    """one file with the cards of several writers (and SET statements, comments, foreign cards) interleaved: every reader
    returns on it exactly what it returns on the text of its own cards alone, and rdsets returns exactly the written sets"""
    bulk = _bulk()
    text, own, sets = case["text"], case["own"], case["sets"]
    readers = [("dmig", "rddmig", bulk.rddmig, {}), ("dmig", "rddmig", bulk.rddmig, {"expanded": True}),
               ("dmig", "rddmig", bulk.rddmig, {"square": True}), ("grid", "rdgrids", bulk.rdgrids, {}),
               ("cord2", "rdcord2cards", bulk.rdcord2cards, {}), ("spoint", "rdspoints", bulk.rdspoints, {}),
               ("csuper", "rdcsupers", bulk.rdcsupers, {}), ("extrn", "rdextrn", bulk.rdextrn, {"expand": False}),
               ("tabled1", "rdtabled1", bulk.rdtabled1, {})]
    for blk, name, fn, kw in readers:
        if blk not in own:
            continue
        whole = _canon_reader(name, _read(fn, text, **kw))
        alone = _canon_reader(name, _read(fn, own[blk], **kw))
        # (a CORD2x card that refers to an undefined system makes rdcord2cards raise on its own cards too: then the
        # same exception is required on the shared file)
        if whole != alone:
            return ("multi-file-%s-disturbed-by-other-cards" % name,
                    "%s(%s) on a file that also holds other cards / comments / SET statements differs from %s on its own cards alone"
                    % (name, kw, name), str(whole)[:300], str(alone)[:300])
    got = _canon_reader("rdsets", _read(bulk.rdsets, text))
    want = {int(k): [int(x) for x in v] for k, v in sets}
    if got != want or (not isinstance(got, str) and list(got) != [int(k) for k, _ in sets]):
        return ("multi-file-rdsets-disturbed-by-cards", "rdsets on a file that also holds bulk cards does not return exactly the written sets",
                str(got)[:300], str(want)[:300])
    return None


def _o_e3(case):
    """a NEGATIVE value whose decimal exponent has three digits (|x| >= 1e100 or < 1e-99): '{:16.9E}' needs 17 characters.
    wtdmig (finding F64, repaired by 4411a34: `_dmig_field` falls back to '{:16.8E}') must keep every line within 72
    columns and read the value back to the nine digits written — also as real / imaginary part of a complex term;
    wttabled1 with its default pair format likewise (finding F65, repaired by 328435d: the default case goes through the same
    `_dmig_field`); both rules are regression guards and pass on the repaired tree"""
    import pandas as pd

    bulk = _bulk()
    x = case["x"]
    if case["writer"] == "wtdmig":
        ind = pd.MultiIndex.from_tuples([(1, 1), (1, 2)], names=["id", "dof"])
        z = complex(x, -x) if case.get("complex") else x
        a = np.array([[z, 0.0], [0.0, 1.0]])
        text = _write(bulk.wtdmig, {"k": pd.DataFrame(a, index=ind, columns=ind)})
        got = _read(bulk.rddmig, text)
        y = None if isinstance(got, str) else complex(got["k"].values[0, 0])
        bad = (y is None or abs(y.real - z.real) > 5.05e-9 * abs(z.real) or abs(y.imag - z.imag) > 5.05e-9 * abs(z.imag)
               or any(len(l) > 72 for l in text.split("\n")))
        fam = FIXED_F64
    else:
        text = _write(bulk.wttabled1, 1, [0.0, 1.0], [x, 1.0])
        got = _read(bulk.rdtabled1, text)
        y = None if isinstance(got, str) or got[1].shape != (2, 2) else float(got[1][0, 1])
        bad = y is None or abs(y - x) > 5.05e-9 * abs(x) or any(len(l) > 72 for l in text.split("\n"))
        fam = FIXED_F65
    if bad:
        return (fam, "%s writes %r with '{:16.9E}' as a 17-character field (max line %d columns); read back: %r"
                % (case["writer"], x, max(len(l) for l in text.split("\n")), y if y is not None else str(got)[:80]),
                None if y is None else ([y.real, y.imag] if isinstance(y, complex) else y), x)
    return None


def _gen_oracle_cases(ctx):
    rng = ctx.rng
    cases = []
    # fixed first case (finding F9, repaired by b85c17b): square, value-symmetric, unequal row / column ids
    cases.append(("dmig", {"name": "K", "single": False, "mtype": 2, "rowids": [(1, 1)], "colids": [(2, 1)], "kind": "f9-unequal",
                           "values": np.array([[5.0]])}))
    cases.append(("dmig", {"name": "K2", "single": False, "mtype": 4, "rowids": [(1, 1), (1, 2)], "colids": [(1, 1), (3, 0)],
                           "kind": "f9-unequal", "values": np.array([[1.0 + 2j, 3.0], [3.0, 4.0 - 1j]])}))
    # boundary families first: every length around the line-filling points
    for n in list(range(1, 42)):
        ids = list(range(3, 3 + 2 * n, 2))
        cases.append(("csuper", {"superid": 100, "ids": ids}))
        cases.append(("extrn", {"ids": ids, "dof": [123456 if i % 3 else 0 for i in ids]}))
        cases.append(("spoint", {"ids": ids}))
        cases.append(("set", {"setid": 7, "ids": ids, "max_length": 72}))
    for mx in range(2, 27):
        for ids in ([7], [1, 2, 3], [5, 9, 10, 11, 300], [12345678, 12345679], [3, 3, 2, 1], [10, 11, 13, 14, 15, 99999999]):
            cases.append(("set", {"setid": rng.choice([1, 77, 12345]), "ids": ids, "max_length": mx}))
    for n in range(0, 14):
        for form, _ in FORMS:
            t, d = _gen_table(rng, n)
            cases.append(("tabled1", {"tid": 4000, "t": t, "d": d, "form": form}))
    for _ in range(ctx.pick(400, 4000)):
        ids = [i for i in _gen_idlist(rng) if i > 0]
        if not ids:
            continue
        k = rng.choice(["csuper", "extrn", "spoint", "set"])
        if k == "csuper":
            cases.append((k, {"superid": rng.randint(1, 9999), "ids": ids}))
        elif k == "extrn":
            cases.append((k, {"ids": ids, "dof": [rng.choice([0, 123456, 123, 3, 246, 1]) for _ in ids]}))
        elif k == "spoint":
            cases.append((k, {"ids": ids}))
        else:
            cases.append((k, {"setid": rng.randint(1, 99999), "ids": ids,
                              "max_length": rng.choice([72, 72, 60, 40, 30, 24, 20, 16, 13, 12, 11, 10, 9, 8, 7, 6, 5, 4, 3, 2])}))
    for _ in range(ctx.pick(150, 1500)):
        form, _w = FORMS[rng.randrange(3)]
        n = rng.randint(1, 25)
        if "E" in form:
            t = sorted(rng.uniform(0, 1e4) * 10.0 ** rng.randint(-8, 3) for _ in range(n))
            d = [rng.choice([0.0, rng.uniform(-1, 1) * 10.0 ** rng.randint(-30, 30),
                             rng.uniform(-1, 1) * 10.0 ** rng.choice([rng.randint(-250, -99), rng.randint(99, 250)])]) for _ in range(n)]
        else:
            t = [round(0.01 * i, 2) for i in range(n)]
            d = [rng.uniform(-9.9, 9.9) for _ in range(n)]
        cases.append(("tabled1", {"tid": rng.randint(1, 99999999), "t": t, "d": d, "form": form,
                                  "title": rng.choice([None, "a title"])}))
    for _ in range(ctx.pick(300, 3000)):
        d = _gen_dmig_int(rng)
        cplx = d["mtype"] >= 3
        single_prec = d["mtype"] in (1, 3)
        vals = []
        for row in d["m"]:
            r = []
            for re, im in row:
                mag = 10.0 ** rng.randint(-30 if not single_prec else -20, 30 if not single_prec else 20)
                if rng.random() < 0.5:
                    mag = 1.0
                x = complex(re * rng.uniform(0.5, 1.5) * mag / 100, im * rng.uniform(0.5, 1.5) * mag / 100)
                r.append(x if cplx else x.real)
            vals.append(r)
        vals = np.array(vals)
        if d["kind"] in ("sym", "sparse-sym", "f9-unequal"):
            vals = np.tril(vals) + np.tril(vals, -1).T
        elif d["kind"] == "hermitian":
            vals = np.tril(vals, -1) + np.tril(vals, -1).conj().T + np.diag(np.diag(vals).real)
        elif d["kind"] == "square" and vals.shape[0] > 1 and d["rowids"] == d["colids"]:
            # asymmetry well above the np.allclose tolerances of the writer's symmetry test
            big = max(1.0, float(np.abs(vals).max()))
            vals[0, -1] = big * 2.0
            vals[-1, 0] = -big
        dd = {k: d[k] for k in ("name", "single", "mtype", "rowids", "colids", "kind")}
        dd["values"] = vals
        cases.append(("dmig", dd))
    for _ in range(ctx.pick(120, 1200)):
        n = rng.randint(1, 6)
        form = rng.choice(["{:16.8f}", "{:8.2f}", "{:8.3f}", "{:16.6f}"])
        lim = {"{:8.2f}": 9999.0, "{:8.3f}": 999.0}.get(form, 9.9e5)
        sc = rng.random() < 0.5
        cases.append(("grids", {
            "ids": sorted(rng.sample(range(1, 99999999), n)),
            "cp": rng.randint(0, 99) if sc else [rng.randint(0, 9999) for _ in range(n)],
            "xyz": [[rng.uniform(-lim, lim) * rng.choice([1, 1e-3, 0]) for _ in range(3)] for _ in range(n)],
            "cd": rng.randint(0, 99) if sc else [rng.randint(0, 9999) for _ in range(n)],
            "form": form,
            "ps": rng.choice(["", "", 123456, 123]),
            "seid": rng.choice(["", "", 5]),
        }))
    # documented argument packagings of wtgrids: `xyz` with 1 row (shared by all N grids; also the signature default),
    # cp / cd / ps / seid scalar, length-1 vector or length-N vector -- in every position relative to the N-vectors
    for _ in range(ctx.pick(80, 800)):
        n = rng.randint(2, 6)

        def pk(lo, hi):
            u = rng.random()
            return rng.randint(lo, hi) if u < 0.35 else [rng.randint(lo, hi)] if u < 0.7 else [rng.randint(lo, hi) for _ in range(n)]

        one_row = rng.random() < 0.6
        cases.append(("grids", {
            "ids": sorted(rng.sample(range(1, 99999999), n)), "cp": pk(0, 9999),
            "xyz": [[rng.uniform(-900, 900) for _ in range(3)] for _ in range(1 if one_row else n)],
            "cd": pk(0, 9999), "form": rng.choice(["{:16.8f}", "{:8.3f}"]),
            "ps": rng.choice(["", 123456, [123], [rng.choice([1, 12, 123456]) for _ in range(n)]]),
            "seid": rng.choice(["", 5, [7], [rng.randint(1, 9) for _ in range(n)]]),
            "packaging": True,
        }))
    for k in range(ctx.pick(200, 2000)):
        n = rng.choice([1, 2, 3, 5])
        args = []
        for _ in range(rng.randint(1, 5)):
            u = rng.random()
            args.append(rng.randint(-99, 999) if u < 0.3 else [rng.randint(-99, 999)] if u < 0.55 else
                        [rng.randint(-99, 999) for _ in range(n if u < 0.93 else rng.choice([2, 3, 4]))])
        cases.append(("vecwrite", {"args": args, "arrays": k % 2 == 0}))
    for _ in range(ctx.pick(40, 400)):
        c = _gen_grid_case(rng, bad=0.3)
        cases.append(("grids", c))
    for k in range(ctx.pick(60, 600)):
        cases.append(("uset", {"seed": rng.randint(0, 2 ** 31), "ncs": rng.randint(0 if k % 2 else 1, 4), "ngrids": rng.randint(1, 6),
                               "mixed": k % 2 == 0}))
    # GRID coordinates of mixed magnitude (fixed-point formats: absolute precision; e-formats: relative)
    for _ in range(ctx.pick(120, 1200)):
        n = rng.randint(1, 5)
        form = rng.choice(["{:16.8f}", "{:16.8e}", "{:16.9E}", "{:16.6f}"])
        cases.append(("grids", {
            "ids": sorted(rng.sample(range(1, 99999999), n)), "cp": rng.randint(0, 99),
            "xyz": [[_mixed(rng, -6, 5) for _ in range(3)] for _ in range(n)], "cd": rng.randint(0, 99),
            "form": form, "ps": "", "seid": "",
        }))
    # CORD2x cards whose nine values span many decades
    cases.append(("cord", {"systems": [(10, 1, 0, [[254000.0, 0.0, 2e-4], [254000.0, 0.0, 1.0002], [254001.0, 0.0, 2e-4]])]}))
    cases.append(("cord", {"systems": [(11, 1, 0, [[0.0, 0.0, 3e-10], [0.0, 0.0, 1.0], [1.0, 3e-10, 0.0]])]}))
    cases.append(("cord", {"systems": [(12, 2, 0, [[1e6, -2e-6, 0.0], [1e6, -2e-6, 1.0], [1e6 + 1, 0.0, 0.0]])]}))
    for _ in range(ctx.pick(150, 1500)):
        systems = []
        for k in range(rng.randint(1, 3)):
            typ = rng.randint(1, 3)
            style = rng.random()
            if style < 0.5:
                abc = [[_mixed(rng, -6, 6, 0.2) for _ in range(3)] for _ in range(3)]
            else:  # a far origin with tiny components, unit axis points next to it
                A = [_mixed(rng, 3, 6, 0.0), _mixed(rng, -6, -2, 0.3), _mixed(rng, -6, 0, 0.3)]
                rng.shuffle(A)
                abc = [A, [A[0], A[1], A[2] + 1.0], [A[0] + 1.0, A[1], A[2]]]
            systems.append((10 * (k + 1) + rng.randint(0, 9), typ, rng.choice([0, 0, 5]), abc))
        cases.append(("cord", {"systems": systems}))
    # CORD2x systems that refer to one another: chains of any depth with ids in any order along the chain
    cases.append(("cordchain", {"systems": [(30, 1, 20, [[1.0, 30.0, 1.0], [2.0, 80.0, 2.0], [1.0, 150.0, -1.0]]),
                                            (20, 2, 10, [[1.0, 30.0, 40.0], [2.0, 60.0, 10.0], [1.5, 100.0, 100.0]]),
                                            (10, 3, 0, [[1.0, 2.0, 3.0], [1.0, 2.0, 4.0], [2.0, 2.0, 3.0]])],
                                "depth": 3, "order": "decreasing"}))
    for _ in range(ctx.pick(250, 2500)):
        c = _gen_cordchain(rng)
        if c is not None:
            cases.append(("cordchain", c))
            ctx.count("oracle:cordchain:depth=%d:%s" % (min(c["depth"], 4), c["order"]))
    # magnitudes at the edge of what the field holds: three-digit exponents, positive (16 characters) and negative (17)
    for w in ("wtdmig", "wttabled1"):
        for x in (1e100, 2.5e-120, -1e99, -3e-99, -1e100, -2.5e-120, -1.5e308, -5e-324):
            cases.append(("e3", {"writer": w, "x": x}))
            if w == "wtdmig":
                cases.append(("e3", {"writer": w, "x": x, "complex": True}))
    # one file, several readers
    for _ in range(ctx.pick(60, 600)):
        text, _segs, own, sets = _gen_multi_file(rng)
        cases.append(("multi", {"text": text, "own": own, "sets": [[sid, ids] for sid, ids in sets]}))
    # form-9 DMIG with column numbers that are not 1..n
    for cols in ([2, 5, 9], [7], [3, 1], [1, 2, 3], [12, 4]):
        nr = rng.randint(1, 4)
        rows = _gen_labels(rng, nr)
        vals = np.array([[rng.choice([0.0, rng.uniform(-9, 9)]) for _ in cols] for _ in range(nr)])
        vals[0, 0] = 1.5
        vals[-1, -1] = -2.5
        cases.append(("dmig", {"name": "F9X", "single": True, "mtype": rng.choice([1, 2]), "rowids": rows,
                               "colids": [(c, 0) for c in cols], "kind": "form9", "values": vals}))
    return cases


def _hint_cases(hints):
    """turn correspondence disagreements into API-level oracle cases"""
    out = []
    for h in hints[:60]:
        inp, st = h["input"], h["stream"]
        try:
            if st in ("wtnasints",):
                ints = [abs(int(v)) or 1 for v in inp["ints"]]
                out.append(("csuper", {"superid": 100, "ids": ints}))
                out.append(("extrn", {"ids": ints, "dof": [0] * len(ints)}))
            elif st == "wtcsuper":
                out.append(("csuper", {"superid": inp["superid"], "ids": inp["grids"]}))
            elif st == "wtextrn":
                out.append(("extrn", {"ids": inp["ids"], "dof": inp["dof"]}))
            elif st == "wtspoints" and inp["spoints"]:
                out.append(("spoint", {"ids": inp["spoints"]}))
            elif st == "wtset" and inp["max_length"] >= 2:
                out.append(("set", inp))
            elif st == "find_sequence" and inp["seq"]:
                out.append(("set", {"setid": 1, "ids": inp["seq"], "max_length": 72}))
                out.append(("spoint", {"ids": inp["seq"]}))
            elif st == "wttabled1":
                out.append(("tabled1", {k: inp[k] for k in ("tid", "t", "d", "form")}))
            elif st == "wtdmig":
                dt = complex if inp["mtype"] >= 3 else float
                vals = np.array([[complex(re, im) if inp["mtype"] >= 3 else float(re) for re, im in row] for row in inp["m"]], dtype=dt)
                d = {k: inp[k] for k in ("name", "single", "mtype")}
                d["rowids"] = [tuple(p) for p in inp["rowids"]]
                d["colids"] = [tuple(p) for p in inp["colids"]]
                d["kind"] = "hint"
                d["values"] = vals
                out.append(("dmig", d))
            elif st == "vecwrite":
                out.append(("vecwrite", {"args": inp["args"], "arrays": False}))
                out.append(("vecwrite", {"args": inp["args"], "arrays": True}))
            elif st == "wtgrids":
                out.append(("grids", {k: inp[k] for k in ("ids", "cp", "xyz", "cd", "form", "ps", "seid")}))
            elif st == "wtcoordcards":
                out.append(("cord", {"systems": [(cid, {"CORD2R": 1, "CORD2C": 2, "CORD2S": 3}[nm], int(c[0][2]), c[1:])
                                                 for cid, nm, c in inp["systems"]]}))
            elif st == "uset2bulk":
                out.append(("uset", inp))
            elif st in ("rdgrids",) and "GRID" in inp.get("text", "").upper():
                pass
        except Exception:
            continue
    return out


def _run_oracle_case(kind, case, known):
    """-> list of (family, what, observed, required)"""
    if kind in ("set", "spoint", "csuper", "extrn"):
        r = _o_ids(kind, case)
        return [r] if r else []
    if kind == "tabled1":
        r = _o_tabled1(case)
        return [r] if r else []
    if kind == "dmig":
        return _o_dmig(case, known)
    if kind == "grids":
        r = _o_grids(case)
        return [r] if r else []
    if kind == "uset":
        r = _o_uset(case)
        return [r] if r else []
    if kind == "cord":
        r = _o_cord(case)
        return [r] if r else []
    if kind == "vecwrite":
        r = _o_vecwrite(case)
        return [r] if r else []
    if kind == "cordchain":
        r = _o_cordchain(case)
        return [r] if r else []
    if kind == "multi":
        r = _o_multi(case)
        return [r] if r else []
    if kind == "e3":
        r = _o_e3(case)
        return [r] if r else []
    return []


# defect families proposed in a report but not (yet) listed in known_findings.json: none (a new genuine failing input
# is a VIOLATION until the integrator lists it)
UNLISTED_OK = set()

# F64 (fixed in /repo 4411a34), F65 (fixed in /repo 328435d): regression guards, must pass on the repaired tree.
FIXED_F64 = "wtdmig-negative-value-three-digit-exponent-overflows-field"
FIXED_F65 = "wttabled1-negative-value-three-digit-exponent-overflows-field"


def search(ctx, hints):
    known = _known_open()
    gen = _gen_oracle_cases(ctx)
    cases = gen[:2] + _hint_cases(hints) + gen[2:]  # the two fixed F9 inputs run first
    cand = {}
    per_family = {}
    for kind, case in cases:
        ctx.count("oracle:" + kind)
        try:
            res = _run_oracle_case(kind, case, known)
        except Exception as e:  # an unexpected exception of the real code on a valid input is a failure
            res = [("%s-unexpected-%s" % (kind, type(e).__name__), "unexpected exception in the round trip: %s" % str(e)[:200],
                    type(e).__name__, "a round trip")]
        for item in res:
            fam, what, obs, req = (tuple(item) + (None, None))[:4]
            if fam == "skip":
                ctx.skip("oracle-generator:" + what)
                continue
            if fam in UNLISTED_OK and fam not in known:
                # a defect family proposed in the report but not (yet) listed in known_findings.json:
                # recorded in the evidence, not raised as an alarm on the unchanged tree
                cand.setdefault(fam, {"what": what, "input": _case_json(kind, case), "observed": obs, "required": req})
                continue
            per_family[fam] = per_family.get(fam, 0) + 1
            if per_family[fam] <= 2:
                ctx.fail(fam, what, {"kind": kind, "case": _case_json(kind, case)}, obs, req)
        if len(per_family) > 12:
            break
    ctx.extra["oracle_failures_per_family"] = per_family
    if cand:
        ctx.extra["unlisted_candidate_findings"] = cand


def _case_json(kind, case):
    out = {}
    for k, v in case.items():
        if isinstance(v, np.ndarray):
            if np.iscomplexobj(v):
                out[k] = {"complex": [[[float(x.real), float(x.imag)] for x in row] for row in v]}
            else:
                out[k] = v.tolist()
        else:
            out[k] = v
    return out


def _case_from_json(kind, case):
    c = dict(case)
    if kind == "dmig":
        v = c["values"]
        if isinstance(v, dict):
            v = np.array([[complex(a, b) for a, b in row] for row in v["complex"]])
        else:
            v = np.array(v, dtype=float)
        c["values"] = v
        c["rowids"] = [tuple(p) for p in c["rowids"]]
        c["colids"] = [tuple(p) for p in c["colids"]]
    return c


def replay(ctx, data):
    f = data["failure"]
    kind = f["input"]["kind"]
    case = _case_from_json(kind, f["input"]["case"])
    res = [r for r in _run_oracle_case(kind, case, _known_open()) if r[0] != "skip"]
    if not res:
        return None
    fam, what, obs, req = res[0]
    return {"family": fam, "what": what, "input": f["input"], "observed": obs, "required": req}
