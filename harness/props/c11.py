"""C11 — readers decode every OUTPUT4/OUTPUT2 variant; listings match reads (DESIGN.md section 6/C11).

Tie: the encoders of lean/PyYetiVerif/Model/Op4Variants.lean and Model/Op2.lean (written from the
record formats, no pyYeti code) produce files for logical contents drawn by this harness; the bytes
are written to scratch files and read by pyyeti.nastran.op4.load/dir (three sparse modes, named
subsets) and pyyeti.nastran.op2.OP2(...).directory()/rdop2mats()/rdop2nt()/rdop2matrix()/
rdop2record(); the results must equal the encoded logical content exactly (bit patterns, names,
sizes, forms, types, byte positions, trailers, table headers, records).

Model-free oracle (search / replay): the same logical contents encoded by a small independent
Python encoder (struct.pack only), plus consistency of listings and reads on the sample files
shipped in pyyeti/tests.
"""
import glob
import json
import os
import shutil
import struct
import sys
import tempfile
import warnings

import numpy as np
import scipy.sparse as sp

import runner as _runner

_main = sys.modules.get("__main__")
TieBroken = getattr(_main, "TieBroken", _runner.TieBroken)
Infra = getattr(_main, "Infra", _runner.Infra)

ID = "C11"
LEAN_MODULES = ["PyYetiVerif.Props.C11", "PyYetiVerif.Props.C11b", "PyYetiVerif.Props.C11c", "PyYetiVerif.Props.C11d",
                "PyYetiVerif.Props.C11e", "PyYetiVerif.Audit.C11"]
AUDIT_FILE = "PyYetiVerif/Audit/C11.lean"
THEOREMS = [
    "PyYetiVerif.C11." + n
    for n in (
        "op4_variant_roundtrip_bigmat op4_variant_roundtrip_nonbigmat partition_irrelevant "
        "real_codecs put_reals_spec skip_positions dir_matches_load "
        "op2_int_roundtrip op2_key_roundtrip op2_header_roundtrip op2_nt_roundtrip op2_matrix_roundtrip "
        "op2_partition_irrelevant op2_cutoff_irrelevant op2_skip_positions op2_skip_record op2_table_roundtrip "
        "op2_open_detects op2_dir_matches_read op2_roundtrip op2_skip_positions_general op2_skip_record_general "
        "op2_goto_next "
        # Props/C11b: the binary OUTPUT4 reader, every variant
        "op4_variant_file_roundtrip skip_positions_variants dir_matches_load_variants namelist_test_exact "
        "named_subset_is_filter_binary op4_cutoff_paths_agree op4_cutoff_irrelevant_enc op4_cutoff_irrelevant "
        "op4_variant_dense_matrix mem_puts_iff dct_keeps_last namelist_is_filter "
        # Props/C11c: ASCII OUTPUT4, on every text the reader accepts
        "skip_positions_ascii dir_is_iterated_skip dir_matches_load_ascii named_subset_is_filter_ascii "
        "dir_matches_load_ascii_written "
        # Props/C11d: rdop2record(form, N), rdop2tabheaders with short pieces
        "rdRecord_form_consistent "
        "rdRecord_N_irrelevant op2_tabheaders_any_pieces op2_tabheader_prefix "
        # Props/C11e: rdop2mats(names, which)
        "op2_name_test_exact op2_has_match_any op2_named_subset_is_filter op2_which_indexing op2_which_occurrence"
    ).split()
]
TRUSTED = [
    "correspondence harness harness/props/c11.py (exact comparison of decoded content with the encoded logical content; "
    "exact comparison of the Lean reader models' dumps with what pyYeti's readers return / raise)",
    "Model/Op2Read.lean, Model/Op2ReadForms.lean (op2.py) and Model/Op4VariantsRead.lean, Model/Op4VariantsAscii.lean (op4.py) are "
    "hand transcriptions (no translator; the literals 65536 / 3000 / 16 come from Generated/Op4Consts.lean): their agreement with the "
    "code is what the rd2 / rd4 / rda / rec2 / mats2 streams check on generated files, on EVERY sample file of pyyeti/tests (31 "
    "*.op2, 82 *.op4 written by Nastran and others; ASCII ones through C04's reader model) and on truncated / mis-announced / "
    "ill-formed files; the file position is modelled as the list of bytes still ahead (tell = total - remaining; a seek beyond the "
    "end is always followed by a read that raises, argued in the models' headers, not proved)",
    "the record grammar of OUTPUT2 is the one pyYeti's reader defines (no Nastran specification offline); OUTPUT4 "
    "variants as in the sample files of pyyeti/tests",
    "CPython float() for the expected value of an ASCII field; numpy float32 -> float64 conversion; numpy slice assignment "
    "(clipping, one-value broadcast) and scipy's COO constructor as modelled by assignCol / the driver; little-endian host",
]
RULE = (
    "a case is one file built from a logical content: OUTPUT4 binary (byte order x 32/64-bit keys x single/double x "
    "dense/bigmat/nonbigmat x real/complex, 1..7 matrices per file whose NAMES REPEAT anywhere (kaa, maa, kaa, pha, pha) in half of "
    "the multi-matrix files, each read with every distinct name singly (string and one-element list) and a two-name list in list mode "
    "(every occurrence, file order) and through read() (last occurrence); strings split at arbitrary places incl. adjacent and length-1 strings, "
    "zeros inside strings, negative row counts, strings on both sides of the 3000-value cut-off, row counts 65535 / "
    "65536 / 65537 with positive and negative NR), OUTPUT4 ASCII (E or D exponents, perline 1..5, widths 12..26, "
    "with/without 1P, lower case), OUTPUT2 (byte order x key width, matrix blocks single/double real/complex with split "
    "columns, strings of 2999/3000/3001 and more reals, table blocks with super-records whose pieces have 2999/3000/"
    "3001/5000 keys in first and later positions); each file is read in all modes and listed. Reader-model streams: rd2 "
    "(Model/Op2Read.lean) as before; rd4 (Model/Op4VariantsRead.lean): every generated binary OUTPUT4 file (model = content, three "
    "sparse modes + dir), every binary *.op4 under pyyeti/tests (model = pyYeti), name lists (a name, a proper prefix of a name, an "
    "upper-case name, unknown names, several names; list and dict mode), other values of _rowsCutoff (0, 1, 2, 7, 2999, 3001, 1e9) on "
    "both sides, truncated files and contents violating one well-formedness hypothesis (string too long, one value beyond the "
    "column, odd complex count) - same result or same exception class; ASCII: every ASCII *.op4 under pyyeti/tests and the "
    "generated variant files through C04's ASCII reader model (three modes + dir), the name-list loop (rda); rec2 "
    "(Model/Op2ReadForms.lean): rdop2record with every form x N in {0, count, count-1, count+2, 1} x cut-offs at record starts and "
    "at the end-of-table key, incl. pieces whose byte length is not a multiple of the item width; mats2: rdop2mats with names "
    "(plain, lower case, trailing *, '*', an empty pattern, unknown) x which in {-1, 0, 1, -2, 5, 'all'} on files with repeated "
    "names; non-trivial = some column has at least two strings or some record is split, every reader-model case; distinct by the "
    "logical content and variant / by the bytes and the call"
)
ASSUMPTIONS = [
    "strings of one column do not overlap (adjacent is allowed) in the generated cases (the theorems allow overlap: "
    "IsPartition / PutOk + covers); values are finite and not -0.0",
    "table record pieces have at least three keys in the generated well-formed cases; fewer keys are exercised in the "
    "malformed-content stream and covered by op2_tabheaders_any_pieces",
    "OUTPUT2 matrices have at least one column (hypothesis cols != [] of the theorems: with no column the encoder writes "
    "no column trailer and the do-while of rdop2matrix misreads the next block)",
    "behaviour outside the reader models (Err.exotic: backward seek, non-ASCII header / name text, allocation of >= 2^31 bytes from "
    "a garbage key, a put with a negative row or column, rdop2record with N larger than the record = uninitialised memory, "
    "rdop2mats(names=[]) = StopIteration) is skipped and counted, only on malformed files / ill-posed calls",
    "on a truncated binary OUTPUT4 file the reader model reports struct.error (the short read) also where pyYeti raises ValueError / "
    "IndexError a moment earlier because the put of a complex string cut to an odd number of reals fails first (the model applies the "
    "puts after the read); counted as rd4:truncated-put-raises-before-the-short-read, both sides raise",
    "op4 sample files with a matrix of more than 2e7 elements are read sparsely only (both sides); in the quick tier sample files "
    "above 400 kB (op4) / 3 MB (op2) are left to the thorough tier",
]
PARTIAL = (
    "proved (Lean), new in this extension: OUTPUT4 binary - Model/Op4VariantsRead.lean transcribes _op4open_read/_decode_format, "
    "_loadop4_binary, _get_funcs, _rd_dense/_bigmat/_nonbigmat_binary, _skipop4_binary, _check_name and the listload/dir loops "
    "generically over (byte order, key width, precision, _rowsCutoff): op4_variant_file_roundtrip (EVERY variant, every admissible "
    "list of matrices, every partition: the reader returns exactly the encoded strings, names, header integers, chosen reader, "
    "sparse=None resolution), op4_variant_dense_matrix (the puts rebuild the partitioned matrix for any partition), "
    "skip_positions_variants, dir_matches_load_variants, named_subset_is_filter_binary + namelist_test_exact (exact membership), "
    "dct_keeps_last, op4_cutoff_irrelevant (on EVERY byte string: success with one cut-off = same success with any other) + "
    "op4_cutoff_paths_agree. OUTPUT4 ASCII (on C04's reader model, no encoder: on EVERY text on which the read succeeds): "
    "skip_positions_ascii, dir_matches_load_ascii, named_subset_is_filter_ascii, dir_matches_load_ascii_written. OUTPUT2: "
    "rdRecord_form_consistent (all forms decode the same payload bytes; int/uint/single/double/bytes, both cut-off paths), "
    "rdRecord_N_irrelevant, op2_tabheaders_any_pieces (pieces of 1 or 2 keys: what is reported), op2_named_subset_is_filter + "
    "op2_name_test_exact (exact match unless the pattern ends in *; patterns are upper-cased, names are not), op2_which_indexing, "
    "op2_which_occurrence. STILL NOT PROVED: (1) the step from the reader models to op4.py / op2.py is a checked correspondence "
    "(hand transcriptions), not a proof; (2) the binary OUTPUT4 skip / dir / named theorems are stated on encoded files (a general "
    "'aligned record lengths' form as for OUTPUT2 is not stated; the cut-off theorem IS general); (3) a round trip for ASCII files "
    "in the variants the writer never produces (D exponents, other nEw.d) is not proved - C04 proves it for the writer's files; the "
    "variant files are read by the ASCII reader model and pyYeti with equal results (stream asc:generated); (4) [closed: form 'uint' "
    "with 64-bit keys holds at full strength since the repair of F50, pyYeti b194dbc]; (5) dict mode: the value per key is proved "
    "(last occurrence), the key ORDER (first appearance) only checked by correspondence; the COO view (cooOfPuts, the 1j*y sign "
    "quirk) and numpy's slice semantics on ill-formed puts (assignCol) are model definitions checked by correspondence; "
    "(6) rdop2record on arbitrary bytes (no encoder) and rdop2mats(lower=True / header tuples / names=[]) are not treated; "
    "next_db_info's bisect is modelled as 'first block starting after the position' (equal for increasing starts); a converse of the "
    "general skip theorems does not hold (shape errors) and is not stated"
)
MANIFEST = {
    "level_text": "Proof (Lean 4) about transcriptions of pyYeti's readers. OUTPUT4 binary, generic over byte order, 32/64-bit keys, "
    "single/double precision and the struct/fromfile cut-off: the reader inverts an independent encoder for every variant, layout "
    "and partition of the columns into strings (file round trip; the dense matrix is rebuilt for any partition); the skipper ends "
    "where the reader ends; dir lists what load returns; a named read is the filter of the full read by exact name membership (list "
    "mode keeps all occurrences, dict mode the last); the result never depends on _rowsCutoff (proved on every byte string). OUTPUT4 "
    "ASCII, on every text the reader accepts: _skipop4_ascii consumes the lines the reader consumes, dir = load, named read = filter. "
    "OUTPUT2: the readers invert an independent encoder (both key widths, byte orders, precisions, any string partition and record "
    "split); skipping = reading; directory byte ranges; rdop2record decodes the same bytes in every form, N is only a size hint, "
    "rdop2tabheaders on pieces of 1-2 keys; rdop2mats(names, which) = filter by 'exact match unless the pattern ends in *' of the "
    "occurrences `which` picks. Plus exact correspondence of every reader model with pyYeti on generated files, on all 113 sample "
    "files of pyyeti/tests and on truncated / ill-formed files.",
    "level_note": "Partial: the reader models are tied to op4.py / op2.py by differential checking (hand transcriptions, no "
    "translator); OUTPUT4 binary skip/dir/named theorems are about encoded files; ASCII variant round trip (D exponents, other "
    "widths) by correspondence only; finding F50 (rdop2record 'uint' with 64-bit keys, repaired in b194dbc) is guarded by a fixed "
    "oracle case and the rec2 stream. The OUTPUT2 layout is the one pyYeti's reader defines. Trusted: Lean kernel, standard axioms, the "
    "Python harness.",
    "technique": "Lean 4 proof (induction over strings / pieces / columns / records / matrices with fuel-indexed loops, byte-level "
    "two's-complement lemmas, simulation proofs skipper-vs-reader and cutoff-vs-cutoff on arbitrary inputs) + independent Lean "
    "encoders read by the real readers + Lean reader models run on real, generated and malformed files",
}

# ---------------------------------------------------------------------------------------------


def translate(ctx):
    """the OUTPUT4 model shared with C04 is built on Generated/Op4Consts.lean: regenerate it here too"""
    from translate import c04_op4consts as tr

    try:
        ctx.extra["op4_consts"] = tr.run(ctx.repo, ctx.lean)
    except tr.Unparsable as e:
        raise TieBroken("op4.py constants: %s" % e)
    return ["Op4Consts"]


def _op4():
    from pyyeti.nastran import op4

    return op4


def _op2():
    from pyyeti.nastran import op2

    return op2


class _Scratch:
    def __init__(self):
        os.makedirs("/tmp/C11", exist_ok=True)
        self.d = tempfile.mkdtemp(prefix="run_", dir="/tmp/C11")
        self.n = 0

    def path(self, ext=".op4"):
        self.n += 1
        return os.path.join(self.d, "f%d%s" % (self.n, ext))

    def close(self):
        shutil.rmtree(self.d, ignore_errors=True)
        try:
            os.rmdir("/tmp/C11")
        except OSError:
            pass




class _TimeLimit:
    """a mutated reader can loop for ever (e.g. a negative record length seeks backwards): bound every call
    into pyYeti; the timeout surfaces as an ordinary exception of the call"""

    def __init__(self, seconds):
        self.seconds = seconds

    def _handler(self, signum, frame):
        raise TimeoutError("pyYeti call exceeded %d s" % self.seconds)

    def __enter__(self):
        import signal

        self._old = signal.signal(signal.SIGALRM, self._handler)
        signal.setitimer(signal.ITIMER_REAL, self.seconds)

    def __exit__(self, *a):
        import signal

        signal.setitimer(signal.ITIMER_REAL, 0)
        signal.signal(signal.SIGALRM, self._old)
        return False

FIRST = "abcdefghijklmnopqrstuvwxyzABCDEFGHIJKLMNOPQRSTUVWXYZ"
REST = FIRST + "0123456789_"


def _name(rng, n=None):
    n = n or rng.randint(1, 8)
    return rng.choice(FIRST) + "".join(rng.choice(REST) for _ in range(n - 1))


def _f64bits(x):
    return struct.unpack("<Q", struct.pack("<d", x))[0]


def _f32bits(x):
    return struct.unpack("<I", struct.pack("<f", x))[0]


def _val(rng, single):
    k = rng.random()
    if k < 0.12:
        return 0.0  # a zero stored inside a string
    if k < 0.5:
        v = float(rng.randint(-50, 50)) / rng.choice([1, 2, 4, 8, 1024])
    elif single:
        v = float(np.float32(rng.gauss(0, 1) * 10.0 ** rng.randint(-20, 20)))
    else:
        v = rng.gauss(0, 1) * 10.0 ** rng.randint(-200, 200)
    if single:
        v = float(np.float32(v))
    return v + 0.0


def _partition(rng, rows, single_string=False, big=False):
    """non-overlapping strings (r0, length) inside [0, rows), ascending"""
    out = []
    if rows == 0:
        return out
    if single_string:
        r0 = rng.randrange(rows)
        return [(r0, rng.randint(1, rows - r0))]
    i = rng.randint(0, min(3, rows - 1)) if not big else 0
    while i < rows:
        L = rng.choice([1, 1, 2, 3, 5, rows]) if not big else rng.choice([2999, 3000, 3001, 10])
        L = max(1, min(L, rows - i))
        out.append((i, L))
        i += L + rng.choice([0, 0, 1, 2, 4])  # 0 = adjacent strings
        if rng.random() < 0.15:
            break
    return out


def _gen_mat(rng, single, lay=None, big=False):
    lay = lay or rng.choice(["d", "b", "n"])
    cplx = rng.random() < 0.35
    rows = rng.choice([3100, 6500]) if big else rng.choice([1, 2, 3, 5, 8, 12, 30])
    ncols = rng.choice([1, 2]) if big else rng.choice([0, 1, 2, 3, 5])
    cols = []
    for c in range(ncols):
        if rng.random() < 0.25:
            continue
        part = _partition(rng, rows, single_string=(lay == "d"), big=big and c == 0)
        strs = []
        for r0, L in part:
            vals = [_val(rng, single) for _ in range(L * (2 if cplx else 1))]
            strs.append((r0, vals))
        if strs:
            cols.append((c, strs))
    neg = (lay == "b") or (lay == "d" and rng.random() < 0.2)
    return {"name": _name(rng), "form": rng.choice([1, 2, 6, 3, 9]), "cplx": cplx, "rows": rows, "ncols": ncols,
            "lay": lay, "neg": neg, "cols": cols}


_ROWS4BIGMAT = 65536  # OP4._rows4bigmat (Generated/Op4Consts.lean: rows4bigmat); cases at -1, 0, +1


def _gen_boundary_mat(rng, single, rows, lay, neg, ascii_vals=None):
    """a cheap matrix whose row count sits on the bigmat threshold: 1-2 columns, a few short strings, one of
    them touching the last row"""
    cplx = rng.random() < 0.3
    ncols = rng.choice([1, 2])
    cols = []
    for c in range(ncols):
        if lay == "d":
            r0 = rng.choice([0, rows - 3, rng.randrange(rows - 3)])
            part = [(r0, rng.randint(1, min(3, rows - r0)))]
        else:
            starts = sorted({rng.randrange(0, rows - 8), rows - rng.randint(1, 3), rng.choice([0, 65534, 65535 - 3])})
            part = []
            for r0 in starts:
                if part and r0 < part[-1][0] + part[-1][1]:
                    continue
                part.append((r0, rng.randint(1, min(3, rows - r0))))
        strs = []
        for r0, L in part:
            n = L * (2 if cplx else 1)
            vals = [ascii_vals(rng) for _ in range(n)] if ascii_vals else [_val(rng, single) or 1.0 for _ in range(n)]
            strs.append((r0, vals))
        cols.append((c, strs))
    return {"name": _name(rng), "form": rng.choice([1, 2, 6]), "cplx": cplx, "rows": rows, "ncols": ncols,
            "lay": lay, "neg": neg, "cols": cols}


def _boundary_layouts():
    """(rows, layout, negative NR) that a correct file can have around the threshold: positive NR with the
    sparse (irow = 0) column format means nonbigmat below 65536 rows and bigmat from 65536 rows on; a negative
    NR always means bigmat; dense columns with either sign"""
    out = []
    for rows in (_ROWS4BIGMAT - 1, _ROWS4BIGMAT, _ROWS4BIGMAT + 1):
        out.append((rows, "b" if rows >= _ROWS4BIGMAT else "n", False))
        out.append((rows, "b", True))
        out.append((rows, "d", False))
    return out


def _boundary_branch(kind, m):
    return "%s:rows=%d-%s-%s" % (kind, m["rows"], "negNR" if m["neg"] else "posNR", m["lay"])


def _expected(m, conv=lambda v: v):
    """dense matrix, COO triplets (file order) and what sparse=None means"""
    mult = 2 if m["cplx"] else 1
    D = np.zeros((m["rows"], m["ncols"]), complex if m["cplx"] else float)
    trip = []
    for c, strs in m["cols"]:
        for r0, vals in strs:
            vals = [conv(v) for v in vals]
            for k in range(len(vals) // mult):
                x = complex(vals[2 * k], vals[2 * k + 1]) if m["cplx"] else vals[k]
                D[r0 + k, c] = x
                trip.append((r0 + k, c, x))
    if m["cols"]:
        auto = m["lay"] != "d"
    else:
        auto = bool(m["neg"])
    return D, trip, auto


def _bits(a):
    a = np.ascontiguousarray(a)
    if np.iscomplexobj(a):
        a = a.astype(np.complex128).view(np.float64)
    else:
        a = a.astype(np.float64)
    return (a.reshape(-1) + 0.0).view(np.uint64).tolist()


def _check_op4_file(op4, path, mats, mtypes, conv=lambda v: v):
    """compare every reading of `path` with the logical content; returns None or (what, observed, required)"""
    try:
        with _TimeLimit(15):
            return _check_op4_file_(op4, path, mats, mtypes, conv)
    except TimeoutError as e:
        return ("timeout", str(e), "a read that terminates")


def _check_op4_file_(op4, path, mats, mtypes, conv):
    names = [m["name"].lower() for m in mats]
    exp = [_expected(m, conv) for m in mats]
    for mode in (False, True, None):
        try:
            with warnings.catch_warnings():
                warnings.simplefilter("ignore")
                rn, rm, rf, rt = op4.load(path, into="list", sparse=mode)
        except Exception as e:  # noqa: BLE001
            return ("load-raises", "%s: %s (sparse=%r)" % (type(e).__name__, e, mode), "the encoded matrices")
        if rn != names or [int(f) for f in rf] != [m["form"] for m in mats] or [int(t) for t in rt] != mtypes:
            return ("header", [rn, list(map(int, rf)), list(map(int, rt))], [names, [m["form"] for m in mats], mtypes])
        for k, (m, X) in enumerate(zip(mats, rm)):
            D, trip, auto = exp[k]
            want_sparse = mode if mode is not None else auto
            if sp.issparse(X) != want_sparse:
                return ("read-type", "matrix %d sparse=%r returned %s" % (k, mode, type(X).__name__), "sparse" if want_sparse else "ndarray")
            if tuple(X.shape) != D.shape:
                return ("shape", list(X.shape), list(D.shape))
            if sp.issparse(X):
                got = list(zip(X.row.tolist(), X.col.tolist(), _bits(np.asarray(X.data, dtype=complex)).__iter__()))
                gi = [(int(i), int(j)) for i, j in zip(X.row.tolist(), X.col.tolist())]
                gv = _bits(np.asarray(X.data, dtype=complex if m["cplx"] else float))
                wi = [(i, j) for i, j, _ in trip]
                wv = _bits(np.array([x for _, _, x in trip], dtype=complex if m["cplx"] else float))
                if gi != wi or gv != wv:
                    return ("sparse-values", {"matrix": k, "idx": gi[:6], "n": len(gi)}, {"idx": wi[:6], "n": len(wi)})
            else:
                X = np.asarray(X)
                if np.iscomplexobj(X) != m["cplx"] or _bits(X) != _bits(D):
                    bad = np.argwhere(X != D)
                    return ("dense-values", {"matrix": k, "at": bad[:3].tolist(), "dtype": str(X.dtype)},
                            {"want": [repr(D[tuple(b)]) for b in bad[:3]]})
    # listing = full read
    try:
        dn, ds, df, dt = op4.dir(path, verbose=False)
    except Exception as e:  # noqa: BLE001
        return ("dir-raises", "%s: %s" % (type(e).__name__, e), "a listing")
    want = [names, [(m["rows"], m["ncols"]) for m in mats], [m["form"] for m in mats], mtypes]
    got = [dn, [tuple(map(int, s)) for s in ds], list(map(int, df)), list(map(int, dt))]
    if got != want:
        return ("dir", got, want)
    # named subset = filter of the full read (exercises the skippers): every distinct name singly, as a string and as a
    # one-element list, and a two-name list; list mode returns EVERY occurrence in file order, read() the last one
    distinct = list(dict.fromkeys(names))
    asks = []
    for nm in distinct:
        asks += [nm, [nm]]
    if len(distinct) > 1:
        asks.append([distinct[-1], distinct[0]])
    if len(mats) > 1 or len(asks) > 2:
        for ask in asks:
            sel = [ask] if isinstance(ask, str) else ask
            try:
                with warnings.catch_warnings():
                    warnings.simplefilter("ignore")
                    sn, sm, sf, st = op4.load(path, namelist=ask, into="list")
                    rd = op4.read(path, namelist=ask)
            except Exception as e:  # noqa: BLE001
                return ("namelist-raises", "%s: %s" % (type(e).__name__, e), "the matrices named %r" % (ask,))
            idx = [i for i, n in enumerate(names) if n in sel]
            if sn != [names[i] for i in idx] or [int(f) for f in sf] != [mats[i]["form"] for i in idx]:
                return ("namelist", {"namelist": ask, "returned": sn}, [names[i] for i in idx])
            for X, i in zip(sm, idx):
                if _bits(np.asarray(X)) != _bits(exp[i][0]):
                    return ("namelist-values", {"namelist": ask, "occurrence": i}, "matrix %d of the file" % i)
            last = {}
            for i in idx:
                last[names[i]] = i
            if list(rd) != list(last):
                return ("namelist-read-keys", {"namelist": ask, "returned": list(rd)}, list(last))
            for nm, i in last.items():
                if _bits(np.asarray(rd[nm])) != _bits(exp[i][0]):
                    return ("namelist-read-is-not-the-last-occurrence", {"namelist": ask, "name": nm}, "matrix %d of the file (the last %r)" % (i, nm))
    return None


# -- OUTPUT4 binary variants --------------------------------------------------------------------


def _repeat_names(rng, mats):
    """matrix names that REPEAT anywhere in the file (kaa, maa, kaa, pha, baa, pha, pha): with probability 1/2 every
    matrix after the first takes, with probability 0.45, the name of an earlier one (case kept as generated)"""
    if len(mats) > 1 and rng.random() < 0.5:
        for i in range(1, len(mats)):
            if rng.random() < 0.45:
                mats[i]["name"] = mats[rng.randrange(i)]["name"]
    return mats


def _gen_bin_case(rng, big=False):
    single = rng.random() < 0.5
    n = 1 if big else rng.choice([1, 2, 3, 3, 5, 7])
    return {"kind": "op4bin", "endian": rng.choice(["l", "b"]), "bit64": rng.random() < 0.4, "single": single,
            "mats": _repeat_names(rng, [_gen_mat(rng, single, big=big) for _ in range(n)])}


def _stored_bits(case, v):
    if case["single"] and not case["bit64"]:
        return _f32bits(v)
    return _f64bits(v)


def _bin_tokens(case):
    t = ["encv", case["endian"], "1" if case["bit64"] else "0", "1" if case["single"] else "0", str(len(case["mats"]))]
    for m in case["mats"]:
        t += [m["name"].encode().hex(), str(m["form"]), "1" if m["cplx"] else "0", str(m["rows"]), str(m["ncols"]),
              m["lay"], "1" if m["neg"] else "0", str(len(m["cols"]))]
        for c, strs in m["cols"]:
            t += [str(c), str(len(strs))]
            for r0, vals in strs:
                t += [str(r0), str(len(vals))] + [str(_stored_bits(case, v)) for v in vals]
    return " ".join(t)


def _py_encode_bin(case):
    """independent Python encoder of the same format (used by the model-free oracle only)"""
    e = "<" if case["endian"] == "l" else ">"
    ki = "q" if case["bit64"] else "i"
    kb = 8 if case["bit64"] else 4
    rf = "f" if (case["single"] and not case["bit64"]) else "d"
    rb = 4 if rf == "f" else 8
    wper = 1 if (case["single"] or case["bit64"]) else 2
    out = b""
    for m in case["mats"]:
        namelen = 16 if case["bit64"] else 8
        reclen = 4 * kb + namelen
        mtype = (3 if m["cplx"] else 1) + (0 if case["single"] else 1)
        rows = -m["rows"] if m["neg"] else m["rows"]
        out += struct.pack(e + "i", reclen) + struct.pack(e + "4" + ki, m["ncols"], rows, m["form"], mtype)
        out += m["name"].encode().ljust(namelen) + struct.pack(e + "i", reclen)
        for c, strs in m["cols"]:
            payload = b""
            nw = 0
            for r0, vals in strs:
                body = struct.pack(e + "%d%s" % (len(vals), rf), *vals)
                if m["lay"] == "d":
                    payload += body
                    nw += len(vals) * wper
                elif m["lay"] == "b":
                    payload += struct.pack(e + "2" + ki, len(vals) * wper + 1, r0 + 1) + body
                    nw += len(vals) * wper + 2
                else:
                    payload += struct.pack(e + ki, (r0 + 1) + ((len(vals) * wper + 1) << 16)) + body
                    nw += len(vals) * wper + 1
            irow = strs[0][0] + 1 if m["lay"] == "d" else 0
            reclen = 3 * kb + len(payload)
            out += struct.pack(e + "i", reclen) + struct.pack(e + "3" + ki, c + 1, irow, nw) + payload + struct.pack(e + "i", reclen)
        reclen = 3 * kb + rb
        out += struct.pack(e + "i", reclen) + struct.pack(e + "3" + ki, m["ncols"] + 1, 1, wper) + struct.pack(e + rf, 1.0) + struct.pack(e + "i", reclen)
    return out


def _bin_mtypes(case):
    return [(3 if m["cplx"] else 1) + (0 if case["single"] else 1) for m in case["mats"]]


# -- OUTPUT4 ASCII variants ------------------------------------------------------------------------


def _gen_adec(rng, maxdig, allow3):
    if rng.random() < 0.1:
        return (0, 0, [0] * rng.randint(1, maxdig))
    nd = rng.randint(1, maxdig)
    digits = [rng.randint(1, 9)] + [rng.randint(0, 9) for _ in range(nd - 1)]
    exp = rng.randint(-299, 299) if (allow3 and rng.random() < 0.3) else rng.randint(-40, 40)
    return (1 if rng.random() < 0.5 else 0, exp, digits)


def _adec_value(a):
    neg, exp, digits = a
    s = ("-" if neg else "") + str(digits[0]) + "." + "".join(map(str, digits[1:])) + "E%+d" % exp
    return float(s) + 0.0


def _gen_asc_case(rng):
    width = rng.choice([12, 16, 23, 24, 26])
    perline = rng.randint(1, min(5, 80 // width))
    single = rng.random() < 0.5
    maxdig = width - 8  # sign, point, E+ddd
    mats = []
    for _ in range(rng.choice([1, 2, 3, 3, 5, 7])):
        m = _gen_mat(rng, single)
        m["name"] = m["name"].upper() if rng.random() < 0.7 else m["name"]
        for _, strs in m["cols"]:
            for i, (r0, vals) in enumerate(strs):
                strs[i] = (r0, [_gen_adec(rng, maxdig, True) for _ in vals])
        mats.append(m)
    _repeat_names(rng, mats)
    return {"kind": "op4asc", "perline": perline, "width": width, "useD": rng.random() < 0.4,
            "lead1P": rng.random() < 0.6, "fmtD": rng.random() < 0.3, "lower": rng.random() < 0.2,
            "single": single, "mats": mats}


def _asc_tokens(case):
    t = ["enca", str(case["perline"]), str(case["width"])] + ["1" if case[k] else "0" for k in ("useD", "lead1P", "fmtD", "lower")]
    t.append(str(len(case["mats"])))
    for m in case["mats"]:
        t += [m["name"].encode().hex(), str(m["form"]), "1" if m["cplx"] else "0", "1" if case["single"] else "0",
              str(m["rows"]), str(m["ncols"]), m["lay"], "1" if m["neg"] else "0", str(len(m["cols"]))]
        for c, strs in m["cols"]:
            t += [str(c), str(len(strs))]
            for r0, vals in strs:
                t += [str(r0), str(len(vals))]
                for neg, exp, digits in vals:
                    t += [str(neg), str(exp), str(len(digits))] + [str(d) for d in digits]
    return " ".join(t)


# -- OUTPUT2 ----------------------------------------------------------------------------------------


_CUT = 3000  # OP2._rowsCutoff / OP4._rowsCutoff (Generated/Op4Consts.lean: rowsCutoff); lengths at -1, 0, +1


def _gen_big_table(rng, k=0):
    """a table whose records are split into pieces with lengths on both sides of the 3000-value cut-over between
    struct.unpack and np.fromfile, in first and in later positions"""
    L = [_CUT - 1, _CUT, _CUT + 1, 5000]
    shapes = [[rng.choice(L[1:]), rng.choice([4000, 3, _CUT - 1])],           # first piece >= 3000, record continues
              [_CUT - 1, rng.choice(L[1:])],                                     # first below, later at/above
              [rng.choice([3, 20]), rng.choice(L), rng.choice([3, _CUT])],       # three pieces
              [rng.choice(L)]]                                                   # a single piece
    rng.shuffle(shapes)
    recs = [[[rng.randint(-1000, 100000) for _ in range(n)] for n in shape] for shape in shapes[: rng.randint(2, 4)]]
    # deterministic part (so that every declared branch is reached in every run): the k-th big table holds a
    # record whose first piece is at/above the cut-over and whose second piece walks over 2999, 3000, 3001
    fixed = ([_CUT, _CUT + 1, 5000][k % 3], [_CUT - 1, _CUT, _CUT + 1][(k // 3) % 3])
    recs.insert(rng.randrange(len(recs) + 1), [[rng.randint(-9, 9) for _ in range(n)] for n in fixed])
    return {"t": "t", "name": _name(rng).upper(), "trailer": [rng.randint(100, 200)] + [rng.randint(0, 70000) for _ in range(6)],
            "records": recs}


def _op2_branches(case):
    out = set()
    for b in case["blocks"]:
        if b["t"] == "t":
            for pieces in b["records"]:
                for i, p in enumerate(pieces):
                    for lo, nm in ((_CUT - 1, "=2999"), (_CUT, "=3000"), (_CUT + 1, "=3001")):
                        if len(p) == lo:
                            out.add("op2:piece%s" % nm)
                    if len(p) >= _CUT:
                        if len(pieces) > 1:
                            out.add("op2:piece>=3000-first-of-many" if i == 0 else "op2:piece>=3000-later")
                        else:
                            out.add("op2:piece>=3000-alone")
        else:
            for strs in b["cols"]:
                for _, vals in strs:
                    for lo, nm in ((_CUT - 1, "=2999"), (_CUT, "=3000"), (_CUT + 1, "=3001")):
                        if len(vals) == lo:
                            out.add("op2:string%s-reals" % nm)
                    if len(vals) >= _CUT:
                        out.add("op2:string>=3000-reals")
    return out


def _gen_op2_case(rng, big=False, bigtab=False):
    bit64 = rng.random() < 0.4
    blocks = []
    if bigtab:
        blocks.append(_gen_big_table(rng, int(bigtab)))
    for _ in range(rng.randint(1, 4)):
        if rng.random() < 0.55 or big:
            single = rng.random() < 0.5
            cplx = rng.random() < 0.35 and not (big and int(big) % 6 < 3)
            rows = rng.choice([3200]) if big else rng.choice([1, 2, 3, 6, 10])
            ncols = rng.choice([1, 2, 3, 4])
            cols = []
            for c in range(ncols):
                strs = []
                if rng.random() < 0.8 or (big and c == 0):
                    part = _partition(rng, rows, big=big and c == 0)
                    if big and c == 0:  # the k-th big matrix starts with a string of 2999, 3000, 3001 elements
                        L0 = [_CUT - 1, _CUT, _CUT + 1][int(big) % 3]
                        part = [(0, L0)] + [(r0, L) for r0, L in part[1:] if r0 >= L0]
                    for r0, L in part:
                        strs.append((r0 + 1, [_val(rng, single) for _ in range(L * (2 if cplx else 1))]))
                cols.append(strs)
            mtype = (3 if cplx else 1) + (0 if single else 1)
            blocks.append({"t": "m", "name": _name(rng).upper(), "trailer": [rng.randint(100, 200), ncols, rows, rng.choice([1, 2, 6]), mtype, rng.randint(0, 9), 0],
                           "single": single, "cplx": cplx, "cols": cols})
            big = False
        else:
            recs = []
            for _ in range(rng.randint(0, 4)):
                pieces = [[rng.randint(-1000, 100000) for _ in range(rng.choice([3, 4, 7, 20]))] for _ in range(rng.choice([1, 1, 2, 3]))]
                recs.append(pieces)
            blocks.append({"t": "t", "name": _name(rng).upper(), "trailer": [rng.randint(100, 200)] + [rng.randint(0, 70000) for _ in range(6)], "records": recs})
    if len(blocks) > 1 and rng.random() < 0.3:
        blocks[-1]["name"] = blocks[0]["name"]
    elif len(blocks) > 1 and rng.random() < 0.5 and len(blocks[0]["name"]) < 8:
        # one name a proper prefix of another (KAA / KAAX, K / KAA)
        blocks[-1]["name"] = blocks[0]["name"] + rng.choice("XA1")
    return {"kind": "op2", "endian": rng.choice(["l", "b"]), "bit64": bit64, "date": [rng.randint(1, 12), rng.randint(1, 28), rng.randint(0, 99)],
            "label": rng.choice(["NX2021", "XXXXXXXX", "PYYETI"]), "blocks": blocks}


def _op2_stored(case, single, v):
    if single and not case["bit64"]:
        return _f32bits(v)
    return _f64bits(v)


def _op2_tokens(case):
    t = ["op2", case["endian"], "1" if case["bit64"] else "0"] + [str(d) for d in case["date"]] + [case["label"].encode().hex(), str(len(case["blocks"]))]
    for b in case["blocks"]:
        t += [b["t"], b["name"].encode().hex()] + [str(x) for x in b["trailer"]]
        if b["t"] == "m":
            t += ["1" if b["single"] else "0", str(len(b["cols"]))]
            for strs in b["cols"]:
                t.append(str(len(strs)))
                for r, vals in strs:
                    t += [str(r), str(len(vals))] + [str(_op2_stored(case, b["single"], v)) for v in vals]
        else:
            t.append(str(len(b["records"])))
            for pieces in b["records"]:
                t.append(str(len(pieces)))
                for p in pieces:
                    t += [str(len(p))] + [str(x) for x in p]
    return " ".join(t)


def _op2_expected_matrix(b):
    rows, ncols = b["trailer"][2], b["trailer"][1]
    D = np.zeros((rows, ncols), complex if b["cplx"] else float)
    mult = 2 if b["cplx"] else 1
    for c, strs in enumerate(b["cols"]):
        for r, vals in strs:
            for k in range(len(vals) // mult):
                D[r - 1 + k, c] = complex(vals[2 * k], vals[2 * k + 1]) if b["cplx"] else vals[k]
    return D


def _check_op2_file(op2, path, case, positions):
    try:
        with _TimeLimit(15):
            return _check_op2_file_(op2, path, case, positions)
    except TimeoutError as e:
        return ("timeout", str(e), "a read that terminates")


def _check_op2_file_(op2, path, case, positions):
    try:
        o2 = op2.OP2(path)
    except Exception as e:  # noqa: BLE001
        return ("open-raises", "%s: %s" % (type(e).__name__, e), "an open file with a directory")
    try:
        if (o2._label, tuple(o2._date)) != (case["label"], tuple(case["date"])):
            return ("header", [o2._label, list(o2._date)], [case["label"], case["date"]])
        blocks = case["blocks"]
        got = [(s.name, int(s.start), int(s.stop), int(s.nbytes), int(s.dbtype), tuple(map(int, s.size)), tuple(map(int, s.trailer)))
               for s in o2.dblist]
        want = [(b["name"], a, z, z - a - 1, 1 if b["t"] == "m" else 0,
                 (b["trailer"][2], b["trailer"][1]) if b["t"] == "m" else (0, 0), tuple(b["trailer"]))
                for b, (a, z) in zip(blocks, positions)]
        if got != want:
            return ("directory", got[:4], want[:4])
        kb = 8 if case["bit64"] else 4
        for s in o2.dblist:  # skipping over a data block leaves the reader at the next one
            o2.set_position(s.start)
            o2.goto_next()
            if o2._fileh.tell() != s.stop:
                return ("goto-next", {"from": int(s.start), "lands": int(o2._fileh.tell())}, {"next block starts at": int(s.stop)})
        for s, b in zip(o2.dblist, blocks):
            if b["t"] == "t":
                wanth = [[tuple(p[:3]), len(p) * kb] for pieces in b["records"] for p in pieces]
                goth = [[tuple(map(int, h[0])), int(h[1])] for h in s.headers]
                if goth != wanth:
                    return ("table-headers", goth[:4], wanth[:4])
                o2.set_position(s.start)
                nm, tr, ty = o2.rdop2nt()
                if (nm, tuple(map(int, tr)), ty) != (b["name"], tuple(b["trailer"]), 0):
                    return ("rdop2nt", [nm, list(map(int, tr)), ty], [b["name"], b["trailer"], 0])
                recs = []
                while True:
                    r = o2.rdop2record()
                    if r is None:
                        break
                    recs.append([int(x) for x in r])
                wantr = [[x for p in pieces for x in p] for pieces in b["records"]]
                if recs != wantr:
                    return ("table-records", recs[:3], wantr[:3])
                if o2._fileh.tell() != s.stop:
                    return ("table-end-position", o2._fileh.tell(), int(s.stop))
            else:
                o2.set_position(s.start)
                nm, tr, ty = o2.rdop2nt()
                X = o2.rdop2matrix(tr)
                D = _op2_expected_matrix(b)
                if nm != b["name"] or X.shape != D.shape or np.iscomplexobj(X) != b["cplx"] or _bits(X) != _bits(D):
                    return ("matrix", {"name": nm, "shape": list(X.shape)}, {"name": b["name"], "shape": list(D.shape)})
                if o2._fileh.tell() != s.stop:
                    return ("matrix-end-position (read vs skip)", o2._fileh.tell(), int(s.stop))
        mats = o2.rdop2mats()
        last = {}
        for b in blocks:
            if b["t"] == "m":
                last[b["name"]] = b
        if sorted(mats) != sorted(last):
            return ("rdop2mats-names", sorted(mats), sorted(last))
        for nm, b in last.items():
            if _bits(mats[nm]) != _bits(_op2_expected_matrix(b)):
                return ("rdop2mats-values", nm, "last occurrence")
        # named subsets: a plain name selects exactly that data block (also when it is a prefix of another name),
        # a trailing '*' selects every name with that prefix; each equals the corresponding filter of the full read
        for nm in sorted(last):
            for patt, want in ((nm.lower(), [nm]), (nm[: max(1, len(nm) - 1)].lower() + "*",
                                                   [x for x in last if x.startswith(nm[: max(1, len(nm) - 1)])])):
                sub = o2.rdop2mats(names=[patt])
                if sorted(sub) != sorted(want):
                    return ("rdop2mats-named-subset", {"names": [patt], "returned": sorted(sub)}, sorted(want))
                for x in want:
                    if _bits(sub[x]) != _bits(mats[x]):
                        return ("rdop2mats-named-subset-values", {"names": [patt], "matrix": x}, "as in the full read")
    except Exception as e:  # noqa: BLE001
        return ("read-raises", "%s: %s" % (type(e).__name__, e), "the encoded blocks")
    finally:
        o2._fileh.close()
        o2._fileh = None
    return None


def _py_encode_op2(case):
    """independent Python OUTPUT2 encoder (oracle only); returns bytes and block positions"""
    e = "<" if case["endian"] == "l" else ">"
    ki = "q" if case["bit64"] else "i"
    kb = 8 if case["bit64"] else 4

    def K(x):
        return struct.pack(e + "i", kb) + struct.pack(e + ki, x) + struct.pack(e + "i", kb)

    def R(b):
        return struct.pack(e + "i", len(b)) + b + struct.pack(e + "i", len(b))

    def keys(xs):
        return struct.pack(e + "%d%s" % (len(xs), ki), *xs)

    out = K(3) + R(keys(case["date"])) + K(7) + R(b"N" * (7 * kb)) + K(2) + R(case["label"].encode().ljust(2 * kb)) + K(-1) + K(0)
    pos = []
    for b in case["blocks"]:
        start = len(out)
        nm = b["name"].encode().ljust(2 * kb)
        out += K(2) + R(nm) + K(-1) + K(7) + R(keys(b["trailer"])) + K(-2) + K(1) + K(0) + K(2) + R(nm) + K(-3) + K(1) + K(1 if b["t"] == "m" else 0)
        if b["t"] == "m":
            rf = "f" if (b["single"] and not case["bit64"]) else "d"
            for j, strs in enumerate(b["cols"]):
                for r, vals in strs:
                    payload = struct.pack(e + ki, r) + struct.pack(e + "%d%s" % (len(vals), rf), *vals)
                    out += K(len(payload) // kb) + R(payload)
                out += K(-(j + 4)) + K(1) + K(0 if j == len(b["cols"]) - 1 else 1)
            out += K(0)
        else:
            for j, pieces in enumerate(b["records"]):
                for p in pieces:
                    out += K(len(p)) + R(keys(p))
                out += K(-(j + 4)) + K(1) + K(0)
            out += K(0)
        pos.append((start, len(out)))
    out += K(0)
    return out, pos


# ---------------------------------------------------------------------------------------------


def _jsonable_case(case):
    return json.loads(json.dumps(case, default=lambda o: list(o)))


def _conv_for(case):
    if case["kind"] == "op4asc":
        return _adec_value
    return lambda v: v


def _nontrivial(case):
    if case["kind"] == "op2":
        return any((b["t"] == "m" and any(len(s) > 1 for s in b["cols"])) or
                   (b["t"] == "t" and any(len(p) > 1 for p in b["records"])) for b in case["blocks"])
    return any(len(strs) > 1 for m in case["mats"] for _, strs in m["cols"])


def _cases(ctx):
    rng = ctx.rng
    cases = []
    for rep in range(ctx.pick(1, 4)):
        for rows, lay, neg in _boundary_layouts():
            single = rng.random() < 0.5
            cases.append({"kind": "op4bin", "endian": rng.choice(["l", "b"]), "bit64": rng.random() < 0.4, "single": single,
                          "mats": [_gen_boundary_mat(rng, single, rows, lay, neg)] + ([_gen_mat(rng, single)] if rng.random() < 0.5 else [])})
            c = _gen_asc_case(rng)
            maxdig = c["width"] - 8
            c["mats"] = [_gen_boundary_mat(rng, c["single"], rows, lay, neg, ascii_vals=lambda r: _gen_adec(r, maxdig, True))] + c["mats"][:1]
            c["mats"][0]["name"] = c["mats"][0]["name"].upper()
            cases.append(c)
    for i in range(ctx.pick(1500, 9000)):
        cases.append(_gen_bin_case(rng, big=(i % 60 == 0)))
    for i in range(ctx.pick(900, 5000)):
        cases.append(_gen_asc_case(rng))
    for i in range(ctx.pick(1200, 7000)):
        cases.append(_gen_op2_case(rng, big=(i // 60 + 1 if i % 60 == 0 else 0), bigtab=(i // 40 + 1 if i % 40 == 1 else 0)))
    return cases


def correspondence(ctx):
    op4, op2 = _op4(), _op2()
    drv = ctx.driver("C11")
    sc = _Scratch()
    try:
        cases = _cases(ctx)
        req = []
        for c in cases:
            req.append({"op4bin": _bin_tokens, "op4asc": _asc_tokens, "op2": _op2_tokens}[c["kind"]](c))
        rep = drv.ask(req)
        encoded, encoded4, encodedA = [], [], []
        for case, r in zip(cases, rep):
            kind = case["kind"]
            ctx.case((kind, json.dumps(_jsonable_case(case), sort_keys=True)), nontrivial=_nontrivial(case), branch="stream:" + kind)
            if r == "bad-op":
                raise Infra("driver C11 refused a request of kind " + kind)
            if kind == "op2":
                hx, pos = r.split(" ") if " " in r else (r, "")
                positions = [tuple(int(t) for t in p.split(":")) for p in pos.split(",")] if pos else []
                p = sc.path(".op2")
                open(p, "wb").write(bytes.fromhex(hx))
                encoded.append((case, positions, bytes.fromhex(hx)))
                res = _check_op2_file(op2, p, case, positions)
                ctx.count("op2:%s-%s" % (case["endian"], "64" if case["bit64"] else "32"))
                for b in case["blocks"]:
                    ctx.count("op2:block-" + b["t"])
                for br in _op2_branches(case):
                    ctx.count(br)
            else:
                p = sc.path(".op4")
                open(p, "wb").write(bytes.fromhex(r))
                (encoded4 if kind == "op4bin" else encodedA).append((case, bytes.fromhex(r)))
                if kind == "op4bin":
                    mt = _bin_mtypes(case)
                    ctx.count("op4bin:%s-%s-%s" % (case["endian"], "64" if case["bit64"] else "32", "single" if case["single"] else "double"))
                else:
                    mt = [(3 if m["cplx"] else 1) + (0 if case["single"] else 1) for m in case["mats"]]
                    ctx.count("op4asc:" + ("D" if case["useD"] else "E"))
                nms = [m["name"].lower() for m in case["mats"]]
                if len(set(nms)) < len(nms):
                    ctx.count("%s:repeated-names" % kind)
                    if any(nms.count(x) >= 3 for x in nms):
                        ctx.count("%s:name-three-times" % kind)
                for m in case["mats"]:
                    ctx.count("%s:layout-%s" % (kind, m["lay"]))
                    if abs(m["rows"] - _ROWS4BIGMAT) <= 1:
                        ctx.count(_boundary_branch(kind, m))
                res = _check_op4_file(op4, p, case["mats"], mt, _conv_for(case))
            if res is not None:
                ctx.disagree(kind + ":" + res[0], _jsonable_case(case), res[1], res[2])
                if len(ctx.disagreements) > 80 or sum(1 for d in ctx.disagreements if d["stream"].endswith(":timeout")) > 3:
                    os.remove(p)
                    break  # the run is broken already; the search looks for the failing input
            elif len(ctx.samples) < 5 and ctx.rng.random() < 0.02:
                ctx.sample({"kind": kind, "variant": {k: v for k, v in case.items() if k not in ("mats", "blocks")}})
            os.remove(p)
        _nastran_files(ctx, op4)
        if len(ctx.disagreements) <= 80:
            _op4_sample_files(ctx, op4, drv)
        if len(ctx.disagreements) <= 80:
            _op4_reader_streams(ctx, op4, drv, sc, encoded4)
        if len(ctx.disagreements) <= 80:
            _asc_reader_streams(ctx, op4, drv, sc, encodedA)
        if len(ctx.disagreements) <= 80:
            _reader_model_streams(ctx, op2, drv, sc, encoded)
        if len(ctx.disagreements) <= 80:
            _op2_forms_stream(ctx, op2, drv, sc, encoded)
        if len(ctx.disagreements) <= 80:
            _op2_mats_stream(ctx, op2, drv, sc, encoded)
        ctx.extra["first_disagreements"] = [
            {"stream": d["stream"], "impl": str(d["impl"])[:300], "model": str(d["model"])[:300],
             "variant": {k: v for k, v in d["input"].items() if k not in ("mats", "blocks")} if isinstance(d["input"], dict) else None}
            for d in ctx.disagreements[:6]]
        if not ctx.disagreements and not ctx.broken:
            ctx.require_branches(["stream:nastran-file", "stream:op4bin", "stream:op4asc", "stream:op2", "op4bin:l-32-single", "op4bin:b-64-double",
                                  "op4bin:l-64-single", "op4bin:b-32-double", "op4asc:D", "op4asc:E", "op4bin:layout-d",
                                  "op4bin:layout-b", "op4bin:layout-n", "op2:l-64", "op2:b-32", "op2:block-m", "op2:block-t"]
                                 + ["%s:rows=%d-%s-%s" % (k, r, "negNR" if n else "posNR", l)
                                    for k in ("op4bin", "op4asc") for r, l, n in _boundary_layouts()]
                                 + ["op2:piece>=3000-first-of-many", "op2:piece>=3000-later", "op2:piece=2999", "op2:piece=3000",
                                    "op2:piece=3001", "op2:string>=3000-reals", "op2:string=2999-reals", "op2:string=3000-reals",
                                    "op2:string=3001-reals"]
                                 + ["stream:rd2:generated", "stream:rd2:sample-file", "stream:rd2:malformed-truncated",
                                    "stream:rd2:malformed-first-word", "stream:rd2:malformed-key-width",
                                    "stream:rd2:malformed-content-string-too-long", "stream:rd2:malformed-content-short-piece",
                                    "stream:rd2:malformed-content-extra-column", "stream:rd2:malformed-content-row-zero",
                                    "stream:rd2:malformed-content-one-value-beyond", "rd2:open-ok", "rd2:open-raises-struct",
                                    "rd2:open-raises-value", "rd2:block-raises-struct", "rd2:block-raises-value",
                                    "rd2:block-raises-index", "rd2:block-table", "rd2:block-matrix", "rd2:l-32", "rd2:l-64",
                                    "rd2:b-32", "rd2:b-64", "rd2:matrix-width-4-real", "rd2:matrix-width-4-complex",
                                    "rd2:matrix-width-8-real", "rd2:matrix-width-8-complex"]
                                 + ["op4bin:repeated-names", "op4asc:repeated-names", "op4bin:name-three-times", "op4asc:name-three-times"]
                                 + ["stream:rd4:generated", "stream:rd4:sample-file", "stream:asc:sample-file", "stream:rd4:named-plain",
                                    "stream:rd4:named-prefix", "stream:rd4:named-upper", "stream:rd4:cutoff", "stream:rd4:malformed-truncated",
                                    "stream:rd4:malformed-content-string-too-long", "stream:rd4:malformed-content-one-value-beyond",
                                    "rd4:dict-mode", "rd4:named-selects-none", "rd4:named-selects-some", "rd4:raises-struct", "rd4:raises-value",
                                    "rd4:l-32-single", "rd4:l-32-double", "rd4:l-64-single", "rd4:l-64-double", "rd4:b-32-single",
                                    "rd4:b-32-double", "rd4:b-64-single", "rd4:b-64-double", "rd4:sample-be-32", "rd4:sample-be-64",
                                    "rd4:sample-le-32", "rd4:sample-le-64", "rd4:sample-mtype-1", "rd4:sample-mtype-2", "rd4:sample-mtype-3",
                                    "rd4:sample-mtype-4", "asc:sample-mtype-1", "asc:sample-mtype-2", "asc:sample-mtype-3", "asc:sample-mtype-4",
                                    "stream:asc:generated", "stream:asc:named", "asc:model-D", "asc:model-E", "asc:named-selects-none",
                                    "asc:named-selects-some", "stream:rec2:int", "stream:rec2:uint", "stream:rec2:single", "stream:rec2:double",
                                    "stream:rec2:bytes", "rec2:N=0", "rec2:N>0", "rec2:other-cutoff", "rec2:result-ok", "rec2:result-none",
                                    "rec2:result-err", "rec2:piece-length-not-a-multiple-of-the-item-width", "rec2:uint-i64-top-bit-below-cutoff", "stream:mats2:names-none",
                                    "stream:mats2:names-plain", "stream:mats2:names-wildcard", "mats2:which--1", "mats2:which-0",
                                    "mats2:which-all", "mats2:selects-none", "mats2:selects-some", "mats2:raises-index"])
    finally:
        sc.close()


def _nastran_files(ctx, op4):
    """binary sample files written by Nastran itself (32-bit keys, double precision) decoded by the Lean
    decoder of Model/Op4.lean (driver C04) and compared with pyYeti's reading: ties the Lean format model to
    files that neither pyYeti nor the Lean encoders produced"""
    from props import c04 as _c04

    root = os.path.join(ctx.repo, "pyyeti", "tests", "nastran_op4_data")
    files, req, want = [], [], []
    for f in sorted(glob.glob(os.path.join(root, "*.op4"))):
        data = open(f, "rb").read()
        if len(data) < 16 or min(data[:4]) != 0 or len(data) > 400000:
            continue
        if struct.unpack("<i", data[:4])[0] != 24 and struct.unpack(">i", data[:4])[0] != 24:
            continue
        try:
            with warnings.catch_warnings(), _TimeLimit(120):
                warnings.simplefilter("ignore")
                dn, ds, df, dt = op4.dir(f, verbose=False)
                if any(int(t) % 2 for t in dt):
                    continue
                for mode, flag in (("d", False), ("s", True), ("a", None)):
                    got = _c04._canon_loaded(*op4.load(f, into="list", sparse=flag))
                    files.append((os.path.basename(f), mode))
                    req.append("dec %s %s" % (mode, data.hex()))
                    want.append(got)
        except Exception as e:  # noqa: BLE001
            ctx.disagree("nastran-file:read-raises", {"file": os.path.basename(f)}, repr(e), "a successful read")
    if not req:
        return
    rep = ctx.driver("C04").ask(req)
    for (name, mode), r, w in zip(files, rep, want):
        ctx.case(("nastran-file", name, mode), nontrivial=True, branch="stream:nastran-file")
        model = _c04._parse_dec(r)
        if model != w:
            ctx.disagree("nastran-file:dec-" + mode, {"file": name}, str(w)[:300], str(model)[:300])



# -- the Lean reader model (Model/Op2Read.lean, driver command rd2) against pyYeti's readers ------------


def _exc_class(e):
    """the small enum both sides use for 'raises'"""
    if isinstance(e, (UnicodeDecodeError, MemoryError, OverflowError, OSError)):
        return "exotic"  # non-ASCII header text, allocation of a garbage length, backward seek before the file start
    if isinstance(e, struct.error):
        return "struct"
    if isinstance(e, TimeoutError):
        return "timeout"
    if isinstance(e, ValueError):
        return "value"
    if isinstance(e, IndexError):
        return "index"
    if isinstance(e, RuntimeError):
        return "empty"
    return type(e).__name__


def _f32_to_f64_bits(bits):
    return np.array(bits, dtype=np.uint32).view(np.float32).astype(np.float64).view(np.uint64).tolist()


def _canon_matrix(X, width):
    """('M', stored rows, cplx, width, ncols, per column [(row, float64 bits of the non-zero patterns)])"""
    X = np.asarray(X)
    cplx = bool(np.iscomplexobj(X))
    rows, ncols = X.shape
    raw = np.ascontiguousarray(X.T).view(np.float64).reshape(ncols, -1) if cplx else np.ascontiguousarray(X.T, dtype=np.float64)
    raw = raw.reshape(ncols, rows * (2 if cplx else 1))
    bits = raw.view(np.uint64)
    cols = []
    for j in range(ncols):
        idx = np.nonzero(bits[j])[0]
        cols.append(list(zip(idx.tolist(), bits[j][idx].tolist())))
    return ("M", rows * (2 if cplx else 1), cplx, width, ncols, cols)


_HUGE = 20000000


def _py_read_op2(op2, path, limit=20):
    """everything the directory / positioned reads / rdop2mats of pyYeti say about the file, canonical"""
    try:
        with _TimeLimit(limit):
            o2 = op2.OP2(path)
    except Exception as e:  # noqa: BLE001
        return {"open": _exc_class(e)}
    try:
        out = {"open": "ok", "endian": "b" if o2._endian == ">" else "l", "bit64": o2._ibytes == 8,
               "date": None if o2._date is None else [int(x) for x in o2._date],
               "label": None if o2._label is None else o2._label.encode().hex(),
               "postpos": int(o2._postheaderpos), "blocks": []}
        huge = False
        for sn in o2.dblist:
            b = {"name": sn.name.encode().hex(), "start": int(sn.start), "stop": int(sn.stop), "dbtype": int(sn.dbtype),
                 "size": [int(sn.size[0]), int(sn.size[1])], "trailer": [int(x) for x in sn.trailer],
                 "headers": [[[int(x) for x in h[0]], int(h[1])] for h in sn.headers]}
            if int(sn.stop) - int(sn.start) - 1 != int(sn.nbytes):
                b["nbytes"] = int(sn.nbytes)  # never present in the model's dump: shows up as a difference
            try:
                with _TimeLimit(limit):
                    o2.set_position(sn.start)
                    o2.goto_next()
                    b["goto"] = int(o2._fileh.tell())
            except Exception as e:  # noqa: BLE001
                b["goto"] = _exc_class(e)
            try:
                with _TimeLimit(limit):
                    o2.set_position(sn.start)
                    nm, tr, ty = o2.rdop2nt()
                    if nm is None:
                        b["content"] = ("E", "eof")
                    elif sn.dbtype > 0:
                        if abs(int(sn.size[0])) * abs(int(sn.size[1])) > _HUGE:
                            huge = True
                            b["content"] = ("E", "huge")
                        else:
                            X = o2.rdop2matrix(tr)
                            w = o2._fbytes if (tr[4] & 1) else 8
                            b["content"] = _canon_matrix(X, w) + (int(o2._fileh.tell()),)
                    else:
                        recs = []
                        while True:
                            r = o2.rdop2record()
                            if r is None:
                                break
                            recs.append([int(x) for x in r])
                        b["content"] = ("T", recs, int(o2._fileh.tell()))
            except Exception as e:  # noqa: BLE001
                b["content"] = ("E", _exc_class(e))
            out["blocks"].append(b)
        if huge or any(abs(b["size"][0]) * abs(b["size"][1]) > _HUGE for b in out["blocks"]):
            out["mats"] = ("E", "huge")
        else:
            try:
                with _TimeLimit(limit):
                    mats = o2.rdop2mats()
                lst = []
                for nm, X in mats.items():  # dict order = order of first appearance
                    sn = [x for x in o2.dblist if x.name == nm and x.dbtype == 1][-1]
                    lst.append((nm.encode().hex(), _canon_matrix(X, o2._fbytes if (sn.trailer[4] & 1) else 8)))
                out["mats"] = lst
            except Exception as e:  # noqa: BLE001
                out["mats"] = ("E", _exc_class(e))
        return out
    finally:
        if o2._fileh:
            o2._fileh.close()
            o2._fileh = None


class _Toks:
    def __init__(self, txt):
        self.t = txt.split(" ")
        self.i = 0

    def next(self):
        x = self.t[self.i]
        self.i += 1
        return x

    def int(self):
        return int(self.next())

    def ints(self):
        x = self.next()
        return [] if x == "-" else [int(y) for y in x.split(",")]

    def hex(self):
        x = self.next()
        return "" if x == "-" else x


def _parse_mat(tk):
    rows, cplx, width, ncols = tk.int(), tk.int() == 1, tk.int(), tk.int()
    cols = []
    for _ in range(ncols):
        n = tk.int()
        ent = [tk.next().split(":") for _ in range(n)]
        idx = [int(a) for a, _ in ent]
        bits = [int(b) for _, b in ent]
        if width == 4:
            bits = _f32_to_f64_bits(bits)
        cols.append(list(zip(idx, bits)))
    return ("M", rows, cplx, width, ncols, cols)


def _parse_rd2(txt):
    """the dump of driver command rd2 in the canonical form of _py_read_op2"""
    tk = _Toks(txt)
    head = tk.next()
    if head == "err":
        return {"open": tk.next()}
    if head != "ok":
        raise Infra("driver C11 rd2: unexpected reply %r" % txt[:80])
    out = {"open": "ok", "endian": tk.next(), "bit64": tk.next() == "1"}
    date, label, has = tk.ints(), tk.hex(), tk.next() == "1"
    out["date"] = date if has else None
    out["label"] = label if has else None
    out["postpos"] = tk.int()
    out["blocks"] = []
    for _ in range(tk.int()):
        if tk.next() != "B":
            raise Infra("driver C11 rd2: block expected")
        b = {"name": tk.hex(), "start": tk.int(), "stop": tk.int(), "dbtype": tk.int()}
        b["size"] = [int(x) for x in tk.next().split(",")]
        b["trailer"] = tk.ints()
        b["headers"] = [[tk.ints(), tk.int()] for _ in range(tk.int())]
        g = tk.next()
        b["goto"] = int(g) if g.lstrip("-").isdigit() else g
        kind = tk.next()
        if kind == "E":
            b["content"] = ("E", tk.next())
        elif kind == "M":
            b["content"] = _parse_mat(tk) + (tk.int(),)
        else:
            recs = [[tk.int() for _ in range(tk.int())] for _ in range(tk.int())]
            b["content"] = ("T", recs, tk.int())
        out["blocks"].append(b)
    if tk.next() != "MATS":
        raise Infra("driver C11 rd2: MATS expected")
    x = tk.next()
    if x == "E":
        out["mats"] = ("E", tk.next())
    else:
        lst = []
        for _ in range(int(x)):
            nm = tk.hex()
            if tk.next() != "M":
                raise Infra("driver C11 rd2: matrix expected")
            lst.append((nm, _parse_mat(tk)))
        out["mats"] = lst
    if tk.i != len(tk.t):
        raise Infra("driver C11 rd2: trailing tokens")
    return out


def _exotic(model):
    """the model met behaviour it does not describe (backward seek, non-ASCII label) somewhere"""
    if model["open"] in ("exotic", "fuel"):
        return True
    if model["open"] != "ok":
        return False
    for b in model["blocks"]:
        if b["content"][0] == "E" and b["content"][1] in ("exotic", "fuel"):
            return True
    return isinstance(model["mats"], tuple) and model["mats"][1] in ("exotic", "fuel")


def _first_diff(a, b, path=""):
    """None or (path, a-part, b-part) of the first difference of two canonical readings"""
    if isinstance(a, dict) and isinstance(b, dict):
        for k in sorted(set(a) | set(b)):
            if k not in a or k not in b:
                return (path + "/" + k, a.get(k, "<absent>"), b.get(k, "<absent>"))
            d = _first_diff(a[k], b[k], path + "/" + k)
            if d:
                return d
        return None
    if isinstance(a, (list, tuple)) and isinstance(b, (list, tuple)):
        if len(a) != len(b):
            return (path + "/len", len(a), len(b))
        for i, (x, y) in enumerate(zip(a, b)):
            d = _first_diff(x, y, "%s/%d" % (path, i))
            if d:
                return d
        return None
    if a != b:
        return (path, a, b)
    return None


def _expected_reading(case, positions):
    """the canonical reading that the logical content of a generated OUTPUT2 case stands for"""
    kb = 8 if case["bit64"] else 4
    out = {"open": "ok", "endian": case["endian"], "bit64": bool(case["bit64"]), "date": list(case["date"]),
           "label": case["label"].encode().hex(), "postpos": positions[0][0] if positions else None, "blocks": []}
    mats = {}
    for i, (b, (a, z)) in enumerate(zip(case["blocks"], positions)):
        e = {"name": b["name"].encode().hex(), "start": a, "stop": z, "dbtype": 1 if b["t"] == "m" else 0,
             "trailer": list(b["trailer"]), "goto": z}
        if b["t"] == "m":
            w = 4 if (b["single"] and not case["bit64"]) else 8
            e["size"] = [b["trailer"][2], b["trailer"][1]]
            e["headers"] = []
            cm = _canon_matrix(_op2_expected_matrix(b), w)
            e["content"] = cm + (z,)
            mats[e["name"]] = cm
        else:
            e["size"] = [0, 0]
            e["headers"] = [[list(p[:3]), len(p) * kb] for pieces in b["records"] for p in pieces]
            e["content"] = ("T", [[x for p in pieces for x in p] for pieces in b["records"]], z)
        out["blocks"].append(e)
    out["mats"] = [(k, v) for k, v in mats.items()]
    return out


def _sample_op2_files(ctx):
    root = os.path.join(ctx.repo, "pyyeti", "tests")
    files = sorted(glob.glob(os.path.join(root, "**", "*.op2"), recursive=True))
    keep = []
    for f in files:
        if os.path.getsize(f) > 3_000_000 and not ctx.thorough:
            ctx.skip("op2 sample file larger than 3 MB (quick tier)")
            continue
        keep.append(f)
    return keep


def _mutations(rng, data, n_trunc):
    """(kind, bytes): truncations at random positions, a wrong first word, the other key width announced"""
    out = []
    for _ in range(n_trunc):
        k = rng.choice([rng.randrange(0, len(data) + 1), rng.randrange(0, min(len(data), 400) + 1),
                        max(0, len(data) - rng.randint(1, 40))])
        out.append(("truncated", data[:k]))
    return out


def _malformed_content(rng, case):
    """(kind, case') : a copy of the case that violates ONE well-formedness hypothesis of the theorems; the file is
    still laid out by the (Python) encoder, so the framing is intact and the readers meet numpy's slice semantics
    (shape mismatch, broadcast of one value into an empty slice, negative start, column index) or the backward
    seek of rdop2tabheaders"""
    import copy

    c = copy.deepcopy(case)
    mats = [b for b in c["blocks"] if b["t"] == "m" and any(b["cols"])]
    tabs = [b for b in c["blocks"] if b["t"] == "t" and b["records"]]
    kinds = []
    if mats:
        kinds += ["string-too-long", "one-value-beyond", "row-zero", "extra-column", "fewer-columns", "row-far-beyond"]
    if tabs:
        kinds += ["short-piece", "empty-record"]
    kinds += ["no-columns"] if any(b["t"] == "m" for b in c["blocks"]) else []
    if not kinds:
        return None
    kind = rng.choice(kinds)
    if kind in ("string-too-long", "one-value-beyond", "row-zero", "row-far-beyond"):
        b = rng.choice(mats)
        rows = b["trailer"][2]
        mult = 2 if b["cplx"] else 1
        j = rng.choice([k for k, strs in enumerate(b["cols"]) if strs])
        i = rng.randrange(len(b["cols"][j]))
        r, vals = b["cols"][j][i]
        if kind == "string-too-long":
            b["cols"][j][i] = (rows - rng.randint(0, 1), vals + [1.5] * (mult * rng.randint(1, 2)))
        elif kind == "one-value-beyond":
            b["cols"][j][i] = (rows + rng.randint(1, 3), vals[:mult])
        elif kind == "row-far-beyond":
            b["cols"][j][i] = (rows + rng.randint(2, 9), vals)
        else:
            b["cols"][j][i] = (0, vals[: mult * rng.randint(1, 2)] or [2.5] * mult)
    elif kind == "extra-column":
        b = rng.choice(mats)
        b["cols"].append([(1, [3.25] * (2 if b["cplx"] else 1))] if rng.random() < 0.7 else [])
    elif kind == "fewer-columns":
        b = rng.choice(mats)
        b["trailer"][1] += rng.randint(1, 2)
    elif kind == "no-columns":
        b = rng.choice([b for b in c["blocks"] if b["t"] == "m"])
        b["cols"] = []
    elif kind == "short-piece":
        b = rng.choice(tabs)
        pieces = rng.choice(b["records"])
        k = rng.randrange(len(pieces))
        pieces[k] = pieces[k][: rng.randint(1, 2)]
    else:
        b = rng.choice(tabs)
        b["records"].insert(rng.randrange(len(b["records"]) + 1), [])
    return kind, c


def _reader_model_streams(ctx, op2, drv, sc, encoded):
    """streams (a) (b) (c) of the reader model: `encoded` = [(case, positions, bytes)] of the generated cases"""
    if sys.byteorder != "little":
        raise Infra("Model/Op2Read.lean assumes a little-endian host (struct.unpack('i') in _op2open)")
    rng = ctx.rng
    items = []  # (stream, input description, bytes, expected reading or None)
    for case, positions, data in encoded:
        items.append(("rd2:generated", case, data, _expected_reading(case, positions)))
    ngen = len(items)
    for f in _sample_op2_files(ctx):
        data = open(f, "rb").read()
        items.append(("rd2:sample-file", {"file": os.path.relpath(f, ctx.repo)}, data, None))
        if len(data) <= 60000:
            for kind, d in _mutations(rng, data, ctx.pick(3, 12)):
                items.append(("rd2:malformed-" + kind, {"file": os.path.relpath(f, ctx.repo), "cut": len(d)}, d, None))
    pick = list(range(ngen))
    rng.shuffle(pick)
    for i in pick[: ctx.pick(160, 1200)]:
        case, positions, data = encoded[i]
        if len(data) > 60000:
            continue
        cuts = [rng.randrange(0, len(data) + 1), rng.choice([a for a, _ in positions] + [z for _, z in positions])]
        for k in cuts:
            items.append(("rd2:malformed-truncated", {"case": case, "cut": k}, data[:k], None))
        r = rng.random()
        if r < 0.25:
            w = struct.pack("<i" if rng.random() < 0.5 else ">i", rng.choice([0, 1, 3, 5, 12, 16, -4, 2 ** 24 * 4, 1028]))
            items.append(("rd2:malformed-first-word", {"case": case, "word": w.hex()}, w + data[4:], None))
        elif r < 0.5:
            e = "<i" if case["endian"] == "l" else ">i"
            w = struct.pack(e, 4 if case["bit64"] else 8)
            items.append(("rd2:malformed-key-width", {"case": case, "word": w.hex()}, w + data[4:], None))
    for i in pick[: ctx.pick(260, 2000)]:
        case = encoded[i][0]
        if any(len(strs) and max(len(v) for _, v in strs) > 200 for b in case["blocks"] if b["t"] == "m" for strs in b["cols"]):
            continue
        m = _malformed_content(rng, case)
        if m is None:
            continue
        data, _ = _py_encode_op2(m[1])
        items.append(("rd2:malformed-content-" + m[0], {"case": m[1], "violates": m[0]}, data, None))
    rep = drv.ask(["rd2 " + d.hex() for _, _, d, _ in items])
    for (stream, desc, data, want), r in zip(items, rep):
        if r == "bad-op":
            raise Infra("driver C11 refused an rd2 request")
        model = _parse_rd2(r)
        if "kind" in desc:
            desc = _jsonable_case(desc)
        elif "case" in desc:
            desc = dict(desc, case=_jsonable_case(desc["case"]))
        ctx.case((stream, hashlib_key(data)), nontrivial=True, branch="stream:" + stream)
        if _exotic(model) and stream.startswith("rd2:malformed"):
            ctx.skip("reader model: behaviour outside the model (backward seek / non-ASCII label / garbage length) on a malformed file")
            continue
        if want is not None:
            d = _first_diff(want, model)
            if d:
                ctx.disagree(stream + ":model-vs-content" + d[0], desc, "content: %s" % (str(d[1])[:200]), "Lean reader: %s" % (str(d[2])[:200]))
                continue
        p = sc.path(".op2")
        open(p, "wb").write(data)
        impl = _py_read_op2(op2, p, limit=20 if stream == "rd2:sample-file" else 6)
        os.remove(p)
        d = _first_diff(impl, model)
        if d:
            ctx.disagree(stream + d[0], desc, str(d[1])[:300], str(d[2])[:300])
            if len(ctx.disagreements) > 80:
                break
            continue
        if model["open"] != "ok":
            ctx.count("rd2:open-raises-" + model["open"])
        else:
            ctx.count("rd2:open-ok")
            ctx.count("rd2:%s-%s" % (model["endian"], "64" if model["bit64"] else "32"))
            for b in model["blocks"]:
                ctx.count("rd2:block-" + {"M": "matrix", "T": "table", "E": "raises-" + str(b["content"][1])}[b["content"][0]])
                if b["content"][0] == "M":
                    ctx.count("rd2:matrix-width-%d-%s" % (b["content"][3], "complex" if b["content"][2] else "real"))



# -- the binary OUTPUT4 reader model (Model/Op4VariantsRead.lean, driver command rd4) against pyYeti -------------------


def _canon_dense(X):
    """per column [(index, float64 bits)] of the non-zero stored reals (two per complex element)"""
    X = np.asarray(X)
    rows, ncols = X.shape
    cplx = bool(np.iscomplexobj(X))
    if ncols == 0 or rows == 0:
        return [[] for _ in range(ncols)]
    raw = np.ascontiguousarray(X.T).view(np.float64).reshape(ncols, -1) if cplx else np.ascontiguousarray(X.T, dtype=np.float64).reshape(ncols, -1)
    b = raw.view(np.uint64)
    cols = []
    for j in range(ncols):
        idx = np.nonzero(b[j])[0]
        cols.append(list(zip(idx.tolist(), b[j][idx].tolist())))
    return cols


def _bits_exact(a):
    """float64 bit patterns, the sign of a zero kept (`_bits` maps -0.0 to +0.0)"""
    a = np.ascontiguousarray(a)
    if np.iscomplexobj(a):
        a = a.astype(np.complex128).view(np.float64)
    else:
        a = a.astype(np.float64)
    return a.reshape(-1).view(np.uint64).tolist()


def _canon_op4(names, mats, forms, mtypes):
    """canonical reading of op4.load(into='list'): (name, rows, cols, form, mtype, sparse, data)"""
    out = []
    for name, X, f, ty in zip(names, mats, forms, mtypes):
        if sp.issparse(X):
            X = X.tocoo() if not isinstance(X, (sp.coo_matrix, sp.coo_array)) else X
            w = 2 if np.iscomplexobj(X.data) else 1
            vb = _bits_exact(np.asarray(X.data))
            if int(ty) >= 3 and w == 1 and len(vb):
                raise Infra("complex matrix with real COO data")
            trip = [(int(i), int(j), tuple(vb[w * k: w * k + w])) for k, (i, j) in enumerate(zip(X.row.tolist(), X.col.tolist()))]
            out.append((name, int(X.shape[0]), int(X.shape[1]), int(f), int(ty), 1, trip))
        else:
            X = np.asarray(X)
            out.append((name, int(X.shape[0]), int(X.shape[1]), int(f), int(ty), 0, _canon_dense(X)))
    return out


def _parse_rd4_item(txt):
    f = txt.split(",")
    name = bytes.fromhex(f[0]).decode("latin1")
    rows, cols, form, mtype = int(f[1]), int(f[2]), int(f[3]), int(f[4])
    sparse, width, data = int(f[6]), int(f[7]), f[8]
    if data.startswith("put-error") or data == "huge":
        return (name, abs(rows), cols, form, mtype, sparse, data)
    toks = data.split()
    conv = _f32_to_f64_bits if width == 4 else (lambda b: b)
    if sparse:
        m = 2 if mtype >= 3 else 1
        vals = conv([int(t) for k, t in enumerate(toks) if k % (2 + m) >= 2])
        trip = []
        for k in range(len(toks) // (2 + m)):
            trip.append((int(toks[k * (2 + m)]), int(toks[k * (2 + m) + 1]), tuple(vals[k * m: k * m + m])))
        return (name, abs(rows), cols, form, mtype, 1, trip)
    colsl, i = [], 0
    while i < len(toks):
        n = int(toks[i])
        ent = [t.split(":") for t in toks[i + 1: i + 1 + n]]
        colsl.append(list(zip([int(a) for a, _ in ent], conv([int(b) for _, b in ent]))))
        i += 1 + n
    return (name, abs(rows), cols, form, mtype, 0, colsl)


def _parse_rd4(rep, listing=False):
    """('err', class) or the canonical reading"""
    if rep.startswith("err"):
        return ("err", rep.split(" ")[1])
    if not rep.startswith("ok"):
        raise Infra("driver C11 rd4: unexpected reply %r" % rep[:80])
    body = rep.split(" ", 3)
    items = body[3] if len(body) > 3 else ""
    if not items:
        return []
    if listing:
        out = []
        for t in items.split("|"):
            f = t.split(",")
            out.append((bytes.fromhex(f[0]).decode("latin1"), int(f[1]), int(f[2]), int(f[3]), int(f[4])))
        return out
    return [_parse_rd4_item(t) for t in items.split("|")]


def _op4_exc(e):
    c = _exc_class(e)
    return ("err", {"empty": "empty"}.get(c, c))


def _py_op4_load(op4, path, mode, namelist=None, cut=None, limit=20):
    """canonical reading by pyYeti's op4.load(into='list'), or ('err', exception class)"""
    try:
        with warnings.catch_warnings(), _TimeLimit(limit):
            warnings.simplefilter("ignore")
            o = op4.OP4()
            if cut is not None:
                o._rowsCutoff = cut
            return _canon_op4(*o.load(path, namelist=namelist, into="list", sparse=mode))
    except Infra:
        raise
    except Exception as e:  # noqa: BLE001
        return _op4_exc(e)


def _py_op4_dir(op4, path, limit=20):
    try:
        with warnings.catch_warnings(), _TimeLimit(limit):
            warnings.simplefilter("ignore")
            n, s, f, t = op4.dir(path, verbose=False)
        return [(a, int(b[0]), int(b[1]), int(c), int(d)) for a, b, c, d in zip(n, s, f, t)]
    except Exception as e:  # noqa: BLE001
        return _op4_exc(e)


def _expected_rd4(case, mode):
    """what the logical content of a generated op4bin case stands for, in the canonical form of _canon_op4"""
    out = []
    for m, mt in zip(case["mats"], _bin_mtypes(case)):
        D, trip, auto = _expected(m)
        sparse = auto if mode is None else mode
        if sparse:
            w = 2 if m["cplx"] else 1
            vb = _bits(np.array([x for _, _, x in trip], dtype=complex if m["cplx"] else float))
            data = [(i, j, tuple(vb[w * k: w * k + w])) for k, (i, j, _) in enumerate(trip)]
        else:
            data = _canon_dense(D)
        out.append((m["name"].lower(), m["rows"], m["ncols"], m["form"], mt, 1 if sparse else 0, data))
    return out


def _exotic4(model):
    return isinstance(model, tuple) and model and model[0] == "err" and model[1] in ("exotic", "fuel")


def _rd4_norm(model):
    """a 'put-error:<class>' item of the model stands for an exception of that class raised while the matrix is assembled"""
    if isinstance(model, list):
        for it in model:
            if len(it) > 6 and isinstance(it[6], str) and it[6].startswith("put-error"):
                return ("err", it[6].split(":")[1])
    return model


def _rd4_compare(ctx, stream, desc, impl, model):
    """exact comparison of two canonical readings"""
    model = _rd4_norm(model)
    if _exotic4(model):
        ctx.skip("OUTPUT4 reader model: behaviour outside the model (negative index / non-ASCII name / backward seek) on a malformed file")
        return True
    d = _first_diff(impl, model)
    if d:
        ctx.disagree(stream + d[0], desc, str(d[1])[:300], str(d[2])[:300])
        return False
    return True


def _op4_reader_streams(ctx, op4, drv, sc, encoded4):
    """`encoded4` = [(case, bytes)] of the generated binary OUTPUT4 cases (bytes from the Lean encoder)"""
    rng = ctx.rng
    modes = (("d", False), ("s", True), ("a", None))
    # (a) generated files: the reader model returns the encoded content (pyYeti = content is checked by _check_op4_file)
    req = ["rd4 3000 * - " + data.hex() for _, data in encoded4]
    rep = drv.ask(req) if req else []
    for (case, data), r in zip(encoded4, rep):
        parts = r.split(" ;; ")
        ctx.case(("rd4:generated", hashlib_key(data)), nontrivial=_nontrivial(case), branch="stream:rd4:generated")
        ok = True
        for k, (mc, flag) in enumerate(modes):
            model = _parse_rd4(parts[k])
            d = _first_diff(_expected_rd4(case, flag), model)
            if d:
                ctx.disagree("rd4:generated:model-vs-content-" + mc + d[0], _jsonable_case(case), "content: %s" % str(d[1])[:200], "Lean reader: %s" % str(d[2])[:200])
                ok = False
                break
        if ok:
            want = [(m["name"].lower(), m["rows"], m["ncols"], m["form"], mt) for m, mt in zip(case["mats"], _bin_mtypes(case))]
            d = _first_diff(want, _parse_rd4(parts[3], listing=True))
            if d:
                ctx.disagree("rd4:generated:model-dir-vs-content" + d[0], _jsonable_case(case), str(d[1])[:200], str(d[2])[:200])
        ctx.count("rd4:%s-%s-%s" % (case["endian"], "64" if case["bit64"] else "32", "single" if case["single"] else "double"))
        if len(ctx.disagreements) > 80:
            return
    # (b) named subsets, dict mode, other cut-offs, truncated files: model = pyYeti
    items = []  # (stream, desc, bytes, mode flag, namelist (python), names token, cut)
    pick = [i for i, (c, d) in enumerate(encoded4) if len(d) <= 120000]
    rng.shuffle(pick)
    for i in pick[: ctx.pick(260, 2000)]:
        case, data = encoded4[i]
        names = [m["name"].lower() for m in case["mats"]]
        nl = rng.choice([[names[-1]], [names[0], names[-1]], [names[0][: max(1, len(names[0]) - 1)]], [names[-1] + "x"],
                         [names[0].upper()], [rng.choice(names), "zz9"], list(reversed(names))])
        kind = ("prefix" if nl[0] not in names and any(n.startswith(nl[0]) for n in names) else
                "upper" if nl[0] != nl[0].lower() else "plain")
        mode = rng.choice([False, True, None])
        items.append(("rd4:named-" + kind, {"case": case, "namelist": nl}, data, mode, nl, ",".join(n.encode().hex() for n in nl), None))
        cut = rng.choice([0, 1, 2, 7, 2999, 3001, 10 ** 9])
        items.append(("rd4:cutoff", {"case": case, "cut": cut}, data, mode, None, "-", cut))
    for i in pick[: ctx.pick(160, 1200)]:
        case, data = encoded4[i]
        if len(data) > 60000:
            continue
        for k in (rng.randrange(0, len(data) + 1), max(0, len(data) - rng.randint(1, 40)), rng.randrange(0, min(len(data), 200) + 1)):
            items.append(("rd4:malformed-truncated", {"case": case, "cut": k}, data[:k], rng.choice([False, True, None]), None, "-", None))
    # contents that violate ONE well-formedness hypothesis of the theorems (the framing stays intact): numpy's slice
    # assignment / scipy's COO constructor decide what happens
    import copy

    for i in pick[: ctx.pick(200, 1500)]:
        case, _ = encoded4[i]
        cands = [(k, j, q) for k, m in enumerate(case["mats"]) for j, (c, strs) in enumerate(m["cols"]) for q in range(len(strs))
                 if m["rows"] < 100]
        if not cands:
            continue
        c2 = copy.deepcopy(case)
        k, j, q = rng.choice(cands)
        m = c2["mats"][k]
        mult = 2 if m["cplx"] else 1
        col, strs = m["cols"][j]
        r0, vals = strs[q]
        kind = rng.choice(["string-too-long", "one-value-beyond", "odd-complex" if m["cplx"] else "one-value-beyond"])
        if kind == "string-too-long":
            strs[q] = (m["rows"] - rng.randint(0, 1), vals + [1.5] * (mult * rng.randint(1, 2)))
        elif kind == "one-value-beyond":
            strs[q] = (m["rows"] + rng.randint(0, 2), vals[:mult])
        else:
            strs[q] = (r0, vals + [2.5])
        if m["lay"] == "n" and strs[q][0] + 1 >= 65536:
            continue
        items.append(("rd4:malformed-content-" + kind, {"case": c2, "violates": kind}, _py_encode_bin(c2), rng.choice([False, True, None]), None, "-", None))
    req = ["rd4 %d %s %s %s" % (3000 if cut is None else cut, {False: "d", True: "s", None: "a"}[mode], tok, data.hex())
           for _, _, data, mode, _, tok, cut in items]
    rep = drv.ask(req) if req else []
    for (stream, desc, data, mode, nl, tok, cut), r in zip(items, rep):
        ctx.case((stream, hashlib_key(data), str(mode), tok, cut), nontrivial=True, branch="stream:" + stream)
        model = _rd4_norm(_parse_rd4(r))
        p = sc.path(".op4")
        open(p, "wb").write(data)
        impl = _py_op4_load(op4, p, mode, namelist=nl, cut=cut, limit=8)
        if stream == "rd4:cutoff" and not isinstance(impl, tuple):
            base = _py_op4_load(op4, p, mode, limit=8)
            if base != impl:
                ctx.disagree("rd4:cutoff:pyyeti-default-vs-cut", {"case": _jsonable_case(desc["case"]), "cut": cut}, "cut-off %r changes the read" % cut, "the same matrices")
        if stream.startswith("rd4:named") and not isinstance(impl, tuple) and rng.random() < 0.5:
            # dict mode keeps the last occurrence of a repeated name, in order of first appearance
            try:
                with warnings.catch_warnings():
                    warnings.simplefilter("ignore")
                    dct = op4.load(p, namelist=nl, into="dct", sparse=mode)
                lst = {}
                for it in impl:
                    lst[it[0]] = it
                got = _canon_op4(list(dct), [v[0] for v in dct.values()], [v[1] for v in dct.values()], [v[2] for v in dct.values()])
                if got != list(lst.values()):
                    ctx.disagree("rd4:named:dict-vs-list", {"case": _jsonable_case(desc["case"]), "namelist": nl}, [g[:5] for g in got], [g[:5] for g in lst.values()])
                ctx.count("rd4:dict-mode")
            except Exception as e:  # noqa: BLE001
                ctx.disagree("rd4:named:dict-raises", {"case": _jsonable_case(desc["case"]), "namelist": nl}, repr(e), "a dictionary")
        os.remove(p)
        dj = dict(desc, case=_jsonable_case(desc["case"]))
        if (stream == "rd4:malformed-truncated" and model == ("err", "struct") and isinstance(impl, tuple) and impl[0] == "err"
                and impl[1] in ("value", "index")):
            # pyYeti puts every string into the matrix as soon as it is read, the model collects the puts and applies them
            # after the read: on a file cut inside a string read by numpy.fromfile (which returns the values that are
            # there) an odd number of reals of a complex string makes the put raise before the short read is noticed
            ctx.count("rd4:truncated-put-raises-before-the-short-read")
            continue
        if _rd4_compare(ctx, stream, dj, impl, model):
            if isinstance(model, tuple):
                ctx.count("rd4:raises-" + model[1])
            elif stream.startswith("rd4:named"):
                ctx.count("rd4:named-selects-%s" % ("none" if not model else "some"))
        if len(ctx.disagreements) > 80:
            return


def _op4_sample_files(ctx, op4, drv):
    """EVERY *.op4 under pyyeti/tests: binary files by the reader model of Model/Op4VariantsRead.lean (rd4), ASCII files
    by the ASCII reader model of Model/Op4Ascii.lean (driver C04, adec *) - three read modes and the listing"""
    from props import c04 as _c04

    root = os.path.join(ctx.repo, "pyyeti", "tests")
    files = sorted(glob.glob(os.path.join(root, "**", "*.op4"), recursive=True))
    breq, bfiles, areq, afiles = [], [], [], []
    for f in files:
        data = open(f, "rb").read()
        if len(data) > 400000 and not ctx.thorough:
            ctx.skip("op4 sample file larger than 400 kB (quick tier)")
            continue
        if len(data) >= 16 and min(data[:4]) == 0:
            breq.append("rd4 3000 * - " + data.hex())
            bfiles.append(f)
        else:
            dr = _py_op4_dir(op4, f, limit=120)
            huge = isinstance(dr, list) and any(a[1] * a[2] > 20000000 for a in dr)
            # a dense read of a 1e7 x 1e7 matrix is impossible on both sides: sparse read and listing only
            areq.append(("adec s " if huge else "adec * ") + data.hex())
            if huge:
                areq.append("adir " + data.hex())
            afiles.append((f, huge, dr))
    brep = drv.ask(breq) if breq else []
    for f, r in zip(bfiles, brep):
        name = os.path.relpath(f, ctx.repo)
        parts = r.split(" ;; ")
        dr = _py_op4_dir(op4, f, limit=120)
        huge = isinstance(dr, list) and any(a[1] * a[2] > 20000000 for a in dr)
        for k, (mc, flag) in enumerate((("d", False), ("s", True), ("a", None))):
            ctx.case(("rd4:sample-file", name, mc), nontrivial=True, branch="stream:rd4:sample-file")
            model = _parse_rd4(parts[k])
            if huge and isinstance(model, list) and any(it[6] == "huge" for it in model):
                ctx.skip("op4 sample file with a matrix of more than 2e7 elements: dense read skipped")
                continue
            impl = _py_op4_load(op4, f, flag, limit=120)
            _rd4_compare(ctx, "rd4:sample-file:" + mc, {"file": name}, impl, model)
        ctx.case(("rd4:sample-file", name, "dir"), nontrivial=True, branch="stream:rd4:sample-file")
        _rd4_compare(ctx, "rd4:sample-file:dir", {"file": name}, dr, _parse_rd4(parts[3], listing=True))
        if isinstance(dr, list):
            o = op4.OP4()
            o._op4open_read(f)
            ctx.count("rd4:sample-%s-%s" % ("be" if o._endian == ">" else "le", "64" if o._bit64 else "32"))
            o._op4close()
            for a in dr:
                ctx.count("rd4:sample-mtype-%d" % a[4])
    arep = ctx.driver("C04").ask(areq) if areq else []
    k0 = 0
    for f, huge, dr in afiles:
        name = os.path.relpath(f, ctx.repo)
        if huge:
            parts = [None, arep[k0], None, arep[k0 + 1]]
            k0 += 2
            ctx.skip("op4 ASCII sample file with a matrix of more than 2e7 elements: dense read skipped")
        else:
            parts = arep[k0].split(" ;; ")
            k0 += 1
            if len(parts) != 4:
                ctx.disagree("asc:sample-file:driver", {"file": name}, "a reading", arep[k0 - 1][:100])
                continue
        for k, (mc, flag) in enumerate((("d", False), ("s", True), ("a", None))):
            if parts[k] is None:
                continue
            ctx.case(("asc:sample-file", name, mc), nontrivial=True, branch="stream:asc:sample-file")
            model = _c04._parse_dec(parts[k])
            try:
                with warnings.catch_warnings(), _TimeLimit(120):
                    warnings.simplefilter("ignore")
                    impl = _c04._canon_loaded(*op4.load(f, into="list", sparse=flag))
            except Exception as e:  # noqa: BLE001
                impl = "raises " + type(e).__name__
            if impl != model:
                d = _first_diff(impl, model) if isinstance(model, list) and isinstance(impl, list) else ("", impl, model)
                ctx.disagree("asc:sample-file:" + mc + d[0], {"file": name}, str(d[1])[:300], str(d[2])[:300])
        ctx.case(("asc:sample-file", name, "dir"), nontrivial=True, branch="stream:asc:sample-file")
        md = _c04._parse_dir(parts[3])
        if md != dr:
            ctx.disagree("asc:sample-file:dir", {"file": name}, str(dr)[:300], str(md)[:300])
        if isinstance(dr, list):
            for a in dr:
                ctx.count("asc:sample-mtype-%d" % a[4])


def _asc_reader_streams(ctx, op4, drv, sc, encodedA):
    """generated ASCII variant files (E / D exponents, any announced nEw.d, all layouts and partitions): the ASCII
    reader model of Model/Op4Ascii.lean (driver C04: adec *) and the name-list loop of Model/Op4VariantsAscii.lean
    (driver C11: rda) against pyYeti"""
    from props import c04 as _c04

    rng = ctx.rng
    pick = list(range(len(encodedA)))
    rng.shuffle(pick)
    pick = pick[: ctx.pick(260, 2500)]
    rep = ctx.driver("C04").ask(["adec * " + encodedA[i][1].hex() for i in pick]) if pick else []
    named = []
    for i, r in zip(pick, rep):
        case, data = encodedA[i]
        parts = r.split(" ;; ")
        ctx.case(("asc:generated", hashlib_key(data)), nontrivial=_nontrivial(case), branch="stream:asc:generated")
        p = sc.path(".op4")
        open(p, "wb").write(data)
        ok = len(parts) == 4
        if not ok:
            ctx.disagree("asc:generated:driver", _jsonable_case(case), "a reading", r[:100])
        for k, (mc, flag) in enumerate((("d", False), ("s", True), ("a", None))):
            if not ok:
                break
            model = _c04._parse_dec(parts[k])
            try:
                with warnings.catch_warnings(), _TimeLimit(15):
                    warnings.simplefilter("ignore")
                    impl = _c04._canon_loaded(*op4.load(p, into="list", sparse=flag))
            except Exception as e:  # noqa: BLE001
                impl = "raises " + type(e).__name__
            if impl != model:
                d = _first_diff(impl, model) if isinstance(model, list) and isinstance(impl, list) else ("", impl, model)
                ctx.disagree("asc:generated:" + mc + d[0], _jsonable_case(case), str(d[1])[:300], str(d[2])[:300])
                ok = False
        if ok:
            md, dr = _c04._parse_dir(parts[3]), _py_op4_dir(op4, p)
            if md != dr:
                ctx.disagree("asc:generated:dir", _jsonable_case(case), str(dr)[:300], str(md)[:300])
            ctx.count("asc:model-%s" % ("D" if case["useD"] else "E"))
            names = [m["name"].lower() for m in case["mats"]]
            nl = rng.choice([[names[-1]], [names[0][: max(1, len(names[0]) - 1)]], [names[0].upper()], [rng.choice(names), "zz9"],
                             list(reversed(names))])
            named.append((case, data, nl))
        os.remove(p)
        if len(ctx.disagreements) > 80:
            return
    rep = drv.ask(["rda %s %s" % (",".join(n.encode().hex() for n in nl), data.hex()) for _, data, nl in named]) if named else []
    for (case, data, nl), r in zip(named, rep):
        ctx.case(("asc:named", hashlib_key(data), tuple(nl)), nontrivial=True, branch="stream:asc:named")
        p = sc.path(".op4")
        open(p, "wb").write(data)
        try:
            with warnings.catch_warnings(), _TimeLimit(15):
                warnings.simplefilter("ignore")
                n, X, fo, t = op4.load(p, namelist=nl, into="list")
            impl = [(a, int(x.shape[0]), int(x.shape[1]), int(b), int(c)) for a, x, b, c in zip(n, X, fo, t)]
        except Exception as e:  # noqa: BLE001
            impl = "raises " + type(e).__name__
        os.remove(p)
        if r.startswith("ok"):
            model = []
            for it in (r[3:].split("|") if r[3:] else []):
                f = it.split(",")
                model.append((bytes.fromhex(f[0]).decode("latin1"), abs(int(f[1])), int(f[2]), int(f[3]), int(f[4])))
        else:
            model = "raises"
        if impl != model:
            ctx.disagree("asc:named", {"case": _jsonable_case(case), "namelist": nl}, str(impl)[:300], str(model)[:300])
        else:
            ctx.count("asc:named-selects-%s" % ("none" if not model else "some"))



# -- rdop2record(form, N) and rdop2mats(names, which): Model/Op2ReadForms.lean (driver commands rec2, mats2) ---------

_FORMS = {"i": "int", "u": "uint", "s": "single", "d": "double", "b": "bytes"}


def _py_record(o2, pos, form, N, kb, cut):
    """canonical result of o2.rdop2record(form, N) called at byte `pos`: ('err', class) | ('none', consumed) |
    ('ok', consumed, [bit patterns / bytes])"""
    o2._rowsCutoff = cut
    o2._fileh.seek(pos)
    try:
        with _TimeLimit(8):
            r = o2.rdop2record(form=_FORMS[form], N=N)
    except Exception as e:  # noqa: BLE001
        return ("err", _exc_class(e))
    finally:
        o2._rowsCutoff = 3000
    used = int(o2._fileh.tell()) - pos
    if r is None:
        return ("none", used)
    if form == "b":
        return ("ok", used, list(r))
    a = np.asarray(r)
    if form in ("i", "u"):
        return ("ok", used, [int(x) % (1 << (8 * kb)) for x in a.tolist()])
    if form == "s":
        return ("ok", used, np.ascontiguousarray(a, dtype=np.float32).view(np.uint32).tolist())
    return ("ok", used, np.ascontiguousarray(a, dtype=np.float64).view(np.uint64).tolist())


def _parse_rec2(r):
    t = r.split(" ")
    if t[0] == "err":
        return ("err", t[1])
    if t[0] == "none":
        return ("none", int(t[1]))
    if t[0] != "ok":
        raise Infra("driver C11 rec2: unexpected reply %r" % r[:80])
    return ("ok", int(t[1]), [int(x) for x in t[3:3 + int(t[2])]])


def _op2_forms_stream(ctx, op2, drv, sc, encoded):
    rng = ctx.rng
    cand = [i for i, (case, _, data) in enumerate(encoded) if len(data) < 150000 and any(b["t"] == "t" and b["records"] for b in case["blocks"])]
    rng.shuffle(cand)
    items = []
    for i in cand[: ctx.pick(120, 900)]:
        case, positions, data = encoded[i]
        kb = 8 if case["bit64"] else 4
        p = sc.path(".op2")
        open(p, "wb").write(data)
        try:
            o2 = op2.OP2(p)
        except Exception as e:  # noqa: BLE001
            ctx.disagree("rec2:open-raises", _jsonable_case(case), repr(e), "an open file")
            os.remove(p)
            continue
        try:
            for sn, b in zip(o2.dblist, case["blocks"]):
                if b["t"] != "t" or not b["records"]:
                    continue
                o2.set_position(sn.start)
                o2.rdop2nt()
                starts = []
                for pieces in b["records"]:
                    starts.append(int(o2._fileh.tell()))
                    o2.skipop2record()
                starts.append(int(o2._fileh.tell()))  # the end-of-table key: rdop2record returns None
                for k in rng.sample(range(len(starts)), min(len(starts), 2)):
                    pos = starts[k]
                    total = sum(len(pc) for pc in b["records"][k]) if k < len(b["records"]) else 0
                    big = total > 400
                    for form in (["i", rng.choice("usdb")] if big else ["i", "u", "s", "d", "b"]):
                        w = {"i": kb, "u": kb, "s": 4, "d": 8, "b": 1}[form]
                        n_items = total * kb // w
                        for N in ({0, n_items} if big else {0, n_items, max(0, n_items - 1), n_items + 2, 1}):
                            cut = rng.choice([3000, 3000, 0, 2, 10 ** 9])
                            impl = _py_record(o2, pos, form, N, kb, cut)
                            items.append((case, pos, form, N, cut, data, impl, k < len(b["records"]) and
                                          any((len(pc) * kb) % w for pc in b["records"][k])))
        finally:
            o2._fileh.close()
            o2._fileh = None
            os.remove(p)
    rep = drv.ask(["rec2 %s %d %d %s %d %s" % (case["endian"], 1 if case["bit64"] else 0, cut, form, N, data[pos:].hex())
                   for case, pos, form, N, cut, data, _, _ in items]) if items else []
    for (case, pos, form, N, cut, data, impl, misaligned), r in zip(items, rep):
        stream = "rec2:%s" % _FORMS[form]
        ctx.case((stream, hashlib_key(data), pos, N, cut), nontrivial=True, branch="stream:" + stream)
        model = _parse_rec2(r)
        if model[0] == "err" and model[1] in ("exotic", "fuel"):
            ctx.skip("rdop2record: N larger than the record (uninitialised tail of np.empty) or behaviour outside the model")
            continue
        if impl != model:
            ctx.disagree(stream, {"case": _jsonable_case(case), "pos": pos, "form": _FORMS[form], "N": N, "cut": cut},
                         str(impl)[:300], str(model)[:300])
            if len(ctx.disagreements) > 80:
                return
            continue
        ctx.count("rec2:N%s" % ("=0" if N == 0 else ">0"))
        ctx.count("rec2:result-%s" % model[0])
        if form == "u" and case["bit64"] and model[0] == "ok" and cut > len(model[2]) and any(x >= 1 << 63 for x in model[2]):
            # the input family of the repaired finding F50: model and code agree on the UNSIGNED value on the struct path
            ctx.count("rec2:uint-i64-top-bit-below-cutoff")
        if misaligned:
            ctx.count("rec2:piece-length-not-a-multiple-of-the-item-width")
        if model[0] == "ok" and N == 0 and cut != 3000:
            ctx.count("rec2:other-cutoff")


def _canon_mats(d):
    """rdop2mats result -> [(namehex, [canonical matrices])] in dict order"""
    out = []
    for nm, X in d.items():
        Xs = X if isinstance(X, list) else [X]
        out.append((nm.encode().hex(), Xs))
    return out


def _op2_mats_stream(ctx, op2, drv, sc, encoded):
    rng = ctx.rng
    cand = [i for i, (case, _, data) in enumerate(encoded) if len(data) < 80000 and any(b["t"] == "m" for b in case["blocks"])]
    rng.shuffle(cand)
    items = []
    for i in cand[: ctx.pick(200, 1500)]:
        case, positions, data = encoded[i]
        mnames = [b["name"] for b in case["blocks"] if b["t"] == "m"]
        nm = rng.choice(mnames)
        choices = [None, [nm.lower()], [nm[: max(1, len(nm) - 1)].lower() + "*"], [nm[: max(1, len(nm) - 1)]], ["*"], [nm, "zz*"],
                   [nm + "x"], [""], ["k*", nm.lower()], [nm[0].lower() + "*"]]
        for names in rng.sample(choices, 3):
            which = rng.choice([-1, -1, 0, 1, -2, "all", 5])
            items.append((case, data, names, which))
    req = []
    for case, data, names, which in items:
        tok = "-" if names is None else ",".join(n.encode().hex() if n else "" for n in names)
        if names is not None and any(n == "" for n in names):
            tok = ",".join(n.encode().hex() for n in names)  # an empty pattern is an empty hex token
        req.append("mats2 %s %s %s" % (which, tok if tok else ",", data.hex()))
    rep = drv.ask(req) if req else []
    for (case, data, names, which), r in zip(items, rep):
        kind = "none" if names is None else ("wildcard" if any(n.endswith("*") for n in names) else "plain")
        stream = "mats2:names-%s" % kind
        ctx.case((stream, hashlib_key(data), str(names), str(which)), nontrivial=True, branch="stream:" + stream)
        if r.startswith("err"):
            model = ("err", r.split(" ")[1])
        else:
            tk = _Toks(r)
            tk.next()
            model = []
            for _ in range(tk.int()):
                nmh = tk.hex()
                ms = []
                for _ in range(tk.int()):
                    if tk.next() != "M":
                        raise Infra("driver C11 mats2: matrix expected")
                    ms.append(_parse_mat(tk))
                model.append((nmh, ms))
        if isinstance(model, tuple) and model[1] in ("exotic", "fuel"):
            ctx.skip("rdop2mats: behaviour outside the model")
            continue
        p = sc.path(".op2")
        open(p, "wb").write(data)
        try:
            o2 = op2.OP2(p)
            try:
                with _TimeLimit(10):
                    d = o2.rdop2mats(names=names, which=which)
                impl = []
                for nmh, Xs in _canon_mats(d):
                    sns = [x for x in o2.dblist if x.name.encode().hex() == nmh and x.dbtype == 1]
                    w = o2._fbytes if (sns[0].trailer[4] & 1) else 8
                    # all blocks of one name may differ in precision: take each matrix's own width
                    ws = [o2._fbytes if (x.trailer[4] & 1) else 8 for x in sns]
                    if which == "all":
                        impl.append((nmh, [_canon_matrix(X, wk) for X, wk in zip(Xs, ws)]))
                    else:
                        impl.append((nmh, [_canon_matrix(Xs[0], ws[which])]))
            finally:
                o2._fileh.close()
                o2._fileh = None
        except Exception as e:  # noqa: BLE001
            impl = ("err", _exc_class(e))
        os.remove(p)
        d = _first_diff(impl, model)
        if d:
            ctx.disagree(stream + d[0], {"case": _jsonable_case(case), "names": names, "which": which}, str(d[1])[:300], str(d[2])[:300])
            if len(ctx.disagreements) > 80:
                return
            continue
        ctx.count("mats2:which-%s" % which)
        if isinstance(model, tuple):
            ctx.count("mats2:raises-" + model[1])
        elif names is not None:
            ctx.count("mats2:selects-%s" % ("none" if not model else "some"))


def hashlib_key(data):
    import hashlib

    return hashlib.blake2b(data, digest_size=8).hexdigest()

# ---------------------------------------------------------------------------------------------
# model-free oracle


def _family(case, what):
    if case["kind"] == "op4bin":
        lays = "+".join(sorted({m["lay"] for m in case["mats"]}))
        return "op4-variant-%s-%s-%s-%s-%s" % ("be" if case["endian"] == "b" else "le", "i64" if case["bit64"] else "i32",
                                              "single" if case["single"] else "double", lays, what)
    if case["kind"] == "op2":
        return "op2-%s-%s-%s" % ("be" if case["endian"] == "b" else "le", "i64" if case["bit64"] else "i32", what)
    return "op4-ascii-variant-%s-%s" % ("D" if case["useD"] else "E", what)


def _name_test(name, namelist):
    """the documented name test of op4.load(namelist=...): the (lower-case) matrix name is one of the names given"""
    return (not namelist) or name in ([namelist] if isinstance(namelist, str) else list(namelist))


def _oracle_op4_subsets(op4, path, mats):
    """named subset = filter of the full read (exact name test, all occurrences, file order); dict mode = last
    occurrence per name; the result does not depend on _rowsCutoff.  Public API only."""
    names = [m["name"].lower() for m in mats]
    try:
        with warnings.catch_warnings(), _TimeLimit(15):
            warnings.simplefilter("ignore")
            fn, fm, ff, ft = op4.load(path, into="list")
            full = list(zip(fn, [_bits(np.asarray(x)) for x in fm], map(int, ff), map(int, ft)))
            distinct = list(dict.fromkeys(names))
            cands = [names[0][: max(1, len(names[0]) - 1)], [names[-1] + "x"], [names[0].upper()], list(reversed(names))]
            for nm in distinct:
                cands += [nm, [nm]]
            if len(distinct) > 1:
                cands.append([distinct[-1], distinct[0]])
            for nl in cands:
                sn, sm, sf, st = op4.load(path, namelist=nl, into="list")
                got = list(zip(sn, [_bits(np.asarray(x)) for x in sm], map(int, sf), map(int, st)))
                want = [t for t in full if _name_test(t[0], nl)]
                if got != want:
                    return ("named-subset-is-not-the-filter", {"namelist": nl, "returned": [g[0] for g in got]}, [w[0] for w in want])
                d = op4.load(path, namelist=nl, into="dct")
                wd = {}
                for t in want:
                    wd[t[0]] = t
                gd = [(k, _bits(np.asarray(v[0])), int(v[1]), int(v[2])) for k, v in d.items()]
                if gd != list(wd.values()):
                    return ("dict-mode-is-not-last-occurrence", {"namelist": nl, "returned": [g[0] for g in gd]}, list(wd))
                rd = op4.read(path, namelist=nl)
                if [(k, _bits(np.asarray(v))) for k, v in rd.items()] != [(k, t[1]) for k, t in wd.items()]:
                    return ("read-is-not-last-occurrence", {"namelist": nl, "returned": list(rd)}, list(wd))
            for cut in (1, 10 ** 9):
                o = op4.OP4()
                o._rowsCutoff = cut
                cn, cm, cf, ct = o.load(path, into="list")
                if list(zip(cn, [_bits(np.asarray(x)) for x in cm], map(int, cf), map(int, ct))) != full:
                    return ("cutoff-changes-the-read", {"_rowsCutoff": cut}, "the same matrices as with the default 3000")
    except TimeoutError as e:
        return ("timeout", str(e), "a read that terminates")
    except Exception as e:  # noqa: BLE001
        return ("named-read-raises", "%s: %s" % (type(e).__name__, e), "the named matrices")
    return None


# family of finding F50 (repaired in pyYeti b194dbc); the fixed oracle cases below stay as a regression guard
_FIXED_F50 = "op2-rdop2record-uint-i64-struct-format-stays-signed"


def _oracle_op2_forms(op2, path, case):
    """every form of rdop2record decodes the same bytes (reinterpreted), N = item count changes nothing, the
    cut-off changes nothing; rdop2mats(names, which) = filter of rdop2mats(which) by the documented name test.
    Public API only (plus the logical content the file was encoded from)."""
    e = "<" if case["endian"] == "l" else ">"
    kb = 8 if case["bit64"] else 4
    o2 = op2.OP2(path)
    finding = None
    try:
        for sn, b in zip(o2.dblist, case["blocks"]):
            if b["t"] != "t":
                continue
            o2.set_position(sn.start)
            o2.rdop2nt()
            starts = []
            for _ in b["records"]:
                starts.append(o2._fileh.tell())
                o2.skipop2record()
            for pos, pieces in list(zip(starts, b["records"]))[:3]:
                B = b"".join(struct.pack(e + "%d%s" % (len(pc), "q" if kb == 8 else "i"), *pc) for pc in pieces)
                for form, dt, w in (("int", e + ("i8" if kb == 8 else "i4"), kb), ("uint", e + ("u8" if kb == 8 else "u4"), kb),
                                    ("single", e + "f4", 4), ("double", e + "f8", 8), ("bytes", None, 1)):
                    if any((len(pc) * kb) % w for pc in pieces):
                        continue  # reclen // bytes_per drops a partial item: outside the property
                    want = list(B) if dt is None else np.frombuffer(B, dtype=dt)
                    for cut in (3000, 0):
                        for N in ((0,) if dt is None else (0, len(want))):
                            o2._rowsCutoff = cut
                            o2._fileh.seek(pos)
                            try:
                                got = o2.rdop2record(form, N)
                            except Exception as ex:  # noqa: BLE001
                                o2._rowsCutoff = 3000
                                fam = _FIXED_F50 if (form == "uint" and kb == 8 and isinstance(ex, OverflowError)) else None
                                if fam:  # the known family: note it once, go on with the other checks
                                    finding = finding or ("rdop2record-form-raises", {"form": form, "N": N, "_rowsCutoff": cut,
                                                          "record": [list(pc) for pc in pieces][:4], "raises": "%s: %s" % (type(ex).__name__, ex)},
                                                          "the payload bytes read as uint (as with _rowsCutoff = 0)", fam)
                                    continue
                                return ("rdop2record-form-raises", {"form": form, "N": N, "_rowsCutoff": cut, "record": [list(pc) for pc in pieces][:4],
                                                                    "raises": "%s: %s" % (type(ex).__name__, ex)},
                                        "the payload bytes read as %s" % form, fam)
                            o2._rowsCutoff = 3000
                            if dt is None:
                                same = list(got) == want
                            else:
                                g = np.asarray(got)
                                same = g.dtype.itemsize == w and g.astype(g.dtype.newbyteorder(e)).tobytes() == B
                            if not same:
                                return ("rdop2record-form-differs", {"form": form, "N": N, "_rowsCutoff": cut}, "the payload bytes read as %s" % form, None)
        mblocks = [b for b in case["blocks"] if b["t"] == "m"]
        if mblocks:
            byname = {}
            for b in mblocks:
                byname.setdefault(b["name"], []).append(_bits(_op2_expected_matrix(b)))
            nm = mblocks[0]["name"]
            for names in (None, [nm.lower()], [nm[: max(1, len(nm) - 1)].lower() + "*"], [nm[: max(1, len(nm) - 1)]], ["*"], [nm + "x", nm]):
                for which in (-1, 0, 1, -2, "all"):
                    try:
                        d = o2.rdop2mats(names=names, which=which)
                    except IndexError:
                        d = "IndexError"

                    def ok(name):
                        if names is None:
                            return True
                        for p in names:
                            p = p.upper()
                            if (name.startswith(p[:-1]) if p.endswith("*") else name == p):
                                return True
                        return False

                    sel = {k: v for k, v in byname.items() if ok(k)}
                    if which != "all" and any(not (-len(v) <= which < len(v)) for v in sel.values()):
                        want = "IndexError"  # Python indexing of the occurrences
                    else:
                        want = {k: (v if which == "all" else [v[which]]) for k, v in sel.items()}
                    got = d if isinstance(d, str) else {k: [_bits(x) for x in (v if which == "all" else [v])] for k, v in d.items()}
                    if isinstance(got, str) or isinstance(want, str):
                        if got != want:
                            return ("rdop2mats-names-which", {"names": names, "which": which, "returned": got if isinstance(got, str) else list(got)},
                                    want if isinstance(want, str) else list(want), None)
                        continue
                    if list(got) != list(want) or got != want:
                        return ("rdop2mats-names-which", {"names": names, "which": which, "returned": list(got)}, list(want), None)
    finally:
        o2._fileh.close()
        o2._fileh = None
    return finding


def _oracle_case(ctx, sc, case):
    """encode with the independent Python encoder, read with pyYeti; returns failure tuple or None"""
    if case["kind"] == "op4bin":
        p = sc.path(".op4")
        open(p, "wb").write(_py_encode_bin(case))
        r = _check_op4_file(_op4(), p, case["mats"], _bin_mtypes(case))
        if r is None and case["mats"]:
            r = _oracle_op4_subsets(_op4(), p, case["mats"])
        return r
    if case["kind"] == "op2":
        data, pos = _py_encode_op2(case)
        p = sc.path(".op2")
        open(p, "wb").write(data)
        r = _check_op2_file(_op2(), p, case, pos)
        if r is None:
            try:
                with _TimeLimit(30):
                    r = _oracle_op2_forms(_op2(), p, case)
            except TimeoutError as e:
                r = ("timeout", str(e), "a read that terminates")
            except Exception as e:  # noqa: BLE001
                r = ("forms-or-rdop2mats-raise", "%s: %s" % (type(e).__name__, e), "the encoded records and matrices")
        return r
    return None


def _oracle_ascii(ctx, sc):
    """ASCII files written by pyYeti's own writer (public API): dir lists what load returns, a named read is the
    filter of the full read, dict mode keeps the last occurrence"""
    op4 = _op4()
    rng = ctx.rng
    for it in range(ctx.pick(40, 400)):
        ctx.count("oracle:op4-ascii-written")
        n = rng.randint(1, 4)
        n = rng.choice([1, 2, 3, 4, 5, 7])
        names = [_name(rng).lower() for _ in range(n)]
        if n > 1 and rng.random() < 0.6:
            for i in range(1, n):
                if rng.random() < 0.45:
                    names[i] = names[rng.randrange(i)]
        elif n > 1 and rng.random() < 0.4 and len(names[0]) < 8:
            names[-1] = names[0] + "x"
        mats = []
        for _ in range(n):
            r, c = rng.choice([1, 2, 5, 9]), rng.choice([1, 2, 4])
            A = np.array([[float(rng.randint(-9, 9)) / rng.choice([1, 2, 4]) if rng.random() < 0.6 else 0.0 for _ in range(c)] for _ in range(r)])
            if rng.random() < 0.3:
                A = A + 1j * np.roll(A, 1, axis=0)
            mats.append(A)
        p = sc.path(".op4")
        sparse = rng.choice(["dense", "bigmat", "nonbigmat"])
        try:
            with warnings.catch_warnings(), _TimeLimit(20):
                warnings.simplefilter("ignore")
                op4.write(p, names, mats, binary=False, digits=rng.choice([9, 16]), sparse=sparse)
                dn, ds, df, dt = op4.dir(p, verbose=False)
                fn, fm, ff, ft = op4.load(p, into="list")
                bad = None
                if not (dn == fn == names and [tuple(map(int, x)) for x in ds] == [m.shape for m in mats] == [x.shape for x in fm]
                        and list(map(int, df)) == list(map(int, ff)) and list(map(int, dt)) == list(map(int, ft))):
                    bad = ("dir-vs-load", [dn, [tuple(map(int, x)) for x in ds]], [fn, [x.shape for x in fm]])
                distinct = list(dict.fromkeys(names))
                asks = [[names[0][: max(1, len(names[0]) - 1)]], [names[0].upper()], [names[0], "zz9"]]
                for nm in distinct:
                    asks += [nm, [nm]]
                if len(distinct) > 1:
                    asks.append([distinct[-1], distinct[0]])
                for nl in asks:
                    if bad:
                        break
                    sn, sm, sf, st = op4.load(p, namelist=nl, into="list")
                    want = [(a, _bits(np.asarray(x))) for a, x in zip(fn, fm) if a in ([nl] if isinstance(nl, str) else nl)]
                    if [(a, _bits(np.asarray(x))) for a, x in zip(sn, sm)] != want:
                        bad = ("named-subset-is-not-the-filter", {"namelist": nl, "returned": sn}, [w[0] for w in want])
                    d = op4.load(p, namelist=nl, into="dct", justmatrix=True)
                    wd = {}
                    for a, x in want:
                        wd[a] = x
                    if [(k, _bits(np.asarray(v))) for k, v in d.items()] != list(wd.items()):
                        bad = ("dict-mode-is-not-last-occurrence", {"namelist": nl, "returned": list(d)}, list(wd))
            if bad:
                ctx.fail("op4-ascii-written-%s-%s" % (sparse, bad[0]), "ASCII file written by op4.write: " + bad[0],
                         {"names": names, "shapes": [list(m.shape) for m in mats], "sparse": sparse}, bad[1], bad[2])
        except Exception as e:  # noqa: BLE001
            ctx.fail("op4-ascii-written-raises", "writing / listing / reading an ASCII file raises",
                     {"names": names, "shapes": [list(m.shape) for m in mats], "sparse": sparse}, repr(e), "a listing equal to the read")
        finally:
            if os.path.exists(p):
                os.remove(p)


def _shrink(ctx, sc, case):
    key = "mats" if "mats" in case else "blocks"
    best = case
    for k in range(len(case[key])):
        c = dict(case, **{key: [case[key][k]]})
        if _oracle_case(ctx, sc, c) is not None:
            best = c
            break
    return best


def _sample_files(ctx):
    """listings match reads on the files shipped with pyYeti (no encoder involved)"""
    op4, op2 = _op4(), _op2()
    root = os.path.join(ctx.repo, "pyyeti", "tests")
    for f in sorted(glob.glob(os.path.join(root, "nastran_op4_data", "*.op4"))):
        if "badname" in f:
            continue
        ctx.count("oracle:sample-op4")
        try:
            with warnings.catch_warnings(), _TimeLimit(120):
                warnings.simplefilter("ignore")
                dn, ds, df, dt = op4.dir(f, verbose=False)
                huge = any(int(s[0]) * int(s[1]) > 5_000_000 for s in ds)
                n, m, fo, t = op4.load(f, into="list", sparse=huge)
                n2, m2, fo2, t2 = op4.load(f, into="list", sparse=True)
            cb = lambda x: _bits(np.asarray(x.toarray() if sp.issparse(x) else x, dtype=complex))
            ok = (n == dn == n2 and list(fo) == list(df) == list(fo2) and list(t) == list(dt)
                  and [tuple(x.shape) for x in m] == [tuple(map(int, s)) for s in ds]
                  and (huge or all(cb(a) == cb(b) for a, b in zip(m, m2))))
            if huge:
                ctx.count("oracle:sample-op4-huge-dimension(sparse reads only)")
                continue
            if ok and len(set(n)) > 1:
                with warnings.catch_warnings():
                    warnings.simplefilter("ignore")
                    sn, sm, _, _ = op4.load(f, namelist=[n[-1]], into="list")
                ok = sn == [x for x in n if x == n[-1]] and cb(sm[-1]) == cb(m[-1])
            if not ok:
                ctx.fail("op4-sample-file-listing-vs-read", "dir / sparse read / named subset disagree with the full dense read",
                         {"file": os.path.relpath(f, ctx.repo)}, [dn, [list(map(int, s)) for s in ds]], [n, [list(x.shape) for x in m]])
        except Exception as e:  # noqa: BLE001
            ctx.fail("op4-sample-file-raises", "reading a shipped sample file raises", {"file": os.path.relpath(f, ctx.repo)}, repr(e), "a successful read")
    files = sorted(glob.glob(os.path.join(root, "nastran_op2_data", "*.op2")) + glob.glob(os.path.join(root, "nas2cam_extseout", "*.op2")))
    for f in files[: ctx.pick(6, 40)]:
        ctx.count("oracle:sample-op2")
        try:
            with _TimeLimit(120):
                o2 = op2.OP2(f)
            try:
                lst = o2.dblist
                bad = None
                for i, s in enumerate(lst):
                    if i + 1 < len(lst) and s.stop != lst[i + 1].start:
                        bad = ("gap", s.name)
                    o2.set_position(s.start)
                    o2.goto_next()
                    if o2._fileh.tell() != s.stop:
                        bad = ("goto_next from the start of a block does not land on the next block", s.name)
                        break
                    o2.set_position(s.start)
                    nm, tr, ty = o2.rdop2nt()
                    if nm != s.name or tuple(tr) != tuple(s.trailer) or (ty > 0) != (s.dbtype > 0):
                        bad = ("rdop2nt", s.name)
                        break
                    if s.dbtype > 0:
                        X = o2.rdop2matrix(tr)
                        if o2._fileh.tell() != s.stop or X.shape[1] != s.size[1]:
                            bad = ("matrix read ends elsewhere than the skip", s.name)
                            break
                    else:
                        nrec = 0
                        while o2.rdop2record() is not None:
                            nrec += 1
                        if o2._fileh.tell() != s.stop:
                            bad = ("table read ends elsewhere than the header scan", s.name)
                            break
                if bad:
                    ctx.fail("op2-sample-file-directory-vs-read", "directory positions disagree with sequential reads",
                             {"file": os.path.relpath(f, ctx.repo)}, list(bad), "directory == reads")
            finally:
                o2._fileh.close()
                o2._fileh = None
        except Exception as e:  # noqa: BLE001
            ctx.fail("op2-sample-file-raises", "reading a shipped sample file raises", {"file": os.path.relpath(f, ctx.repo)}, repr(e), "a successful read")


def search(ctx, hints):
    sc = _Scratch()
    try:
        cases = []
        for h in hints[:30]:
            c = h.get("input")
            if isinstance(c, dict) and c.get("kind") in ("op4bin", "op2"):
                cases.append(_from_json(c))
        rng = ctx.rng
        # fixed cases (every run): a 64-bit table record holding a negative key, read with every form (the family of
        # repaired finding F50, op2-rdop2record-uint-i64-struct-format-stays-signed: regression guard), and its 32-bit twin
        for b64 in (True, False):
            cases.append({"kind": "op2", "endian": "l", "bit64": b64, "date": [1, 2, 3], "label": "PYYETI",
                          "blocks": [{"t": "t", "name": "TAB1", "trailer": [101, 0, 0, 0, 0, 0, 0], "records": [[[5, -1, 7, 8]], [[1, 2, 3], [4, -5, 6, 7]]]}]})
        for rep in range(ctx.pick(1, 3)):
            for rows, lay, neg in _boundary_layouts():
                single = rng.random() < 0.5
                cases.append({"kind": "op4bin", "endian": rng.choice(["l", "b"]), "bit64": rng.random() < 0.4, "single": single,
                              "mats": [_gen_boundary_mat(rng, single, rows, lay, neg)]})
        for i in range(ctx.pick(300, 3000)):
            cases.append(_gen_bin_case(rng, big=(i % 50 == 0)))
        for i in range(ctx.pick(250, 2500)):
            cases.append(_gen_op2_case(rng, big=(i // 50 + 1 if i % 50 == 0 else 0), bigtab=(i // 25 + 1 if i % 25 == 1 else 0)))
        nfail = 0
        for case in cases:
            ctx.count("oracle:" + case["kind"])
            r = _oracle_case(ctx, sc, case)
            if r is not None and r[0] == "timeout":
                ntime = ctx.extra["oracle_timeouts"] = ctx.extra.get("oracle_timeouts", 0) + 1
                ctx.fail(_family(case, "timeout"), "reading a file encoded from the format does not terminate",
                         _jsonable_case(case), r[1], r[2])
                if ntime >= 2:
                    break
                continue
            if r is not None and len(r) > 3 and r[3] == _FIXED_F50:
                if not ctx.extra.get("uint_finding_reported"):
                    ctx.extra["uint_finding_reported"] = True
                    c = _shrink(ctx, sc, case)
                    r2 = _oracle_case(ctx, sc, c) or r
                    ctx.fail(_FIXED_F50, "rdop2record(form='uint') in a file with 64-bit keys raises OverflowError below _rowsCutoff for a key "
                             "with its top bit set (signed struct format '%dq'), and returns the unsigned values from the cut-off on",
                             _jsonable_case(c), r2[1], r2[2])
                ctx.count("oracle:uint-i64-finding-seen")
                continue
            if r is not None:
                c = _shrink(ctx, sc, case)
                r2 = _oracle_case(ctx, sc, c) or r
                fam = r2[3] if len(r2) > 3 and r2[3] else _family(c, r2[0])
                ctx.fail(fam, "file encoded from the format (independent Python encoder) is not read back: " + r2[0],
                         _jsonable_case(c), r2[1], r2[2])
                nfail += 1
                if nfail > 25:
                    break
        _sample_files(ctx)
        _oracle_ascii(ctx, sc)
        _oracle_ascii_text_extras(ctx, sc)
    finally:
        sc.close()


def _oracle_ascii_text_extras(ctx, sc):
    """two families of ASCII OUTPUT4 files written from the format description by the Python encoder of the C04 harness
    (no Lean, no pyYeti): (1) matrices that announce different number formats or none - full read, every named read =
    the full read filtered; (2) BIGMAT matrices with ten million rows and more, strings starting on both sides of row
    10**7 (an 8-digit row number fills its I8 field and abuts the length field): sparse read = the encoded triplets,
    listing = the read"""
    from props import c04 as _c04
    op4 = _op4()
    rng = ctx.rng
    for _ in range(ctx.pick(25, 250)):
        _c04._oracle_mixed_formats(ctx, op4, sc, rng)
    for _ in range(ctx.pick(6, 40)):
        _huge_bigmat_ascii(ctx, op4, sc, _gen_huge_bigmat(rng))


def _gen_huge_bigmat(rng):
    R = rng.choice([10 ** 7 + 500, 12345700, 2 * 10 ** 7 + 3, 99999999])
    cols = []
    for c in range(rng.randint(1, 3)):
        starts = sorted(set(rng.sample([5, 9999994, 9999998, 10 ** 7 - 1, 10 ** 7, 10 ** 7 + 1, 12345678 % R, R - 7], rng.randint(1, 4))))
        strs, last = [], -1
        for r0 in starts:
            if r0 <= last or r0 + 3 > R:
                continue
            nv = rng.randint(1, 3)
            vals = [(rng.randint(0, 1), rng.randint(-20, 20), [rng.randint(1, 9)] + [rng.randint(0, 9) for _ in range(rng.randint(0, 6))])
                    for _ in range(nv)]
            strs.append((r0, vals))
            last = r0 + nv
        if strs:
            cols.append((c, strs))
    return {"kind": "huge-bigmat-ascii", "perline": 5, "width": 16, "useD": False, "lead1P": rng.random() < 0.5, "fmtD": False,
            "lower": False, "single": False, "announce": rng.random() < 0.6,
            "mats": [{"name": "BIG", "form": 2, "cplx": False, "rows": R, "ncols": 3, "lay": "b", "neg": False, "cols": cols},  # (-R would not fit its I8 field)
                     {"name": "SMALL", "form": 2, "cplx": False, "rows": 2, "ncols": 1, "lay": "d", "neg": False,
                      "cols": [(0, [(0, [(0, 0, [1]), (1, 0, [2])])])]}]}


def _huge_bigmat_ascii(ctx, op4, sc, case):
    from props import c04 as _c04
    case = dict(case, mats=[dict(m, cols=[(c, [(r0, [(v[0], v[1], list(v[2])) for v in vals]) for r0, vals in strs]) for c, strs in m["cols"]])
                            for m in case["mats"]])
    if not case["mats"][0]["cols"]:
        return None
    text = _c04._py_encode_variant(case)
    if not case.get("announce", True):
        out, hdr = [], 0
        for ln in text.split("\n"):
            if len(ln) > 40 and ln[32:40].strip() and not ln[:8].strip().lstrip("-").isdigit() is False and ("E16" in ln or "e16" in ln):
                ln = ln[:40].rstrip()
            out.append(ln)
        text = "\n".join(out)
    p = sc.path(".op4")
    open(p, "w").write(text)
    ctx.count("oracle:huge-bigmat-ascii")
    want = {}
    for c, strs in case["mats"][0]["cols"]:
        for r0, vals in strs:
            for i, (neg, exp, digits) in enumerate(vals):
                v = float(("-" if neg else "") + str(digits[0]) + "." + "".join(map(str, digits[1:])) + "E%+d" % exp)
                if v != 0.0:
                    want[(r0 + i, c)] = v
    inp = {"kind": "huge-bigmat-ascii", "case": _jsonable_case(case)}
    try:
        with warnings.catch_warnings(), _TimeLimit(60):
            warnings.simplefilter("ignore")
            dn, ds, df, dt = op4.dir(p, verbose=False)
            n, X, fo, t = op4.load(p, into="list", sparse=True)
            n1, X1, _, _ = op4.load(p, into="list", sparse=True, namelist=["small"])
        A = X[0].tocoo()
        got = {(int(r), int(c)): float(v) for r, c, v in zip(A.row, A.col, A.data) if v != 0.0}
        R = case["mats"][0]["rows"]
        if n != ["big", "small"] or list(dn) != ["big", "small"] or tuple(A.shape) != (R, 3) or [int(x) for x in ds[0]] != [R, 3]:
            ctx.fail("op4-ascii-bigmat-huge-rows-listing", "names / sizes of a BIGMAT ASCII file with %d rows" % R, inp,
                     [n, [list(map(int, x)) for x in ds]], [["big", "small"], [[R, 3], [2, 1]]])
        elif got != want:
            ctx.fail("op4-ascii-bigmat-huge-rows-values", "sparse read of a BIGMAT ASCII file with %d rows differs from the encoded "
                     "triplets" % R, inp, sorted(got.items())[:6], sorted(want.items())[:6])
        elif n1 != ["small"] or np.asarray(X1[0].todense() if hasattr(X1[0], "todense") else X1[0]).tolist() != [[1.0], [-2.0]]:
            ctx.fail("op4-ascii-bigmat-huge-rows-skip", "the matrix after a skipped BIGMAT ASCII matrix with %d rows is not read" % R,
                     inp, n1, ["small"])
    except Exception as e:  # noqa: BLE001
        ctx.fail("op4-ascii-bigmat-huge-rows-raises", "reading a valid BIGMAT ASCII file whose strings start at row 10**7 and "
                 "beyond raises", inp, "%s: %s" % (type(e).__name__, str(e)[:160]), "the matrices")
    finally:
        os.path.exists(p) and os.remove(p)


def _from_json(c):
    c = dict(c)
    if "mats" in c:
        c["mats"] = [dict(m, cols=[(col, [(r0, list(v)) for r0, v in strs]) for col, strs in m["cols"]]) for m in c["mats"]]
    if "blocks" in c:
        bl = []
        for b in c["blocks"]:
            b = dict(b)
            if b["t"] == "m":
                b["cols"] = [[(r, list(v)) for r, v in strs] for strs in b["cols"]]
            bl.append(b)
        c["blocks"] = bl
    return c


def replay(ctx, data):
    f = data.get("failure")
    if not f or not isinstance(f.get("input"), dict):
        return None
    inp = f["input"]
    if "file" in inp:
        sub = type(ctx).__new__(type(ctx))
        sub.__dict__.update(ctx.__dict__)
        sub.failures = []
        _sample_files(sub)
        for x in sub.failures:
            if x["input"].get("file") == inp["file"]:
                return x
        return None
    if inp.get("kind") in ("huge-bigmat-ascii", "mixed-formats"):
        sc = _Scratch()
        try:
            before = len(ctx.failures)
            if inp["kind"] == "huge-bigmat-ascii":
                _huge_bigmat_ascii(ctx, _op4(), sc, inp["case"])
            else:
                return None  # generated text: re-run the search (the family is reproduced by the same seed)
            return dict(ctx.failures[-1]) if len(ctx.failures) > before else None
        finally:
            sc.close()
    case = _from_json(inp)
    sc = _Scratch()
    try:
        r = _oracle_case(ctx, sc, case)
        if r is None:
            return None
        fam = r[3] if len(r) > 3 and r[3] else _family(case, r[0])
        return {"family": fam, "what": r[0], "input": inp, "observed": r[1], "required": r[2]}
    finally:
        sc.close()
