"""C11 — readers decode every OUTPUT4/OUTPUT2 variant; listings match reads (DESIGN.md section 6/C11).

Tie: the encoders of lean/PyYetiVerif/Model/Op4Variants.lean and Model/Op2.lean (written from the
record formats, no pyYeti code) produce files for logical contents drawn by this harness; the bytes
are written to scratch files and read by pyyeti.nastran.op4.load/dir (three sparse modes, named
subsets) and pyyeti.nastran.op2.OP2(...).directory()/rdop2mats()/rdop2nt()/rdop2matrix()/
rdop2record(); the results must equal the encoded logical content exactly (bit patterns, names,
sizes, forms, types, byte positions, trailers, table headers, records).

Model-free oracle (search / replay): the same logical contents encoded by a small independent
Python encoder (struct.pack only), plus consistency of listings and reads on the sample files
shipped in pyyeti/tests.
"""
import glob
import json
import os
import shutil
import struct
import sys
import tempfile
import warnings

import numpy as np
import scipy.sparse as sp

import runner as _runner

_main = sys.modules.get("__main__")
TieBroken = getattr(_main, "TieBroken", _runner.TieBroken)
Infra = getattr(_main, "Infra", _runner.Infra)

ID = "C11"
LEAN_MODULES = ["PyYetiVerif.Props.C11", "PyYetiVerif.Audit.C11"]
AUDIT_FILE = "PyYetiVerif/Audit/C11.lean"
THEOREMS = [
    "PyYetiVerif.C11." + n
    for n in (
        "op4_variant_roundtrip_bigmat op4_variant_roundtrip_nonbigmat partition_irrelevant "
        "real_codecs put_reals_spec skip_positions dir_matches_load"
    ).split()
]
TRUSTED = [
    "correspondence harness harness/props/c11.py (exact comparison of decoded content with the encoded logical content)",
    "the record grammar of OUTPUT2 is the one pyYeti's reader defines (no Nastran specification offline); OUTPUT4 "
    "variants as in the sample files of pyyeti/tests",
    "CPython float() for the expected value of an ASCII field; numpy float32 -> float64 conversion",
]
RULE = (
    "a case is one file built from a logical content: OUTPUT4 binary (byte order x 32/64-bit keys x single/double x "
    "dense/bigmat/nonbigmat x real/complex, strings split at arbitrary places incl. adjacent and length-1 strings, "
    "zeros inside strings, negative row counts, strings on both sides of the 3000-value cut-off), OUTPUT4 ASCII "
    "(E or D exponents, perline 1..5, widths 12..26, with/without 1P, lower case), OUTPUT2 (byte order x key width, "
    "matrix blocks single/double real/complex with split columns, table blocks with super-records); each file is read "
    "in all modes and listed; non-trivial = some column has at least two strings or some record is split; distinct by "
    "the logical content and variant"
)
ASSUMPTIONS = [
    "strings of one column do not overlap (adjacent is allowed); values are finite and not -0.0",
    "table record pieces have at least three keys (rdop2tabheaders reads a 3-key header from every piece)",
    "OUTPUT2 matrices have at least one column",
]
PARTIAL = (
    "proved: op4 column-payload round trip for any string partition and either words-per-real (word level), "
    "partition_irrelevant; skip_positions and dir_matches_load for the variant Model/Op4.lean models in full (32-bit "
    "keys, double precision, both byte orders, three layouts). NOT proved: skip_positions / dir_matches_load for "
    "64-bit keys, single precision and ASCII, op2_roundtrip, named_subset = filter, cutoff_irrelevant (no Lean model "
    "of those readers) - established by the exact correspondence streams (dir, namelist subset, op2 directory byte "
    "positions, read-vs-skip end positions, strings on both sides of the 3000-value cut-off) only"
)
MANIFEST = {
    "level_text": "Proof (Lean 4) that the word-level column decoders of the OUTPUT4 reader, generalised over the words "
    "per real, invert the encoder for every partition of a column into strings (bigmat and nonbigmat), hence two "
    "partitions of the same column decode equally; the binary skipper ends where the reader ends and dir lists what "
    "load returns (32-bit keys, double precision); plus exact correspondence: files produced by Lean encoders written "
    "from the formats (OUTPUT4 binary/ASCII variants, OUTPUT2 matrix and table blocks) are read back by pyYeti's "
    "readers to exactly the encoded content, and listings (op4.dir, op2 directory byte ranges, trailers, headers) "
    "equal what the reads return.",
    "level_note": "Partial: listing/skip for the other key widths / precisions / ASCII and all OUTPUT2 statements are not "
    "proved, only checked by correspondence. The OUTPUT2 "
    "layout is the one pyYeti's reader defines. Trusted: Lean kernel, standard axioms, the Python harness.",
    "technique": "Lean 4 proof (induction over strings, generic real codec) + independent Lean encoders read by the real readers",
}

# ---------------------------------------------------------------------------------------------


def translate(ctx):
    """the OUTPUT4 model shared with C04 is built on Generated/Op4Consts.lean: regenerate it here too"""
    from translate import c04_op4consts as tr

    try:
        ctx.extra["op4_consts"] = tr.run(ctx.repo, ctx.lean)
    except tr.Unparsable as e:
        raise TieBroken("op4.py constants: %s" % e)
    return ["Op4Consts"]


def _op4():
    from pyyeti.nastran import op4

    return op4


def _op2():
    from pyyeti.nastran import op2

    return op2


class _Scratch:
    def __init__(self):
        os.makedirs("/tmp/C11", exist_ok=True)
        self.d = tempfile.mkdtemp(prefix="run_", dir="/tmp/C11")
        self.n = 0

    def path(self, ext=".op4"):
        self.n += 1
        return os.path.join(self.d, "f%d%s" % (self.n, ext))

    def close(self):
        shutil.rmtree(self.d, ignore_errors=True)
        try:
            os.rmdir("/tmp/C11")
        except OSError:
            pass




class _TimeLimit:
    """a mutated reader can loop for ever (e.g. a negative record length seeks backwards): bound every call
    into pyYeti; the timeout surfaces as an ordinary exception of the call"""

    def __init__(self, seconds):
        self.seconds = seconds

    def _handler(self, signum, frame):
        raise TimeoutError("pyYeti call exceeded %d s" % self.seconds)

    def __enter__(self):
        import signal

        self._old = signal.signal(signal.SIGALRM, self._handler)
        signal.setitimer(signal.ITIMER_REAL, self.seconds)

    def __exit__(self, *a):
        import signal

        signal.setitimer(signal.ITIMER_REAL, 0)
        signal.signal(signal.SIGALRM, self._old)
        return False

FIRST = "abcdefghijklmnopqrstuvwxyzABCDEFGHIJKLMNOPQRSTUVWXYZ"
REST = FIRST + "0123456789_"


def _name(rng, n=None):
    n = n or rng.randint(1, 8)
    return rng.choice(FIRST) + "".join(rng.choice(REST) for _ in range(n - 1))


def _f64bits(x):
    return struct.unpack("<Q", struct.pack("<d", x))[0]


def _f32bits(x):
    return struct.unpack("<I", struct.pack("<f", x))[0]


def _val(rng, single):
    k = rng.random()
    if k < 0.12:
        return 0.0  # a zero stored inside a string
    if k < 0.5:
        v = float(rng.randint(-50, 50)) / rng.choice([1, 2, 4, 8, 1024])
    elif single:
        v = float(np.float32(rng.gauss(0, 1) * 10.0 ** rng.randint(-20, 20)))
    else:
        v = rng.gauss(0, 1) * 10.0 ** rng.randint(-200, 200)
    if single:
        v = float(np.float32(v))
    return v + 0.0


def _partition(rng, rows, single_string=False, big=False):
    """non-overlapping strings (r0, length) inside [0, rows), ascending"""
    out = []
    if rows == 0:
        return out
    if single_string:
        r0 = rng.randrange(rows)
        return [(r0, rng.randint(1, rows - r0))]
    i = rng.randint(0, min(3, rows - 1)) if not big else 0
    while i < rows:
        L = rng.choice([1, 1, 2, 3, 5, rows]) if not big else rng.choice([2999, 3000, 3001, 10])
        L = max(1, min(L, rows - i))
        out.append((i, L))
        i += L + rng.choice([0, 0, 1, 2, 4])  # 0 = adjacent strings
        if rng.random() < 0.15:
            break
    return out


def _gen_mat(rng, single, lay=None, big=False):
    lay = lay or rng.choice(["d", "b", "n"])
    cplx = rng.random() < 0.35
    rows = rng.choice([3100, 6500]) if big else rng.choice([1, 2, 3, 5, 8, 12, 30])
    ncols = rng.choice([1, 2]) if big else rng.choice([0, 1, 2, 3, 5])
    cols = []
    for c in range(ncols):
        if rng.random() < 0.25:
            continue
        part = _partition(rng, rows, single_string=(lay == "d"), big=big and c == 0)
        strs = []
        for r0, L in part:
            vals = [_val(rng, single) for _ in range(L * (2 if cplx else 1))]
            strs.append((r0, vals))
        if strs:
            cols.append((c, strs))
    neg = (lay == "b") or (lay == "d" and rng.random() < 0.2)
    return {"name": _name(rng), "form": rng.choice([1, 2, 6, 3, 9]), "cplx": cplx, "rows": rows, "ncols": ncols,
            "lay": lay, "neg": neg, "cols": cols}


def _expected(m, conv=lambda v: v):
    """dense matrix, COO triplets (file order) and what sparse=None means"""
    mult = 2 if m["cplx"] else 1
    D = np.zeros((m["rows"], m["ncols"]), complex if m["cplx"] else float)
    trip = []
    for c, strs in m["cols"]:
        for r0, vals in strs:
            vals = [conv(v) for v in vals]
            for k in range(len(vals) // mult):
                x = complex(vals[2 * k], vals[2 * k + 1]) if m["cplx"] else vals[k]
                D[r0 + k, c] = x
                trip.append((r0 + k, c, x))
    if m["cols"]:
        auto = m["lay"] != "d"
    else:
        auto = bool(m["neg"])
    return D, trip, auto


def _bits(a):
    a = np.ascontiguousarray(a)
    if np.iscomplexobj(a):
        a = a.astype(np.complex128).view(np.float64)
    else:
        a = a.astype(np.float64)
    return (a.reshape(-1) + 0.0).view(np.uint64).tolist()


def _check_op4_file(op4, path, mats, mtypes, conv=lambda v: v):
    """compare every reading of `path` with the logical content; returns None or (what, observed, required)"""
    try:
        with _TimeLimit(15):
            return _check_op4_file_(op4, path, mats, mtypes, conv)
    except TimeoutError as e:
        return ("timeout", str(e), "a read that terminates")


def _check_op4_file_(op4, path, mats, mtypes, conv):
    names = [m["name"].lower() for m in mats]
    exp = [_expected(m, conv) for m in mats]
    for mode in (False, True, None):
        try:
            with warnings.catch_warnings():
                warnings.simplefilter("ignore")
                rn, rm, rf, rt = op4.load(path, into="list", sparse=mode)
        except Exception as e:  # noqa: BLE001
            return ("load-raises", "%s: %s (sparse=%r)" % (type(e).__name__, e, mode), "the encoded matrices")
        if rn != names or [int(f) for f in rf] != [m["form"] for m in mats] or [int(t) for t in rt] != mtypes:
            return ("header", [rn, list(map(int, rf)), list(map(int, rt))], [names, [m["form"] for m in mats], mtypes])
        for k, (m, X) in enumerate(zip(mats, rm)):
            D, trip, auto = exp[k]
            want_sparse = mode if mode is not None else auto
            if sp.issparse(X) != want_sparse:
                return ("read-type", "matrix %d sparse=%r returned %s" % (k, mode, type(X).__name__), "sparse" if want_sparse else "ndarray")
            if tuple(X.shape) != D.shape:
                return ("shape", list(X.shape), list(D.shape))
            if sp.issparse(X):
                got = list(zip(X.row.tolist(), X.col.tolist(), _bits(np.asarray(X.data, dtype=complex)).__iter__()))
                gi = [(int(i), int(j)) for i, j in zip(X.row.tolist(), X.col.tolist())]
                gv = _bits(np.asarray(X.data, dtype=complex if m["cplx"] else float))
                wi = [(i, j) for i, j, _ in trip]
                wv = _bits(np.array([x for _, _, x in trip], dtype=complex if m["cplx"] else float))
                if gi != wi or gv != wv:
                    return ("sparse-values", {"matrix": k, "idx": gi[:6], "n": len(gi)}, {"idx": wi[:6], "n": len(wi)})
            else:
                X = np.asarray(X)
                if np.iscomplexobj(X) != m["cplx"] or _bits(X) != _bits(D):
                    bad = np.argwhere(X != D)
                    return ("dense-values", {"matrix": k, "at": bad[:3].tolist(), "dtype": str(X.dtype)},
                            {"want": [repr(D[tuple(b)]) for b in bad[:3]]})
    # listing = full read
    try:
        dn, ds, df, dt = op4.dir(path, verbose=False)
    except Exception as e:  # noqa: BLE001
        return ("dir-raises", "%s: %s" % (type(e).__name__, e), "a listing")
    want = [names, [(m["rows"], m["ncols"]) for m in mats], [m["form"] for m in mats], mtypes]
    got = [dn, [tuple(map(int, s)) for s in ds], list(map(int, df)), list(map(int, dt))]
    if got != want:
        return ("dir", got, want)
    # named subset = filter of the full read (exercises the skippers)
    if len(mats) > 1:
        pick = names[-1]
        try:
            with warnings.catch_warnings():
                warnings.simplefilter("ignore")
                sn, sm, sf, st = op4.load(path, namelist=[pick], into="list")
        except Exception as e:  # noqa: BLE001
            return ("namelist-raises", "%s: %s" % (type(e).__name__, e), "the matrices named %r" % pick)
        idx = [i for i, n in enumerate(names) if n == pick]
        if sn != [pick] * len(idx):
            return ("namelist", sn, [pick] * len(idx))
        for X, i in zip(sm, idx):
            if _bits(np.asarray(X)) != _bits(exp[i][0]):
                return ("namelist-values", pick, "matrix %d" % i)
    return None


# -- OUTPUT4 binary variants --------------------------------------------------------------------


def _gen_bin_case(rng, big=False):
    single = rng.random() < 0.5
    n = 1 if big else rng.choice([1, 2, 3])
    return {"kind": "op4bin", "endian": rng.choice(["l", "b"]), "bit64": rng.random() < 0.4, "single": single,
            "mats": [_gen_mat(rng, single, big=big) for _ in range(n)]}


def _stored_bits(case, v):
    if case["single"] and not case["bit64"]:
        return _f32bits(v)
    return _f64bits(v)


def _bin_tokens(case):
    t = ["encv", case["endian"], "1" if case["bit64"] else "0", "1" if case["single"] else "0", str(len(case["mats"]))]
    for m in case["mats"]:
        t += [m["name"].encode().hex(), str(m["form"]), "1" if m["cplx"] else "0", str(m["rows"]), str(m["ncols"]),
              m["lay"], "1" if m["neg"] else "0", str(len(m["cols"]))]
        for c, strs in m["cols"]:
            t += [str(c), str(len(strs))]
            for r0, vals in strs:
                t += [str(r0), str(len(vals))] + [str(_stored_bits(case, v)) for v in vals]
    return " ".join(t)


def _py_encode_bin(case):
    """independent Python encoder of the same format (used by the model-free oracle only)"""
    e = "<" if case["endian"] == "l" else ">"
    ki = "q" if case["bit64"] else "i"
    kb = 8 if case["bit64"] else 4
    rf = "f" if (case["single"] and not case["bit64"]) else "d"
    rb = 4 if rf == "f" else 8
    wper = 1 if (case["single"] or case["bit64"]) else 2
    out = b""
    for m in case["mats"]:
        namelen = 16 if case["bit64"] else 8
        reclen = 4 * kb + namelen
        mtype = (3 if m["cplx"] else 1) + (0 if case["single"] else 1)
        rows = -m["rows"] if m["neg"] else m["rows"]
        out += struct.pack(e + "i", reclen) + struct.pack(e + "4" + ki, m["ncols"], rows, m["form"], mtype)
        out += m["name"].encode().ljust(namelen) + struct.pack(e + "i", reclen)
        for c, strs in m["cols"]:
            payload = b""
            nw = 0
            for r0, vals in strs:
                body = struct.pack(e + "%d%s" % (len(vals), rf), *vals)
                if m["lay"] == "d":
                    payload += body
                    nw += len(vals) * wper
                elif m["lay"] == "b":
                    payload += struct.pack(e + "2" + ki, len(vals) * wper + 1, r0 + 1) + body
                    nw += len(vals) * wper + 2
                else:
                    payload += struct.pack(e + ki, (r0 + 1) + ((len(vals) * wper + 1) << 16)) + body
                    nw += len(vals) * wper + 1
            irow = strs[0][0] + 1 if m["lay"] == "d" else 0
            reclen = 3 * kb + len(payload)
            out += struct.pack(e + "i", reclen) + struct.pack(e + "3" + ki, c + 1, irow, nw) + payload + struct.pack(e + "i", reclen)
        reclen = 3 * kb + rb
        out += struct.pack(e + "i", reclen) + struct.pack(e + "3" + ki, m["ncols"] + 1, 1, wper) + struct.pack(e + rf, 1.0) + struct.pack(e + "i", reclen)
    return out


def _bin_mtypes(case):
    return [(3 if m["cplx"] else 1) + (0 if case["single"] else 1) for m in case["mats"]]


# -- OUTPUT4 ASCII variants ------------------------------------------------------------------------


def _gen_adec(rng, maxdig, allow3):
    if rng.random() < 0.1:
        return (0, 0, [0] * rng.randint(1, maxdig))
    nd = rng.randint(1, maxdig)
    digits = [rng.randint(1, 9)] + [rng.randint(0, 9) for _ in range(nd - 1)]
    exp = rng.randint(-299, 299) if (allow3 and rng.random() < 0.3) else rng.randint(-40, 40)
    return (1 if rng.random() < 0.5 else 0, exp, digits)


def _adec_value(a):
    neg, exp, digits = a
    s = ("-" if neg else "") + str(digits[0]) + "." + "".join(map(str, digits[1:])) + "E%+d" % exp
    return float(s) + 0.0


def _gen_asc_case(rng):
    width = rng.choice([12, 16, 23, 24, 26])
    perline = rng.randint(1, min(5, 80 // width))
    single = rng.random() < 0.5
    maxdig = width - 8  # sign, point, E+ddd
    mats = []
    for _ in range(rng.choice([1, 2, 3])):
        m = _gen_mat(rng, single)
        m["name"] = m["name"].upper() if rng.random() < 0.7 else m["name"]
        for _, strs in m["cols"]:
            for i, (r0, vals) in enumerate(strs):
                strs[i] = (r0, [_gen_adec(rng, maxdig, True) for _ in vals])
        mats.append(m)
    return {"kind": "op4asc", "perline": perline, "width": width, "useD": rng.random() < 0.4,
            "lead1P": rng.random() < 0.6, "fmtD": rng.random() < 0.3, "lower": rng.random() < 0.2,
            "single": single, "mats": mats}


def _asc_tokens(case):
    t = ["enca", str(case["perline"]), str(case["width"])] + ["1" if case[k] else "0" for k in ("useD", "lead1P", "fmtD", "lower")]
    t.append(str(len(case["mats"])))
    for m in case["mats"]:
        t += [m["name"].encode().hex(), str(m["form"]), "1" if m["cplx"] else "0", "1" if case["single"] else "0",
              str(m["rows"]), str(m["ncols"]), m["lay"], "1" if m["neg"] else "0", str(len(m["cols"]))]
        for c, strs in m["cols"]:
            t += [str(c), str(len(strs))]
            for r0, vals in strs:
                t += [str(r0), str(len(vals))]
                for neg, exp, digits in vals:
                    t += [str(neg), str(exp), str(len(digits))] + [str(d) for d in digits]
    return " ".join(t)


# -- OUTPUT2 ----------------------------------------------------------------------------------------


def _gen_op2_case(rng, big=False):
    bit64 = rng.random() < 0.4
    blocks = []
    for _ in range(rng.randint(1, 4)):
        if rng.random() < 0.55:
            single = rng.random() < 0.5
            cplx = rng.random() < 0.35
            rows = rng.choice([3200]) if big else rng.choice([1, 2, 3, 6, 10])
            ncols = rng.choice([1, 2, 3, 4])
            cols = []
            for c in range(ncols):
                strs = []
                if rng.random() < 0.8:
                    for r0, L in _partition(rng, rows, big=big and c == 0):
                        strs.append((r0 + 1, [_val(rng, single) for _ in range(L * (2 if cplx else 1))]))
                cols.append(strs)
            mtype = (3 if cplx else 1) + (0 if single else 1)
            blocks.append({"t": "m", "name": _name(rng).upper(), "trailer": [rng.randint(100, 200), ncols, rows, rng.choice([1, 2, 6]), mtype, rng.randint(0, 9), 0],
                           "single": single, "cplx": cplx, "cols": cols})
            big = False
        else:
            recs = []
            for _ in range(rng.randint(0, 4)):
                pieces = [[rng.randint(-1000, 100000) for _ in range(rng.choice([3, 4, 7, 20]))] for _ in range(rng.choice([1, 1, 2, 3]))]
                recs.append(pieces)
            blocks.append({"t": "t", "name": _name(rng).upper(), "trailer": [rng.randint(100, 200)] + [rng.randint(0, 70000) for _ in range(6)], "records": recs})
    if len(blocks) > 1 and rng.random() < 0.3:
        blocks[-1]["name"] = blocks[0]["name"]
    return {"kind": "op2", "endian": rng.choice(["l", "b"]), "bit64": bit64, "date": [rng.randint(1, 12), rng.randint(1, 28), rng.randint(0, 99)],
            "label": rng.choice(["NX2021", "XXXXXXXX", "PYYETI"]), "blocks": blocks}


def _op2_stored(case, single, v):
    if single and not case["bit64"]:
        return _f32bits(v)
    return _f64bits(v)


def _op2_tokens(case):
    t = ["op2", case["endian"], "1" if case["bit64"] else "0"] + [str(d) for d in case["date"]] + [case["label"].encode().hex(), str(len(case["blocks"]))]
    for b in case["blocks"]:
        t += [b["t"], b["name"].encode().hex()] + [str(x) for x in b["trailer"]]
        if b["t"] == "m":
            t += ["1" if b["single"] else "0", str(len(b["cols"]))]
            for strs in b["cols"]:
                t.append(str(len(strs)))
                for r, vals in strs:
                    t += [str(r), str(len(vals))] + [str(_op2_stored(case, b["single"], v)) for v in vals]
        else:
            t.append(str(len(b["records"])))
            for pieces in b["records"]:
                t.append(str(len(pieces)))
                for p in pieces:
                    t += [str(len(p))] + [str(x) for x in p]
    return " ".join(t)


def _op2_expected_matrix(b):
    rows, ncols = b["trailer"][2], b["trailer"][1]
    D = np.zeros((rows, ncols), complex if b["cplx"] else float)
    mult = 2 if b["cplx"] else 1
    for c, strs in enumerate(b["cols"]):
        for r, vals in strs:
            for k in range(len(vals) // mult):
                D[r - 1 + k, c] = complex(vals[2 * k], vals[2 * k + 1]) if b["cplx"] else vals[k]
    return D


def _check_op2_file(op2, path, case, positions):
    try:
        with _TimeLimit(15):
            return _check_op2_file_(op2, path, case, positions)
    except TimeoutError as e:
        return ("timeout", str(e), "a read that terminates")


def _check_op2_file_(op2, path, case, positions):
    try:
        o2 = op2.OP2(path)
    except Exception as e:  # noqa: BLE001
        return ("open-raises", "%s: %s" % (type(e).__name__, e), "an open file with a directory")
    try:
        if (o2._label, tuple(o2._date)) != (case["label"], tuple(case["date"])):
            return ("header", [o2._label, list(o2._date)], [case["label"], case["date"]])
        blocks = case["blocks"]
        got = [(s.name, int(s.start), int(s.stop), int(s.nbytes), int(s.dbtype), tuple(map(int, s.size)), tuple(map(int, s.trailer)))
               for s in o2.dblist]
        want = [(b["name"], a, z, z - a - 1, 1 if b["t"] == "m" else 0,
                 (b["trailer"][2], b["trailer"][1]) if b["t"] == "m" else (0, 0), tuple(b["trailer"]))
                for b, (a, z) in zip(blocks, positions)]
        if got != want:
            return ("directory", got[:4], want[:4])
        kb = 8 if case["bit64"] else 4
        for s, b in zip(o2.dblist, blocks):
            if b["t"] == "t":
                wanth = [[tuple(p[:3]), len(p) * kb] for pieces in b["records"] for p in pieces]
                goth = [[tuple(map(int, h[0])), int(h[1])] for h in s.headers]
                if goth != wanth:
                    return ("table-headers", goth[:4], wanth[:4])
                o2.set_position(s.start)
                nm, tr, ty = o2.rdop2nt()
                if (nm, tuple(map(int, tr)), ty) != (b["name"], tuple(b["trailer"]), 0):
                    return ("rdop2nt", [nm, list(map(int, tr)), ty], [b["name"], b["trailer"], 0])
                recs = []
                while True:
                    r = o2.rdop2record()
                    if r is None:
                        break
                    recs.append([int(x) for x in r])
                wantr = [[x for p in pieces for x in p] for pieces in b["records"]]
                if recs != wantr:
                    return ("table-records", recs[:3], wantr[:3])
                if o2._fileh.tell() != s.stop:
                    return ("table-end-position", o2._fileh.tell(), int(s.stop))
            else:
                o2.set_position(s.start)
                nm, tr, ty = o2.rdop2nt()
                X = o2.rdop2matrix(tr)
                D = _op2_expected_matrix(b)
                if nm != b["name"] or X.shape != D.shape or np.iscomplexobj(X) != b["cplx"] or _bits(X) != _bits(D):
                    return ("matrix", {"name": nm, "shape": list(X.shape)}, {"name": b["name"], "shape": list(D.shape)})
                if o2._fileh.tell() != s.stop:
                    return ("matrix-end-position (read vs skip)", o2._fileh.tell(), int(s.stop))
        mats = o2.rdop2mats()
        last = {}
        for b in blocks:
            if b["t"] == "m":
                last[b["name"]] = b
        if sorted(mats) != sorted(last):
            return ("rdop2mats-names", sorted(mats), sorted(last))
        for nm, b in last.items():
            if _bits(mats[nm]) != _bits(_op2_expected_matrix(b)):
                return ("rdop2mats-values", nm, "last occurrence")
    except Exception as e:  # noqa: BLE001
        return ("read-raises", "%s: %s" % (type(e).__name__, e), "the encoded blocks")
    finally:
        o2._fileh.close()
        o2._fileh = None
    return None


def _py_encode_op2(case):
    """independent Python OUTPUT2 encoder (oracle only); returns bytes and block positions"""
    e = "<" if case["endian"] == "l" else ">"
    ki = "q" if case["bit64"] else "i"
    kb = 8 if case["bit64"] else 4

    def K(x):
        return struct.pack(e + "i", kb) + struct.pack(e + ki, x) + struct.pack(e + "i", kb)

    def R(b):
        return struct.pack(e + "i", len(b)) + b + struct.pack(e + "i", len(b))

    def keys(xs):
        return struct.pack(e + "%d%s" % (len(xs), ki), *xs)

    out = K(3) + R(keys(case["date"])) + K(7) + R(b"N" * (7 * kb)) + K(2) + R(case["label"].encode().ljust(2 * kb)) + K(-1) + K(0)
    pos = []
    for b in case["blocks"]:
        start = len(out)
        nm = b["name"].encode().ljust(2 * kb)
        out += K(2) + R(nm) + K(-1) + K(7) + R(keys(b["trailer"])) + K(-2) + K(1) + K(0) + K(2) + R(nm) + K(-3) + K(1) + K(1 if b["t"] == "m" else 0)
        if b["t"] == "m":
            rf = "f" if (b["single"] and not case["bit64"]) else "d"
            for j, strs in enumerate(b["cols"]):
                for r, vals in strs:
                    payload = struct.pack(e + ki, r) + struct.pack(e + "%d%s" % (len(vals), rf), *vals)
                    out += K(len(payload) // kb) + R(payload)
                out += K(-(j + 4)) + K(1) + K(0 if j == len(b["cols"]) - 1 else 1)
            out += K(0)
        else:
            for j, pieces in enumerate(b["records"]):
                for p in pieces:
                    out += K(len(p)) + R(keys(p))
                out += K(-(j + 4)) + K(1) + K(0)
            out += K(0)
        pos.append((start, len(out)))
    out += K(0)
    return out, pos


# ---------------------------------------------------------------------------------------------


def _jsonable_case(case):
    return json.loads(json.dumps(case, default=lambda o: list(o)))


def _conv_for(case):
    if case["kind"] == "op4asc":
        return _adec_value
    return lambda v: v


def _nontrivial(case):
    if case["kind"] == "op2":
        return any((b["t"] == "m" and any(len(s) > 1 for s in b["cols"])) or
                   (b["t"] == "t" and any(len(p) > 1 for p in b["records"])) for b in case["blocks"])
    return any(len(strs) > 1 for m in case["mats"] for _, strs in m["cols"])


def _cases(ctx):
    rng = ctx.rng
    cases = []
    for i in range(ctx.pick(1500, 9000)):
        cases.append(_gen_bin_case(rng, big=(i % 60 == 0)))
    for i in range(ctx.pick(900, 5000)):
        cases.append(_gen_asc_case(rng))
    for i in range(ctx.pick(1200, 7000)):
        cases.append(_gen_op2_case(rng, big=(i % 60 == 0)))
    return cases


def correspondence(ctx):
    op4, op2 = _op4(), _op2()
    drv = ctx.driver("C11")
    sc = _Scratch()
    try:
        cases = _cases(ctx)
        req = []
        for c in cases:
            req.append({"op4bin": _bin_tokens, "op4asc": _asc_tokens, "op2": _op2_tokens}[c["kind"]](c))
        rep = drv.ask(req)
        for case, r in zip(cases, rep):
            kind = case["kind"]
            ctx.case((kind, json.dumps(_jsonable_case(case), sort_keys=True)), nontrivial=_nontrivial(case), branch="stream:" + kind)
            if r == "bad-op":
                raise Infra("driver C11 refused a request of kind " + kind)
            if kind == "op2":
                hx, pos = r.split(" ") if " " in r else (r, "")
                positions = [tuple(int(t) for t in p.split(":")) for p in pos.split(",")] if pos else []
                p = sc.path(".op2")
                open(p, "wb").write(bytes.fromhex(hx))
                res = _check_op2_file(op2, p, case, positions)
                ctx.count("op2:%s-%s" % (case["endian"], "64" if case["bit64"] else "32"))
                for b in case["blocks"]:
                    ctx.count("op2:block-" + b["t"])
            else:
                p = sc.path(".op4")
                open(p, "wb").write(bytes.fromhex(r))
                if kind == "op4bin":
                    mt = _bin_mtypes(case)
                    ctx.count("op4bin:%s-%s-%s" % (case["endian"], "64" if case["bit64"] else "32", "single" if case["single"] else "double"))
                else:
                    mt = [(3 if m["cplx"] else 1) + (0 if case["single"] else 1) for m in case["mats"]]
                    ctx.count("op4asc:" + ("D" if case["useD"] else "E"))
                for m in case["mats"]:
                    ctx.count("%s:layout-%s" % (kind, m["lay"]))
                res = _check_op4_file(op4, p, case["mats"], mt, _conv_for(case))
            if res is not None:
                ctx.disagree(kind + ":" + res[0], _jsonable_case(case), res[1], res[2])
                if len(ctx.disagreements) > 80 or sum(1 for d in ctx.disagreements if d["stream"].endswith(":timeout")) > 3:
                    os.remove(p)
                    break  # the run is broken already; the search looks for the failing input
            elif len(ctx.samples) < 5 and ctx.rng.random() < 0.02:
                ctx.sample({"kind": kind, "variant": {k: v for k, v in case.items() if k not in ("mats", "blocks")}})
            os.remove(p)
        _nastran_files(ctx, op4)
        ctx.extra["first_disagreements"] = [
            {"stream": d["stream"], "impl": str(d["impl"])[:300], "model": str(d["model"])[:300],
             "variant": {k: v for k, v in d["input"].items() if k not in ("mats", "blocks")} if isinstance(d["input"], dict) else None}
            for d in ctx.disagreements[:6]]
        if not ctx.disagreements and not ctx.broken:
            ctx.require_branches(["stream:nastran-file", "stream:op4bin", "stream:op4asc", "stream:op2", "op4bin:l-32-single", "op4bin:b-64-double",
                                  "op4bin:l-64-single", "op4bin:b-32-double", "op4asc:D", "op4asc:E", "op4bin:layout-d",
                                  "op4bin:layout-b", "op4bin:layout-n", "op2:l-64", "op2:b-32", "op2:block-m", "op2:block-t"])
    finally:
        sc.close()


def _nastran_files(ctx, op4):
    """binary sample files written by Nastran itself (32-bit keys, double precision) decoded by the Lean
    decoder of Model/Op4.lean (driver C04) and compared with pyYeti's reading: ties the Lean format model to
    files that neither pyYeti nor the Lean encoders produced"""
    from props import c04 as _c04

    root = os.path.join(ctx.repo, "pyyeti", "tests", "nastran_op4_data")
    files, req, want = [], [], []
    for f in sorted(glob.glob(os.path.join(root, "*.op4"))):
        data = open(f, "rb").read()
        if len(data) < 16 or min(data[:4]) != 0 or len(data) > 400000:
            continue
        if struct.unpack("<i", data[:4])[0] != 24 and struct.unpack(">i", data[:4])[0] != 24:
            continue
        try:
            with warnings.catch_warnings(), _TimeLimit(120):
                warnings.simplefilter("ignore")
                dn, ds, df, dt = op4.dir(f, verbose=False)
                if any(int(t) % 2 for t in dt):
                    continue
                for mode, flag in (("d", False), ("s", True), ("a", None)):
                    got = _c04._canon_loaded(*op4.load(f, into="list", sparse=flag))
                    files.append((os.path.basename(f), mode))
                    req.append("dec %s %s" % (mode, data.hex()))
                    want.append(got)
        except Exception as e:  # noqa: BLE001
            ctx.disagree("nastran-file:read-raises", {"file": os.path.basename(f)}, repr(e), "a successful read")
    if not req:
        return
    rep = ctx.driver("C04").ask(req)
    for (name, mode), r, w in zip(files, rep, want):
        ctx.case(("nastran-file", name, mode), nontrivial=True, branch="stream:nastran-file")
        model = _c04._parse_dec(r)
        if model != w:
            ctx.disagree("nastran-file:dec-" + mode, {"file": name}, str(w)[:300], str(model)[:300])


# ---------------------------------------------------------------------------------------------
# model-free oracle


def _family(case, what):
    if case["kind"] == "op4bin":
        lays = "+".join(sorted({m["lay"] for m in case["mats"]}))
        return "op4-variant-%s-%s-%s-%s-%s" % ("be" if case["endian"] == "b" else "le", "i64" if case["bit64"] else "i32",
                                              "single" if case["single"] else "double", lays, what)
    if case["kind"] == "op2":
        return "op2-%s-%s-%s" % ("be" if case["endian"] == "b" else "le", "i64" if case["bit64"] else "i32", what)
    return "op4-ascii-variant-%s-%s" % ("D" if case["useD"] else "E", what)


def _oracle_case(ctx, sc, case):
    """encode with the independent Python encoder, read with pyYeti; returns failure tuple or None"""
    if case["kind"] == "op4bin":
        p = sc.path(".op4")
        open(p, "wb").write(_py_encode_bin(case))
        return _check_op4_file(_op4(), p, case["mats"], _bin_mtypes(case))
    if case["kind"] == "op2":
        data, pos = _py_encode_op2(case)
        p = sc.path(".op2")
        open(p, "wb").write(data)
        return _check_op2_file(_op2(), p, case, pos)
    return None


def _shrink(ctx, sc, case):
    key = "mats" if "mats" in case else "blocks"
    best = case
    for k in range(len(case[key])):
        c = dict(case, **{key: [case[key][k]]})
        if _oracle_case(ctx, sc, c) is not None:
            best = c
            break
    return best


def _sample_files(ctx):
    """listings match reads on the files shipped with pyYeti (no encoder involved)"""
    op4, op2 = _op4(), _op2()
    root = os.path.join(ctx.repo, "pyyeti", "tests")
    for f in sorted(glob.glob(os.path.join(root, "nastran_op4_data", "*.op4"))):
        if "badname" in f:
            continue
        ctx.count("oracle:sample-op4")
        try:
            with warnings.catch_warnings(), _TimeLimit(120):
                warnings.simplefilter("ignore")
                dn, ds, df, dt = op4.dir(f, verbose=False)
                huge = any(int(s[0]) * int(s[1]) > 5_000_000 for s in ds)
                n, m, fo, t = op4.load(f, into="list", sparse=huge)
                n2, m2, fo2, t2 = op4.load(f, into="list", sparse=True)
            cb = lambda x: _bits(np.asarray(x.toarray() if sp.issparse(x) else x, dtype=complex))
            ok = (n == dn == n2 and list(fo) == list(df) == list(fo2) and list(t) == list(dt)
                  and [tuple(x.shape) for x in m] == [tuple(map(int, s)) for s in ds]
                  and (huge or all(cb(a) == cb(b) for a, b in zip(m, m2))))
            if huge:
                ctx.count("oracle:sample-op4-huge-dimension(sparse reads only)")
                continue
            if ok and len(set(n)) > 1:
                with warnings.catch_warnings():
                    warnings.simplefilter("ignore")
                    sn, sm, _, _ = op4.load(f, namelist=[n[-1]], into="list")
                ok = sn == [x for x in n if x == n[-1]] and cb(sm[-1]) == cb(m[-1])
            if not ok:
                ctx.fail("op4-sample-file-listing-vs-read", "dir / sparse read / named subset disagree with the full dense read",
                         {"file": os.path.relpath(f, ctx.repo)}, [dn, [list(map(int, s)) for s in ds]], [n, [list(x.shape) for x in m]])
        except Exception as e:  # noqa: BLE001
            ctx.fail("op4-sample-file-raises", "reading a shipped sample file raises", {"file": os.path.relpath(f, ctx.repo)}, repr(e), "a successful read")
    files = sorted(glob.glob(os.path.join(root, "nastran_op2_data", "*.op2")) + glob.glob(os.path.join(root, "nas2cam_extseout", "*.op2")))
    for f in files[: ctx.pick(6, 40)]:
        ctx.count("oracle:sample-op2")
        try:
            with _TimeLimit(120):
                o2 = op2.OP2(f)
            try:
                lst = o2.dblist
                bad = None
                for i, s in enumerate(lst):
                    if i + 1 < len(lst) and s.stop != lst[i + 1].start:
                        bad = ("gap", s.name)
                    o2.set_position(s.start)
                    nm, tr, ty = o2.rdop2nt()
                    if nm != s.name or tuple(tr) != tuple(s.trailer) or (ty > 0) != (s.dbtype > 0):
                        bad = ("rdop2nt", s.name)
                        break
                    if s.dbtype > 0:
                        X = o2.rdop2matrix(tr)
                        if o2._fileh.tell() != s.stop or X.shape[1] != s.size[1]:
                            bad = ("matrix read ends elsewhere than the skip", s.name)
                            break
                    else:
                        nrec = 0
                        while o2.rdop2record() is not None:
                            nrec += 1
                        if o2._fileh.tell() != s.stop:
                            bad = ("table read ends elsewhere than the header scan", s.name)
                            break
                if bad:
                    ctx.fail("op2-sample-file-directory-vs-read", "directory positions disagree with sequential reads",
                             {"file": os.path.relpath(f, ctx.repo)}, list(bad), "directory == reads")
            finally:
                o2._fileh.close()
                o2._fileh = None
        except Exception as e:  # noqa: BLE001
            ctx.fail("op2-sample-file-raises", "reading a shipped sample file raises", {"file": os.path.relpath(f, ctx.repo)}, repr(e), "a successful read")


def search(ctx, hints):
    sc = _Scratch()
    try:
        cases = []
        for h in hints[:30]:
            c = h.get("input")
            if isinstance(c, dict) and c.get("kind") in ("op4bin", "op2"):
                cases.append(_from_json(c))
        rng = ctx.rng
        for i in range(ctx.pick(300, 3000)):
            cases.append(_gen_bin_case(rng, big=(i % 50 == 0)))
        for i in range(ctx.pick(250, 2500)):
            cases.append(_gen_op2_case(rng, big=(i % 50 == 0)))
        nfail = 0
        for case in cases:
            ctx.count("oracle:" + case["kind"])
            r = _oracle_case(ctx, sc, case)
            if r is not None and r[0] == "timeout":
                ntime = ctx.extra["oracle_timeouts"] = ctx.extra.get("oracle_timeouts", 0) + 1
                ctx.fail(_family(case, "timeout"), "reading a file encoded from the format does not terminate",
                         _jsonable_case(case), r[1], r[2])
                if ntime >= 2:
                    break
                continue
            if r is not None:
                c = _shrink(ctx, sc, case)
                r2 = _oracle_case(ctx, sc, c) or r
                ctx.fail(_family(c, r2[0]), "file encoded from the format (independent Python encoder) is not read back: " + r2[0],
                         _jsonable_case(c), r2[1], r2[2])
                nfail += 1
                if nfail > 25:
                    break
        _sample_files(ctx)
    finally:
        sc.close()


def _from_json(c):
    c = dict(c)
    if "mats" in c:
        c["mats"] = [dict(m, cols=[(col, [(r0, list(v)) for r0, v in strs]) for col, strs in m["cols"]]) for m in c["mats"]]
    if "blocks" in c:
        bl = []
        for b in c["blocks"]:
            b = dict(b)
            if b["t"] == "m":
                b["cols"] = [[(r, list(v)) for r, v in strs] for strs in b["cols"]]
            bl.append(b)
        c["blocks"] = bl
    return c


def replay(ctx, data):
    f = data.get("failure")
    if not f or not isinstance(f.get("input"), dict):
        return None
    inp = f["input"]
    if "file" in inp:
        sub = type(ctx).__new__(type(ctx))
        sub.__dict__.update(ctx.__dict__)
        sub.failures = []
        _sample_files(sub)
        for x in sub.failures:
            if x["input"].get("file") == inp["file"]:
                return x
        return None
    case = _from_json(inp)
    sc = _Scratch()
    try:
        r = _oracle_case(ctx, sc, case)
        if r is None:
            return None
        return {"family": _family(case, r[0]), "what": r[0], "input": inp, "observed": r[1], "required": r[2]}
    finally:
        sc.close()
