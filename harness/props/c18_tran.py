"""C18 helper: toy nas2cam dictionaries WITH stored matrices (got, goq, gm, pha, phg) for n2p.formtran /
formulvs / formdrm / addulvs, the driver serialisation of matrices, and the model-free "physical"
reference: the displacement of every DOF of a superelement from its a-set displacements, computed from
the defining relations

    u_t, u_q = the a-set values;  u_o = GOT u_t + GOQ u_q;  u_s = 0;  u_m = GM u_n  (n-set order)

and, for the residual, u_g = PHG x (or u_a = PHA x and the relations above).  Matrices hold small
integers, so every product is exact in float64.
"""
import numpy as np

from props import c18_nas as N

LETTER_OF = None


def _letters(nas_uset, masks):
    """base-set letter of every row of a generated table (its word is one base-set mask)"""
    inv = {int(masks[b]): b for b in "msoqrcbe"}
    return [inv[int(w)] for w in nas_uset["nasset"].values.tolist()]


def add_matrices(rng, nas, masks, variant=None):
    """adds got / goq / gm for every SE != 0 and phg or pha (+ gm) for SE 0; returns a dict of tags"""
    tags = set()
    nas["got"], nas["goq"], nas["gm"], nas["pha"], nas["phg"] = {}, {}, {}, {}, {}
    ri = lambda r, c, lo=-2, hi=2: np.array([[rng.randint(lo, hi) for _ in range(c)] for _ in range(r)], dtype=float).reshape(r, c)
    for se, u in nas["uset"].items():
        L = _letters(u, masks)
        cnt = lambda s: sum(1 for x in L if x in s)
        nt, nq, no, nm = cnt("rcb"), cnt("q"), cnt("o"), cnt("m")
        nn = cnt("soqrcb")
        if se != 0:
            if rng.random() < 0.9:
                nas["got"][se] = ri(no, nt)
            else:
                tags.add("got-absent")
            if nq > 0 and rng.random() < 0.85:
                nas["goq"][se] = ri(no, nq)
            elif nq > 0:
                tags.add("goq-absent")
            if nm > 0 and rng.random() < 0.95:
                g = ri(nm, nn)
                if rng.random() < 0.3:  # GM independent of the o-set (the `v.size == 0` branch)
                    for j, x in enumerate([x for x in L if x in "soqrcb"]):
                        if x == "o":
                            g[:, j] = 0
                    tags.add("gm-no-o")
                nas["gm"][se] = g
            elif nm > 0:
                tags.add("gm-absent")
        else:
            k = rng.randint(1, 3)
            v = variant or rng.choice(["phg", "phg", "pha", "pha", "none"])
            if v == "phg":
                nas["phg"][0] = ri(cnt("msoqrcb"), k, -3, 3)
            elif v == "pha":
                nas["pha"][0] = ri(cnt("qrcb"), k, -3, 3)
            tags.add("res-" + v)
            if nm > 0 and rng.random() < 0.9:
                g = ri(nm, nn)
                if rng.random() < 0.85:
                    for j, x in enumerate([x for x in L if x in "soqrcb"]):
                        if x == "o":
                            g[:, j] = 0
                else:
                    tags.add("res-gm-on-o")
                nas["gm"][0] = g
    return tags


def with_extra_points(rng, nas, masks, share=0.5):
    """a copy of the dictionary in which about `share` of the tables got 1-3 extra points (scalar e-set rows: in the p-set,
    not in the g-set) in front of, between (not inside a grid's six rows) and behind their DOF; returns (copy, set of the
    SE whose table was changed).  The stored matrices are shared: their shapes depend on the g-set only."""
    from props import c18_nas as N

    out = dict(nas)
    out["uset"] = dict(nas["uset"])
    changed = set()
    for se, u in nas["uset"].items():
        if rng.random() >= share:
            continue
        rows = [[int(i), int(d), int(w)] for (i, d), w in zip(u.index.tolist(), u["nasset"].values.tolist())]
        for k in range(rng.randint(1, 3)):
            pos = rng.choice([0, 0, len(rows), rng.randint(0, len(rows))])
            while 0 < pos < len(rows) and rows[pos][1] > 1:
                pos -= 1
            rows.insert(pos, [9000 + 10 * int(se) + k, 0, int(masks["e"])])
        out["uset"][se] = N.mk_table(rows)
        changed.add(se)
    return out, changed


def _mat(m):
    a = np.asarray(m, dtype=float)
    if a.ndim != 2:
        a = a.reshape(a.shape[0] if a.ndim else 0, -1)
    return "%d %d %s" % (a.shape[0], a.shape[1], " ".join(str(int(v)) for v in a.ravel().tolist()))


def mats_sections(nas):
    """the five matrix sections of the driver request: got | goq | gm | pha | phg"""
    out = []
    for key in ("got", "goq", "gm", "pha", "phg"):
        d = nas.get(key, {})
        out.append(" ; ".join("%d : %s" % (int(s), _mat(m)) for s, m in d.items()))
    return " | ".join(out)


def ulvs_section(nas):
    if "ulvs" not in nas:
        return "none"
    parts = []
    for s, m in nas["ulvs"].items():
        parts.append("%d : %s" % (int(s), "one" if np.ndim(m) == 0 else _mat(m)))
    return "dict " + " ; ".join(parts)


def show_mat(m):
    """canonical reply text of a matrix result (the driver prints the same)"""
    if np.ndim(m) == 0:
        return "one"
    a = np.asarray(m, dtype=float)
    ints = [int(v) for v in a.ravel().tolist()]
    if any(float(i) != v for i, v in zip(ints, a.ravel().tolist())):
        return "non-integer"
    return "%d %d : %s" % (a.shape[0], a.shape[1], " ".join(map(str, ints)))


def plain_mats(nas):
    """JSON-able description of the stored matrices (shape kept: a matrix may have no rows)"""
    out = {}
    for key in ("got", "goq", "gm", "pha", "phg"):
        out[key] = {str(int(s)): {"shape": list(np.asarray(m).shape), "data": np.asarray(m).ravel().tolist()}
                    for s, m in nas.get(key, {}).items()}
    return out


def from_plain(p, mats):
    nas = N.from_plain(p)
    for key in ("got", "goq", "gm", "pha", "phg"):
        nas[key] = {}
        for s, m in mats.get(key, {}).items():
            nas[key][int(s)] = np.array(m["data"], dtype=float).reshape(m["shape"])
    return nas


# ---- the physical reference ------------------------------------------------------------------


def full_from_aset(nas, se, masks, xa):
    """displacement (a matrix: one column per case) of every row of the table of SE `se` from the values `xa` of
    its a-set DOF (table order); rows of the e-set (none in generated tables) stay 0"""
    u = nas["uset"][se]
    L = _letters(u, masks)
    nrow = len(L)
    xa = np.asarray(xa, dtype=float)
    out = np.zeros((nrow, xa.shape[1]))
    ai = [i for i, x in enumerate(L) if x in "qrcb"]
    ti = [i for i, x in enumerate(L) if x in "rcb"]
    qi = [i for i, x in enumerate(L) if x == "q"]
    oi = [i for i, x in enumerate(L) if x == "o"]
    ni = [i for i, x in enumerate(L) if x in "soqrcb"]
    mi = [i for i, x in enumerate(L) if x == "m"]
    out[ai] = xa
    if oi:
        got = nas.get("got", {}).get(se)
        goq = nas.get("goq", {}).get(se)
        v = np.zeros((len(oi), xa.shape[1]))
        if got is not None:
            v = v + got @ out[ti]
        if goq is not None and len(qi):
            v = v + goq @ out[qi]
        out[oi] = v
    if mi:
        gm = nas.get("gm", {}).get(se)
        if gm is None:
            raise KeyError("gm")
        out[mi] = gm @ out[ni]
    return out


def residual_full(nas, masks, x):
    """displacement of every row of the residual's table for modal coordinates x (columns = cases)"""
    u = nas["uset"][0]
    L = _letters(u, masks)
    if 0 in nas.get("phg", {}):
        out = np.zeros((len(L), x.shape[1]))
        gi = [i for i, c in enumerate(L) if c in "msoqrcb"]
        out[gi] = nas["phg"][0] @ x
        return out
    return full_from_aset(nas, 0, masks, nas["pha"][0] @ x)


# ---- request generators and the model-free oracle ---------------------------------------------


def gen_request(rng, uset, masks, prefer=None):
    """a DOF request for formtran / formdrm on table `uset`: returns (python arg, driver kind, driver section, tags)"""
    keys = [(int(i), int(d)) for (i, d) in uset.index.tolist()]
    L = _letters(uset, masks)
    tags = set()
    grids = sorted({i for (i, d) in keys if d > 0})
    if not keys:  # a table without rows: every request misses
        return [[97, 0]], "2", "97 0", {"missing"}
    r = rng.random()
    if r < 0.2 and grids:
        ids = [rng.choice(grids) for _ in range(rng.randint(1, 2))]
        return ids, "1 1", " ".join(map(str, ids)), {"ids"}
    pool = keys
    if prefer == "a" or (prefer is None and rng.random() < 0.25):
        pa = [k for k, x in zip(keys, L) if x in "qrcb"]
        if pa:
            pool = pa
            tags.add("a-only")
    rows = []
    for _ in range(rng.randint(1, 5)):
        i, d = rng.choice(pool)
        if d > 0 and rng.random() < 0.3:
            comps = sorted(rng.sample(range(1, 7), rng.randint(2, 4)))
            if pool is not keys:
                comps = [c for c in comps if (i, c) in pool] or [d]
            rows.append([i, int("".join(map(str, comps)))])
        else:
            rows.append([i, d])
    r2 = rng.random()
    if r2 < 0.08:
        rows.append([rng.choice([97, 98, 99]), rng.choice([0, 1])])
        tags.add("missing")
    elif r2 < 0.2:
        rows.append(list(rows[0]))
        tags.add("repeated")
    return rows, "2", " ".join(str(v) for r_ in rows for v in r_), tags


def expand(dof):
    if dof and not isinstance(dof[0], list):
        return [(i, d) for i in dof for d in range(1, 7)]
    return [(i, int(ch)) for i, a in dof for ch in str(a)]


def chain_avec(nas, masks, info_parent, expected_upa, c, sedn, x, gset=False):
    """a-set displacements of SE `c` when the DOF of `sedn` move by `x` (a-set of sedn; modal coordinates - or,
    with gset, g-set displacements - for the residual): from the defining relations, level by level.  None when the
    recursion needs something the dictionary does not define (skipped DOF, o-set of a pha residual)."""
    path = [c]
    while path[-1] != sedn:
        if path[-1] not in info_parent:
            return None
        path.append(info_parent[path[-1]])
    cur = None
    for k in range(len(path) - 1, 0, -1):
        s, up = path[k], path[k - 1]
        u = nas["uset"][s]
        L = _letters(u, masks)
        if k == len(path) - 1:
            if s == 0:
                if gset:
                    full = np.zeros((len(L), x.shape[1]))
                    full[[i for i, t in enumerate(L) if t in "msoqrcb"]] = x
                elif 0 in nas.get("phg", {}):
                    full = residual_full(nas, masks, x)
                elif 0 in nas.get("pha", {}):
                    full = residual_full(nas, masks, x)
                    bad = [i for i, t in enumerate(L) if t == "o"]
                    full[bad] = np.nan
                    if "m" in L and np.any(nas["gm"][0][:, [j for j, t in enumerate([t for t in L if t in "soqrcb"]) if t == "o"]]):
                        full[[i for i, t in enumerate(L) if t == "m"]] = np.nan
                else:
                    return None
            else:
                full = full_from_aset(nas, s, masks, x)
        else:
            full = full_from_aset(nas, s, masks, cur)
        rows = expected_upa[up]
        na_up = sum(1 for t in _letters(nas["uset"][up], masks) if t in "qrcb")
        if len(rows) != na_up:
            return None
        cur = full[rows]
        if np.any(np.isnan(cur)):
            return None
    return cur


# ---- the nas2cam files of pyYeti's tests: float matrices sent as exact rationals -------------------


def _matq(m):
    from fractions import Fraction

    a = np.asarray(m, dtype=float)
    if a.ndim != 2:
        a = a.reshape(a.shape[0] if a.ndim else 0, -1)

    def q(v):
        f = Fraction(v)
        return str(f.numerator) if f.denominator == 1 else "%d/%d" % (f.numerator, f.denominator)

    return "%d %d %s" % (a.shape[0], a.shape[1], " ".join(q(v) for v in a.ravel().tolist()))


def mats_sections_q(nas):
    out = []
    for key in ("got", "goq", "gm", "pha", "phg"):
        d = nas.get(key, {})
        out.append(" ; ".join("%d : %s" % (int(s), _matq(m)) for s, m in d.items()))
    return " | ".join(out)


def match_q(impl, got, with_dof=True):
    """numeric comparison (1e-9 of the largest entry) of a matrix reply with rational entries against the real
    result; the shape and the output DOF exactly"""
    from fractions import Fraction

    if impl[0] != "ok":
        return " ".join(got.split()) == impl[0]
    if not got.startswith("ok "):
        return False
    body = got[3:]
    if with_dof:
        m, od = impl[1]
        secs = body.split("|")
        if len(secs) != 2 or [int(v) for v in secs[1].split()] != [int(v) for v in np.asarray(od).ravel().tolist()]:
            return False
        body = secs[0]
    else:
        m = impl[1]
    if np.ndim(m) == 0:
        return body.strip() == "one"
    head, _, vals = body.partition(":")
    shape = [int(v) for v in head.split()]
    a = np.asarray(m, dtype=float)
    if shape != list(a.shape):
        return False
    v = np.array([float(Fraction(t)) for t in vals.split()], dtype=float).reshape(a.shape)
    scale = max(1.0, float(np.abs(v).max()) if v.size else 1.0)
    return bool(np.all(np.abs(v - a) <= 1e-9 * scale))
