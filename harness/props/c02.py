"""C02 — frequency-domain solution satisfies the dynamic-stiffness equation (DESIGN.md §6/C02).

Tie: numeric correspondence between the Lean model (lean/PyYetiVerif/Model/Freq.lean, run at a
pair-of-doubles complex type through Drivers/C02.lean) and
  * pyyeti.ode.SolveUnc(...).fsolve      (uncoupled closed form, coupled complex-mode form,
                                          rigid-body and residual-flexibility partitions, pre_eig)
  * pyyeti.ode.FreqDirect(...).fsolve    (direct solve per frequency)
  * pyyeti.ode.solvepsd                  (unit FRFs scaled by the force PSDs, trapezoidal RMS)
over coupled/uncoupled x rb/rf layouts (contiguous and interleaved, index vectors also unsorted) x all
eight incrb subsets x rf_disp_only x pre_eig x real/complex coefficients x mass None/vector/matrix x
dtype (float64 / float32 / integer matrices, complex128 / complex64 forces) x argument shapes (1-D and
2-D force arrays, scalar / single / repeated frequencies), 0 Hz included for SolveUnc; solvepsd also
with the uncertainty factors rbduf / elduf.  An *exact* stream compares the constructor bookkeeping
(nonrf, rb, el, _rb, _el, kdof, the rows behind the reduced m, b, k, imrb, invm) of every constructed
solver with the model's explicit state (Model/FreqSolve.lean: mkLayout, suInit).  eig and eigh enter the
model as data with a specification whose residual is measured here on every case; the linear solves are
the model's own Gaussian elimination (proved correct in Props/C02b.lean), compared numerically with
LAPACK's result.

The oracle (`search`) never touches the model: residual of (-W^2 M + iW B + K) d - F on the
dynamic rows, static residual on the rf rows, v = iW d, a = -W^2 d, exact zeros per incrb /
rf_disp_only, SolveUnc == FreqDirect, PSD re-summation and RMS, and "no exception on valid input".
"""
import itertools
import json
import os
import warnings

import numpy as np
import scipy.linalg as la

from runner import Infra

ID = "C02"
LEAN_MODULES = ["PyYetiVerif.Props.C02", "PyYetiVerif.Props.C02h", "PyYetiVerif.Audit.C02"]
AUDIT_FILE = "PyYetiVerif/Audit/C02.lean"
THEOREMS = [
    "PyYetiVerif.C02." + n
    for n in (
        "frfUnc_solves frfDir_solves frfRb_solves frfRb_zero_freq incrb_table incrb_table_direct "
        "incrb_only_rb rf_rows rowUnc_eq_rowDirect direct_unique frfCoupled_solves direct_eq_modal "
        "solvePsd_def solvePsd_linear solvePsd_nonneg trapz_nonneg rms_sq parseIncrb_spec "
        "imrbPick_correct rbMaskAssignPrefix_partial rbMaskAssignPrefix_counterexample imrbPickPrefix_partial "
        "imrbPickPrefix_counterexample "
        # Props/C02b: the linear solver of the model
        "gaussList_spec gaussSolve_spec gaussSolve_none_singular gaussSolve_complete freqDirect_gauss_solves "
        "direct_eq_modal_gauss "
        # Props/C02c: partition bookkeeping, constructor state, scatter
        "layout_correct imrb_correct imrbPick_is_state_rows findings_instances scatter_covers "
        # Props/C02d-f: blocks and whole columns
        "fsolve_full_solves fsolve_full_va rfBlock_solves rbBlock_solves elBlockUnc_solves elBlockCoup_solves "
        "fdBlock_solves fd_incrb_rows colFD_solves colSU_solves "
        # Props/C02g: solvepsd uncertainty factors
        "applyUf_rows frfRec_with_uf solvePsd_with_uf preEig_solves "
        # Props/C02i: incrb / rf_disp_only at the level of the whole column
        "rfVals_options rfVals_length rbAcc_length rbVals_options elValsCoup_length elValsSU_rows "
        "colSU_options colFD_options "
        # third phase: damped rigid-body modes of uncoupled systems (findings F51 / F52, repaired code)
        "rbDamp_den frfRb_damped_solves frfRb_damped_reduces frfRbD_zero_freq frfRb_zero_freq_unsolvable "
        "rbDamp_den_ne_zero_real rbDampRows_correct damped_rb_instances rbAccD_length "
        # Props/C02j: SolveUnc = FreqDirect at full size (uncoupled), the full-size equation for every option value
        "partStiff_unc_su_eq_fd colSU_eq_colFD_unc colSU_solves_options "
        # W = 0 at full size, and the lemmas factored out for it
        "fsolve_full_rows rbAccD_solves rbBlock_zero_freq elValsSU_solves colSU_zero_freq"
    ).split()
]
TRUSTED = [
    "correspondence harness harness/props/c02.py (numeric comparison, |impl-model| <= 1e-9*scale, 2e-5*scale for "
    "float32 matrices; exact comparison of the partition vectors and of the constructor state; conditioning guard)",
    "numpy/scipy kernels modelled by specification: eigss/addconj ('A U = U diag(lam), U invertible', partitioned "
    "residuals measured per case), scipy.linalg.eigh for pre_eig (phi^T M phi = I, phi^T K phi = diag w, residual "
    "measured per case); la.solve / lu_factor+lu_solve are modelled by the Gaussian elimination `gaussList`, which is "
    "proved to return a solution / refuse only singular systems over any field (LAPACK itself is not modelled: its "
    "floating-point result is compared with the model's per case)",
    "IEEE double rounding of the closed-form expressions is measured (1e-9 relative), not proved",
    "the array plumbing between the proved column functions (colSU, colFD: one frequency) and the whole call — "
    "looping over the frequencies, phi^T F and phi d of pre_eig, Array/List conversions in fsolveSU / fsolveFD / "
    "solvePsdCase — is tied by correspondence only",
]
RULE = (
    "systems are generated in modal layout: every equation is rigid-body (k = 0; b = 0 on the coupled path; on the "
    "uncoupled path 60 % of the systems with rigid-body modes give them damping b in 0.05-3 times m, real or complex, "
    "all or only some of the modes, with m None / vector / diagonal 2-D and rb automatic / explicit / permuted / bool), "
    "elastic (0.5-30 Hz, "
    "damping ratio 0.005-2, proportional / non-proportional / diagonal damping) or residual-flexibility (stiff), "
    "blocks decoupled from each other, positions contiguous or interleaved, n <= 7, mass None / vector / full "
    "matrix, real or complex (hysteretic stiffness, complex damping or mass); rb given as nothing / index vector "
    "(also unsorted) / bool vector, rf as index vector (also unsorted); pre_eig systems are free-free or grounded "
    "spring chains in physical coordinates with a damper chain, stiffness-proportional, mass-proportional (also as a "
    "damping vector) or general Rayleigh damping (the last three are diagonal after pre_eig, so a free-free model "
    "takes the uncoupled path with a damped rigid-body mode); two fixed coupled systems with a user-given rigid-body "
    "mode that carries damping (tied only); every 4th system is repeated with float32 matrices and every 4th "
    "with integer matrices, every 5th with complex64 forces.  Each system is run with all 8 incrb subsets x "
    "rf_disp_only in {F,T} (letters in random order; integer forms sampled), 1-4 frequencies including 0 Hz "
    "(SolveUnc), near-resonance values, repeated values and a scalar frequency, complex random forces; a fixed "
    "stream covers 1-D force arrays.  A case is one (system, options, solver) evaluation compared on every entry of "
    "d, v, a; plus one exact comparison of the constructor bookkeeping (nonrf, rb, el, _rb, _el, kdof, the rows "
    "behind the reduced m, b, k, imrb, invm) per (system, solver); plus solvepsd cases with rbduf / elduf in "
    "{1, 1.25, 0.8, 2}, every 8th on a system with a damped rigid-body mode; plus one exact comparison per uncoupled "
    "SolveUnc object of the damping its rigid-body solution reads (b[_rb] / brb) with the rows the model names.  "
    "Non-trivial = the system has at least two partitions or is coupled/complex/pre_eig; "
    "distinct by the full input.  Cases whose measured eigen-specification residual or dynamic-stiffness condition "
    "number is outside the guard are skipped and counted."
)
ASSUMPTIONS = [
    "modal-space equations: rigid-body, elastic and residual-flexibility partitions are decoupled from each other "
    "(the solvers extract the diagonal blocks and ignore anything else)",
    "rigid-body equations have zero stiffness when SolveUnc is compared with FreqDirect (SolveUnc treats |k| < 0.005 as "
    "zero, FreqDirect keeps it); their damping is arbitrary on the uncoupled path (modelled, proved, compared)",
    "coupled systems: a rigid-body mode has zero damping by the detection rule (its row and column of k and of b are "
    "below 0.005); a user-given rb on a coupled system with damping on those modes is outside the property - "
    "SolveUnc solves it as a = M^-1 F, FreqDirect keeps the damping; the model does what the source does (tied by a "
    "fixed correspondence stream), the oracle does not judge it (counted as an observation)",
    "at exactly 0 Hz the dynamic-stiffness equation of a rigid-body row reads 0*d = F and has no solution for F != 0 "
    "(frfRb_zero_freq_unsolvable): there the documented convention a = M^-1 F, v = d = 0 is what is required, with or "
    "without damping (frfRbD_zero_freq), instead of the residual rule; FreqDirect is not run at 0 Hz on systems with "
    "rigid-body modes",
    "the dynamic stiffness of the elastic block is non-singular at the requested frequencies (cond <= 1e8 in the runs) "
    "and so is that of every damped rigid-body row (-W^2 m + iW b != 0: automatic for real m, b - "
    "rbDamp_den_ne_zero_real - and excludes only b = -iWm for complex b); a non-finite response is accepted only if "
    "such a dynamic stiffness really is outside the conditioning domain (cond > 1e8; 1e5 for float32 matrices) at a "
    "requested frequency",
    "partition vectors are valid: rf entries distinct and < n, a user rb vector distinct, < n and disjoint from rf",
    "solvepsd uncertainty factors are judged for modal-space solvers only (with pre_eig the source scales physical "
    "rows; recorded as an observation)",
]
PARTIAL = (
    "the coupled elastic block rests on the eigen-decomposition specification (hypothesis hcoup of colSU_solves = the "
    "relations of frfCoupled_solves: A U = U Lambda in partitioned form and the U^-1 partitions; residuals measured per "
    "case, not proved); for W != 0 the full-size equation is proved for every incrb / rf_disp_only value for SolveUnc "
    "(colSU_solves_options) but for FreqDirect only for incrb = 'dva', rf_disp_only = False (colFD_solves), its other "
    "option values being related to that column entry by entry (colFD_options); at W = 0 the full-size statement for "
    "SolveUnc (colSU_zero_freq: static equation and v = a = 0 on the elastic and residual-flexibility rows, d = v = 0 "
    "and M a = F on the rigid-body rows with any damping - the documented convention, which is not a solution of the "
    "equation there: frfRb_zero_freq_unsolvable) is for incrb = 'dva', rf_disp_only = False, the other option values "
    "at W = 0 following entry by entry from colSU_options (which holds for every W); SolveUnc = FreqDirect at full size is proved for uncoupled systems "
    "(colSU_eq_colFD_unc, damped rigid-body modes included) and for coupled systems only for the elastic block "
    "(direct_eq_modal_gauss); nothing is claimed for a user-given rb on a coupled system with damping on those modes "
    "(the model, like the source, solves them without it: ColEnv.rbDamping; tied only); the pre_eig path rests on the "
    "eigh specification (preEig_solves assumes phi^T M phi = Mm etc. and det phi != 0; residual measured per case); the "
    "array plumbing of the whole call (loop over the frequencies, Array/List conversions, phi^T F and phi d as "
    "executed) is tied by correspondence only; floating-point accuracy is measured, not proved"
)
MANIFEST = {
    "level_text": "Proof (Lean 4, kernel-checked, standard axioms only) about the definitions the driver executes, over any "
    "field with an element i (instantiated at C; non-vacuity instances evaluated over ZMod 5). Formulas: the uncoupled "
    "closed forms of SolveUnc and FreqDirect solve (k - m W^2 + i W b) d = f with v = iWd, a = -W^2 d; the rigid-body "
    "solution of an uncoupled system (repaired code, findings F51 / F52) solves (-W^2 m + iW b) d = f for W != 0, every "
    "m != 0 and any damping b (frfRb_damped_solves; b = 0 gives the undamped row: frfRb_damped_reduces, frfRb_solves), "
    "is FreqDirect's row (rowUnc_eq_rowDirect) and is d = v = 0, a = f/m at W = 0 (frfRbD_zero_freq), where the "
    "equation itself has no solution (frfRb_zero_freq_unsolvable); for each of the 8 incrb subsets "
    "exactly the complementary rigid-body rows are zero; residual-flexibility rows are static with v, a zero iff "
    "rf_disp_only; the complex-mode solution solves the matrix equation given the eigen-decomposition specification, "
    "hence equals the direct solution. Linear solves: the model's Gaussian elimination with partial pivoting returns "
    "a solution whenever it returns (gaussSolve_spec), refuses only singular systems (gaussSolve_none_singular) and "
    "therefore returns the unique solution of every non-singular system. Bookkeeping: _make_rb_el yields nonrf[_rb] = "
    "rb (sorted), nonrf[_el] = el and rb ++ el ++ rf a permutation of 0..n-1 for every rf / rb specification "
    "(layout_correct); the SolveUnc constructor as explicit state (get_su_eig shrinking m, b, k, kdof and emptying "
    "_rb) pairs force[rb] with the rigid-body equations' own mass rows on every path (imrb_correct; the inputs of "
    "findings F8, F27, F28, F36 are evaluated instances) and with their own damping rows - b[_rb], or brb kept by "
    "get_su_eig before the reduction (rbDampRows_correct; the inputs of F51, F52 are evaluated instances: "
    "damped_rb_instances). Scatter: every row of d, v, a is written exactly once by "
    "its own block (scatter_covers) and the assembled column satisfies the full-size block-diagonal-by-partition "
    "equation row by row (fsolve_full_solves; the rigid-body block is iW B - W^2 M with B the diagonal damping of the "
    "rigid-body modes on the uncoupled path and zero on the coupled path); colSU_solves / colFD_solves carry this from "
    "the constructor state through the block solves to the returned column of SolveUnc.fsolve / FreqDirect.fsolve; for "
    "uncoupled systems the two full-size matrices coincide, hence the two columns (colSU_eq_colFD_unc); "
    "colSU_solves_options states the full-size equation and the v, a relations directly for every incrb subset and "
    "both rf_disp_only values; colSU_zero_freq is the whole column at W = 0 (static equation on the elastic and "
    "residual-flexibility rows, d = v = 0 and M[rb,rb] a = F[rb] on the rigid-body rows whatever their damping); "
    "colSU_options / "
    "colFD_options show that for every incrb subset, both rf_disp_only values and every W the returned column is "
    "that column with exactly the excluded letters cleared on the rigid-body rows and v, a cleared on the "
    "residual-flexibility rows iff rf_disp_only. solvepsd: response PSD "
    "= sum_i PSD_i |H_i|^2, linear and non-negative, RMS^2 = trapezoid area >= 0; rbduf / elduf multiply exactly the "
    "rigid-body / elastic rows and enter the PSD squared (solvePsd_with_uf). The same definitions are executed at a "
    "pair-of-doubles complex type and compared with SolveUnc.fsolve, FreqDirect.fsolve and solvepsd over the whole "
    "option grid, dtype and shape axes included, and the constructor state is compared exactly.",
    "level_note": "Partial: the eigen-decomposition (eig) and eigh of pre_eig are specifications whose residuals are measured "
    "each run; the per-frequency loop and the pre_eig transforms are tied by correspondence; floating-point accuracy "
    "is measured (1e-9 relative inside a conditioning guard; 2e-5 for float32 matrices), not proved; a user-given "
    "rigid-body mode with damping on a coupled system is only tied (the source ignores that damping).",
    "technique": "Lean 4 proof (field algebra, Mathlib matrices and permutations, structural recursion for the elimination, "
    "decide for the incrb subsets and the recorded finding inputs) + numeric and exact differential correspondence "
    "with SolveUnc/FreqDirect/solvepsd + model-free residual oracle",
}

INCRB_SUBSETS = ["", "d", "v", "a", "dv", "da", "va", "dva"]
TOL = 1e-9
F32_TOL = 2e-5
ORACLE_TOL = 1e-8


# ---------------------------------------------------------------------------------------
# encoding helpers


def _enc(a):
    if a is None:
        return None
    a = np.asarray(a)
    if np.iscomplexobj(a):
        return {"r": a.real.tolist(), "i": a.imag.tolist()}
    return {"r": a.astype(float).tolist()}


def _dec(o):
    if o is None:
        return None
    r = np.array(o["r"], dtype=float)
    if "i" in o:
        return r + 1j * np.array(o["i"], dtype=float)
    return r


def _bits_c(a):
    a = np.ascontiguousarray(np.asarray(a, dtype=complex))
    return " ".join(map(str, a.reshape(-1).view(np.float64).view(np.uint64).tolist()))


def _bits_r(a):
    a = np.ascontiguousarray(np.asarray(a, dtype=float))
    return " ".join(map(str, a.reshape(-1).view(np.uint64).tolist()))


def _unbits(tokens):
    return np.array([int(t) for t in tokens], dtype=np.uint64).view(np.float64)


def _full(x, n):
    """None -> identity, vector -> diagonal matrix"""
    if x is None:
        return np.eye(n)
    x = np.asarray(x)
    return np.diag(x) if x.ndim == 1 else x


# ---------------------------------------------------------------------------------------
# generators (modal layout)


def _sym_with_eigs(rs, ev):
    k = len(ev)
    q, _ = np.linalg.qr(rs.standard_normal((k, k)))
    a = (q * ev) @ q.T
    return (a + a.T) / 2


def _layout(rs, nrb, nel, nrf):
    n = nrb + nel + nrf
    cls = ["rb"] * nrb + ["el"] * nel + ["rf"] * nrf
    if rs.random() < 0.5:
        cls = [cls[i] for i in rs.permutation(n)]
    return cls


def _idx(cls, name):
    return [i for i, c in enumerate(cls) if c == name]


def gen_unc(rs, cplx, mkind, boundary=False):
    nrb = int(rs.integers(0, 3))
    nel = int(rs.integers(1, 4))
    nrf = int(rs.integers(0, 3)) if rs.random() < 0.75 else int(rs.integers(3, 6))
    cls = _layout(rs, nrb, nel, nrf)
    n = len(cls)
    m = rs.uniform(0.5, 4.0, n)
    f = rs.uniform(0.5, 30.0, n)
    k = (2 * np.pi * f) ** 2 * m
    zeta = rs.choice([0.005, 0.02, 0.1, 0.7, 1.0, 2.0], n)
    b = 2 * zeta * np.sqrt(k * m)
    for i, c in enumerate(cls):
        if c == "rb":
            k[i] = 0.0
            b[i] = 0.0
        elif c == "rf":
            k[i] = rs.uniform(1e5, 1e7)
    rb_damped = False
    if nrb and rs.random() < 0.6:
        # uncoupled equations: a rigid-body mode is found from k alone and may carry damping, m q'' + b q' = F
        # (findings F51 / F52); with two rigid-body modes sometimes only one of them is damped
        rb_damped = True
        for t, i in enumerate(_idx(cls, "rb")):
            if t == 0 or rs.random() < 0.6:
                b[i] = rs.uniform(0.05, 3.0) * m[i]
    rbmode = "auto" if rs.random() < 0.5 else "explicit"
    if boundary and nrb:
        # both sides of the 0.005 detection threshold (only meaningful for automatic detection)
        rbmode = "auto"
        i = _idx(cls, "rb")[0]
        k[i] = 0.004
        j = _idx(cls, "el")[0]
        k[j] = 0.006
    k = k.astype(complex) if cplx else k
    if cplx:
        eta = rs.uniform(0.01, 0.1)
        k = k * (1 + 1j * eta)
        if rs.random() < 0.3:
            b = b * (1 + 0.05j)
        if rs.random() < 0.2:
            m = m * (1 + 0.01j)
    if mkind == "none":
        mm = None
    elif mkind == "vector":
        mm = m
    else:
        mm = np.diag(m)
    bb = np.diag(b) if rs.random() < 0.25 else b
    kk = np.diag(k) if rs.random() < 0.25 else k
    rb = None if rbmode == "auto" else _idx(cls, "rb")
    if rb is not None and len(rb) >= 2 and rs.random() < 0.4:
        # an index vector need not be ascending (finding F36: the masses were paired with the wrong rows)
        rb = [rb[i] for i in rs.permutation(len(rb))]
    elif rb is not None and rs.random() < 0.3:
        v = np.zeros(n, bool)
        v[rb] = True
        rb = v  # bool partition vector form
    rfv = _idx(cls, "rf") or None
    if rfv is not None and len(rfv) >= 2 and rs.random() < 0.4:
        rfv = [rfv[i] for i in rs.permutation(len(rfv))]  # an index vector need not be ascending
    return {
        "m": mm, "b": bb, "k": kk, "rb": rb, "rf": rfv, "pre_eig": False,
        "cls": cls, "unc": True, "cplx": cplx, "mkind": mkind, "boundary": bool(boundary and nrb),
        "rb_damped": rb_damped,
    }


def gen_coup(rs, cplx, mkind):
    nrb = int(rs.integers(0, 3))
    nel = int(rs.integers(2, 5))
    nrf = int(rs.integers(0, 3)) if rs.random() < 0.75 else int(rs.integers(3, 6))
    cls = _layout(rs, nrb, nel, nrf)
    n = len(cls)
    rb, el, rf = _idx(cls, "rb"), _idx(cls, "el"), _idx(cls, "rf")
    M = np.eye(n)
    B = np.zeros((n, n))
    K = np.zeros((n, n))
    if mkind == "vector":
        M = np.diag(rs.uniform(0.5, 4.0, n))
    elif mkind == "matrix":
        for blk in (rb, el, rf):
            if blk:
                M[np.ix_(blk, blk)] = _sym_with_eigs(rs, rs.uniform(0.5, 4.0, len(blk)))
    fr = rs.uniform(1.0, 30.0, nel)
    kev = (2 * np.pi * fr) ** 2
    style = rs.choice(["kfull-bfull", "kdiag-bfull", "kfull-bdiag", "kfull-bprop"])
    if style.startswith("kfull") or mkind != "matrix" and style == "kdiag-bfull" and False:
        Kel = _sym_with_eigs(rs, kev)
    else:
        Kel = np.diag(kev)
    zeta = rs.choice([0.01, 0.03, 0.1, 0.4], nel)
    bev = 2 * zeta * np.sqrt(kev)
    if style.endswith("bfull"):
        Bel = _sym_with_eigs(rs, bev)
    elif style.endswith("bdiag"):
        Bel = np.diag(bev)
    else:
        Bel = 0.3 * M[np.ix_(el, el)] + 2e-4 * Kel
    if rs.random() < 0.3 and nel >= 2:
        # non-symmetric (gyroscopic) damping among the elastic DOF; k and m stay symmetric
        G = rs.standard_normal((nel, nel)) * 0.3 * float(np.sqrt(kev).mean()) * float(zeta.mean())
        Bel = Bel + (G - G.T)
    K[np.ix_(el, el)] = Kel
    B[np.ix_(el, el)] = Bel
    if rf:
        K[np.ix_(rf, rf)] = _sym_with_eigs(rs, rs.uniform(1e5, 1e6, len(rf)))
        B[np.ix_(rf, rf)] = _sym_with_eigs(rs, rs.uniform(1.0, 5.0, len(rf)))
    if cplx:
        K = K * (1 + 1j * rs.uniform(0.01, 0.1))
        if rs.random() < 0.3:
            B = B * (1 + 0.05j)
    if mkind == "none":
        mm = None
    elif mkind == "vector":
        mm = np.diag(M).copy()
    else:
        mm = M
    rbmode = "auto" if rs.random() < 0.5 else "explicit"
    if rbmode == "explicit" and len(rb) >= 2 and rs.random() < 0.4:
        rb = [rb[i] for i in rs.permutation(len(rb))]
    if len(rf) >= 2 and rs.random() < 0.4:
        rf = [rf[i] for i in rs.permutation(len(rf))]
    return {
        "m": mm, "b": B, "k": K, "rb": None if rbmode == "auto" else rb, "rf": rf or None, "pre_eig": False,
        "cls": cls, "unc": False, "cplx": cplx, "mkind": mkind, "boundary": False,
    }


def gen_pre(rs, cplx, mkind):
    """physical spring-damper chain, free-free (one rigid-body mode) or grounded"""
    n = int(rs.integers(3, 7))
    free = rs.random() < 0.6
    ks = rs.uniform(200.0, 4000.0, n + 1)
    cs = rs.uniform(0.2, 3.0, n + 1)
    if free:
        ks[0] = ks[n] = 0.0
        cs[0] = cs[n] = 0.0

    def chain(v):
        A = np.zeros((n, n))
        for i in range(n):
            A[i, i] = v[i] + v[i + 1]
            if i + 1 < n:
                A[i, i + 1] = A[i + 1, i] = -v[i + 1]
        return A

    K = chain(ks)
    # damping: a damper chain (coupled after pre_eig), stiffness-proportional, mass-proportional or general Rayleigh
    # (the last three are diagonal after pre_eig: the uncoupled path; on a free-free model the rigid-body mode then
    # carries the damping alpha -- how F51 surfaced through frclim.calcAM)
    dstyle = str(rs.choice(["chain", "kprop", "mprop", "rayleigh"], p=[0.3, 0.15, 0.3, 0.25]))
    alpha = float(rs.uniform(0.05, 1.5))
    if mkind == "none":
        mm, M = None, np.eye(n)
    elif mkind == "vector":
        mm = rs.uniform(0.5, 4.0, n)
        M = np.diag(mm)
    else:
        M = _sym_with_eigs(rs, rs.uniform(0.5, 4.0, n))
        mm = M
    B = {"chain": chain(cs), "kprop": 2e-4 * K, "mprop": alpha * M, "rayleigh": alpha * M + 2e-4 * K}[dstyle]
    if cplx:
        B = B * (1 + 0.1j)
    if dstyle == "mprop" and mkind != "matrix" and rs.random() < 0.4:
        B = np.diag(B).copy()  # a damping vector: `(u.T * b) @ u` in `_do_pre_eig`
    rf = [n - 1] if rs.random() < 0.3 else None
    return {
        "m": mm, "b": B, "k": K, "rb": None, "rf": rf, "pre_eig": True,
        "cls": None, "unc": None, "cplx": cplx, "mkind": mkind, "boundary": False, "free": free, "dstyle": dstyle,
    }


def gen_freq(rs, sysd, allow_zero):
    nf = int(rs.integers(1, 5))
    fr = list(rs.uniform(0.1, 40.0, nf))
    k = _full(sysd["k"], np.shape(sysd["k"])[0])
    if rs.random() < 0.4 and not sysd["pre_eig"] and sysd["cls"] and "el" in sysd["cls"]:
        # near a resonance of an elastic equation
        i = _idx(sysd["cls"], "el")[0]
        m = _full(sysd["m"], k.shape[0])
        w2 = abs(k[i, i] / m[i, i])
        fr[0] = float(np.sqrt(w2) / (2 * np.pi) * rs.uniform(0.98, 1.02))
    if allow_zero and rs.random() < 0.5:
        fr[int(rs.integers(0, nf))] = 0.0
    if nf >= 2 and rs.random() < 0.25:
        fr[1] = fr[0]  # a frequency may be requested more than once
    return np.array(sorted(fr))


def spec_of(sysd, solver, incrb, rfd, freq, F):
    return {
        "solver": solver, "m": _enc(sysd["m"]), "b": _enc(sysd["b"]), "k": _enc(sysd["k"]),
        "rb": None if sysd["rb"] is None else [int(i) for i in np.nonzero(sysd["rb"])[0]]
        if np.asarray(sysd["rb"]).dtype == bool else [int(i) for i in sysd["rb"]],
        "rb_bool": bool(sysd["rb"] is not None and np.asarray(sysd["rb"]).dtype == bool),
        "rf": sysd["rf"], "pre_eig": sysd["pre_eig"], "cls": sysd["cls"], "unc": sysd["unc"],
        "cplx": sysd["cplx"], "mkind": sysd["mkind"], "boundary": sysd["boundary"],
        "incrb": incrb, "rfd": bool(rfd), "freq": [float(x) for x in freq], "F": _enc(F),
        "corpus": bool(sysd.get("corpus", False)),
        "variant": sysd.get("variant"),
        "free": bool(sysd.get("free", False)), "dstyle": sysd.get("dstyle"), "fixed": sysd.get("fixed"),
    }


def _cast_sys(spec, x):
    """dtype axis: the values are representable in the target type (see `_variant_system`)"""
    v = spec.get("variant")
    if x is None:
        return None
    if v == "f32":
        return x.astype(np.complex64 if np.iscomplexobj(x) else np.float32)
    if v == "int":
        return x.astype(np.int64)
    return x


def _variant_system(sysd, variant):
    """the same system with m, b, k representable as float32 / as integers (None when not applicable)"""
    s = dict(sysd, variant=variant)
    if variant == "f32":
        for key in "mbk":
            x = s[key]
            if x is not None:
                x = np.asarray(x)
                s[key] = x.astype(np.complex64).astype(complex) if np.iscomplexobj(x) else x.astype(np.float32).astype(float)
        return s
    if variant == "int":
        if sysd["cplx"] or sysd["boundary"]:
            return None
        n = np.shape(sysd["k"])[0]
        for key in "mbk":
            x = s[key]
            if x is None:
                continue
            x = np.asarray(x, float)
            if key == "m":
                y = np.rint(x) + (np.eye(n) if x.ndim == 2 else 1.0)
            elif key == "b":
                y = np.ceil(x) if x.ndim == 1 else np.rint(x) + np.diag(np.ceil(np.abs(np.diag(x))) > 0).astype(float)
            else:
                y = np.rint(x)
            s[key] = y
        M = _full(s["m"], n)
        if np.linalg.cond(M) > 1e3 or (M.ndim == 2 and np.linalg.eigvalsh((M + M.T) / 2).min() <= 0.2):
            return None
        return s
    return s


def _rb_damping(spec):
    """(rigid-body rows, their damping block) of a modal-layout spec; (None, None) without rigid-body modes"""
    cls = spec.get("cls") or []
    rb = _idx(cls, "rb")
    if not rb:
        return None, None
    n = len(cls)
    B = _full(_dec(spec["b"]), n)
    return rb, B


def _rb_damped(spec):
    """an uncoupled system in modal layout whose rigid-body modes (found from k alone) carry damping"""
    rb, B = _rb_damping(spec)
    return bool(rb and spec.get("unc") and not spec.get("boundary") and np.any(B[rb, rb] != 0))


def _coupled_rb_damped(spec):
    """a coupled system with a (necessarily user-given) rigid-body mode whose row or column of b is not zero:
    outside the property (the detection rule defines a rigid-body mode of a coupled system by zero k and b);
    SolveUnc solves it as a = M^-1 F without that damping, FreqDirect keeps it — tied by the correspondence
    check, not judged by the oracle"""
    rb, B = _rb_damping(spec)
    return bool(rb and spec.get("unc") is False and (np.any(B[rb, :] != 0) or np.any(B[:, rb] != 0)))


def _mk_solver(spec):
    from pyyeti import ode

    m, b, k = (_cast_sys(spec, _dec(spec[key])) for key in "mbk")
    rb = spec["rb"]
    if rb is not None and spec.get("rb_bool"):
        v = np.zeros(k.shape[0], bool)
        v[rb] = True
        rb = v
    with warnings.catch_warnings():
        warnings.simplefilter("ignore")
        if spec["solver"] == "su":
            if spec.get("h"):
                return ode.SolveUnc(m, b, k, spec["h"], rb=rb, rf=spec["rf"], pre_eig=spec["pre_eig"])
            return ode.SolveUnc(m, b, k, rb=rb, rf=spec["rf"], pre_eig=spec["pre_eig"])
        return ode.FreqDirect(m, b, k, rb=rb, rf=spec["rf"])


def _fsolve_args(spec):
    """force and frequency arguments as the call passes them (dtype / shape axes)"""
    F = _dec(spec["F"])
    freq = np.array(spec["freq"])
    fv = spec.get("fvariant")
    if fv == "c64F":
        F = F.astype(np.complex64)
    elif fv == "F1d":
        F = F.reshape(-1)  # a 1-D force array
    if spec.get("scalar_freq"):
        freq = float(freq[0])
    return F, freq


def _run_impl(spec, ts=None):
    """returns (ts, sol | ('exception', kind, message))"""
    try:
        if ts is None:
            ts = _mk_solver(spec)
        F, freq = _fsolve_args(spec)
        with warnings.catch_warnings():
            warnings.simplefilter("ignore")
            with np.errstate(all="ignore"):
                sol = ts.fsolve(F, freq, incrb=spec["incrb"], rf_disp_only=spec["rfd"])
        return ts, sol
    except Exception as e:  # noqa: BLE001 - the kind is the observation
        return ts, ("exception", type(e).__name__, str(e)[:200])


def _exc_kind(name):
    return {"ValueError": "value-error", "KeyError": "value-error", "IndexError": "index-error",
            "LinAlgError": "singular"}.get(name, name)


# ---------------------------------------------------------------------------------------
# model side


def _modal_inputs(spec, ts):
    """matrices the model works with; for pre_eig these are the modal ones built from ts.phi"""
    k = _dec(spec["k"])
    n = k.shape[0]
    M, B, K = _full(_dec(spec["m"]), n), _full(_dec(spec["b"]), n), _full(k, n)
    phi = None
    info = {}
    if spec["pre_eig"] and ts is not None:
        # with the dtype of the call (float32 / integer matrices): `_do_pre_eig` works in that dtype
        Kc, Mc = _cast_sys(spec, K), _cast_sys(spec, M)
        w, u = la.eigh(Kc, Mc) if spec["m"] is not None else la.eigh(Kc)
        phi = ts.phi
        info["phi_same"] = bool(np.array_equal(u, phi))
        info["eigh_resid"] = float(
            max(abs(phi.T @ M @ phi - np.eye(n)).max(), abs(phi.T @ K @ phi - np.diag(w)).max() / max(1.0, abs(w).max()))
        )
        b = _cast_sys(spec, _dec(spec["b"]))
        B = (phi.T * b) @ phi if b.ndim == 1 else phi.T @ b @ phi
        M, K = np.eye(n), np.diag(w)
    return n, M, B, K, phi, info


def _eig_tokens(ts, M, B, K):
    """pc.lam, ur_d, ur_inv_v after _addconj + measured specification residual"""
    if ts is None or getattr(ts, "unc", True) or not getattr(ts, "ksize", 0) or not hasattr(ts, "pc"):
        return "0", None
    pc = ts.pc
    if pc is None or not hasattr(pc, "lam"):
        return "0", None
    lam, urd, urv, wv = pc.lam, pc.ur_d, pc.ur_v, pc.ur_inv_v
    s, ks = lam.size, urd.shape[0]
    kd = np.atleast_1d(np.arange(K.shape[0])[ts.kdof])
    Me, Be, Ke = M[np.ix_(kd, kd)], B[np.ix_(kd, kd)], K[np.ix_(kd, kd)]
    sc = max(1.0, abs(lam).max())
    nu = max(1e-300, abs(urv).max())
    r = max(
        abs(urd @ wv).max(),
        abs(urv @ wv - np.eye(ks)).max(),
        abs(urv - urd * lam).max() / nu,
        abs(Me @ (urv * lam) + Be @ urv + Ke @ urd).max() / (nu * sc * max(1.0, abs(Me).max())),
    )
    condu = float(np.linalg.cond(pc.ur)) if s == 2 * ks else float("inf")
    tok = "%d %s %d %s %s" % (s, _bits_c(lam), ks, _bits_c(urd), _bits_c(wv))
    return tok, {"resid": float(r), "cond": condu, "ok": bool(getattr(pc, "eig_success", True))}


def _incrb_tok(incrb):
    if isinstance(incrb, str):
        return incrb if incrb else "-"
    return "int:%d" % incrb


def _header(spec, ts):
    n, M, B, K, phi, info = _modal_inputs(spec, ts)
    eig_tok, einfo = ("0", None)
    if spec["solver"] == "su":
        eig_tok, einfo = _eig_tokens(ts, M, B, K)
    rb = "auto" if spec["rb"] is None else "%d %s" % (len(spec["rb"]), " ".join(map(str, spec["rb"])))
    rf = spec["rf"] or []
    m_none = spec["m"] is None or spec["pre_eig"]
    cplx = any(x is not None and "i" in x for x in (spec["m"], spec["b"], spec["k"]))
    hdr = "%s %d %d %d %d %d %s %s %s %s %s %s %s %s" % (
        _incrb_tok(spec["incrb"]), int(spec["rfd"]), int(m_none), int(cplx), n, len(spec["freq"]), rb,
        ("%d %s" % (len(rf), " ".join(map(str, rf)))).strip(),
        _bits_c(M), _bits_c(B), _bits_c(K),
        "0" if phi is None else "1 " + _bits_c(phi), eig_tok, _bits_r(spec["freq"]),
    )
    return " ".join(hdr.split()), n, (M, B, K), info, einfo


def _solve_line(spec, ts):
    hdr, n, mats, info, einfo = _header(spec, ts)
    F = np.atleast_2d(_dec(spec["F"]))
    line = "%s %s %d %d %s" % (spec["solver"], hdr, F.shape[0], F.shape[1], _bits_c(F))
    return line, n, mats, info, einfo


def _parse_sol(rep, n, nf):
    t = rep.split()
    if t[0] != "ok":
        return rep
    v = _unbits(t[1:])
    if v.size != 6 * n * nf:
        raise Infra("driver C02: wrong reply size")
    z = v[0::2] + 1j * v[1::2]
    z = z.reshape(3, n, nf)
    return z[0], z[1], z[2]


def _cmp(impl, model, tol):
    """max over d, v, a of |impl - model| / scale; plus exact-zero pattern agreement"""
    worst = 0.0
    for a, b in zip(impl, model):
        sc = max(abs(a).max(initial=0.0), abs(b).max(initial=0.0), 1e-300)
        with np.errstate(all="ignore"):
            e = abs(a - b).max(initial=0.0) / sc
        if not np.isfinite(e):
            e = float("inf") if not (np.array_equal(np.isnan(a), np.isnan(b))) else 0.0
        worst = max(worst, e)
    return worst


def _zero_pattern(x):
    return [(np.asarray(c) == 0).all(axis=1).tolist() for c in x]


# ---------------------------------------------------------------------------------------
# correspondence


def _corpus():
    """minimised past failures (corpus/c02.json): run first, with the full option grid"""
    path = os.path.join(os.path.dirname(os.path.dirname(os.path.dirname(os.path.abspath(__file__)))), "corpus", "c02.json")
    out = []
    if os.path.exists(path):
        for e in json.load(open(path)):
            out.append({"m": _dec(e["m"]), "b": _dec(e["b"]), "k": _dec(e["k"]), "rb": e["rb"], "rf": e["rf"],
                        "pre_eig": False, "cls": e["cls"], "unc": e["unc"], "cplx": e["cplx"], "mkind": e["mkind"],
                        "boundary": False, "corpus": True})
    return out


def _systems(ctx, rs):
    nunc, ncoup, npre = ctx.pick((36, 36, 12), (240, 240, 80))
    out = []
    kinds = list(itertools.product([False, True], ["none", "vector", "matrix"]))
    for cplx, mkind in kinds:
        for j in range(nunc // 2):
            out.append(gen_unc(rs, cplx, mkind, boundary=(j == 0)))
        for _ in range(ncoup // 2):
            out.append(gen_coup(rs, cplx, mkind))
        for _ in range(npre // 2):
            out.append(gen_pre(rs, cplx, mkind))
    # dtype axis: every 4th system also as float32 matrices, every 4th as integer matrices
    extra = []
    for j, sysd in enumerate(out):
        v = {1: "f32", 2: "int"}.get(j % 4)
        if v:
            t = _variant_system(sysd, v)
            if t is not None:
                extra.append(t)
    out = _corpus() + _systems_coupled_user_rb() + out + extra
    return out


def _systems_coupled_user_rb():
    """sibling (c) of F51: a *coupled* system whose rigid-body mode is given by the user although it carries damping.
    The source solves it as a = M^-1 F (no damping; the rigid-body detection rule of coupled systems requires zero
    damping) — the model does the same (`ColEnv.rbDamping` is zero on the coupled path); only tied, nothing claimed."""
    M = np.diag([1.0, 2.0, 3.0])
    K = np.array([[0.0, 0.0, 0.0], [0.0, 300.0, -50.0], [0.0, -50.0, 500.0]])
    B = np.array([[0.7, 0.0, 0.0], [0.0, 0.5, 0.1], [0.0, 0.1, 0.8]])
    base = {"rf": None, "pre_eig": False, "cls": ["rb", "el", "el"], "unc": False, "boundary": False,
            "fixed": "coupled-user-rb-damped"}
    return [dict(base, m=M, b=B, k=K, rb=[0], cplx=False, mkind="matrix"),
            dict(base, m=None, b=B, k=K * (1 + 0.02j), rb=[0], cplx=True, mkind="none")]


def _option_grid(rs, full):
    grid = []
    for sub in INCRB_SUBSETS:
        for rfd in (False, True):
            letters = list(sub)
            rs.shuffle(letters)
            grid.append(("".join(letters), rfd))
    if not full:
        keep = rs.permutation(len(grid))[:6]
        grid = [grid[i] for i in sorted(keep)]
    return grid


def correspondence(ctx):
    rs = ctx.np_rng(2)
    drv = ctx.driver("C02")
    systems = _systems(ctx, rs)
    jobs = []  # (spec, ts, sol, line, n, info, einfo)
    state_jobs = []  # (spec, ts, line)
    worst = {"su": 0.0, "fd": 0.0, "psd": 0.0, "eig_resid": 0.0, "eigh_resid": 0.0, "gauss_resid": 0.0}
    for si, sysd in enumerate(systems):
        for solver in ("su", "fd"):
            if solver == "fd" and sysd["pre_eig"]:
                continue
            has_rb = sysd["pre_eig"] and sysd.get("free") or (sysd["cls"] and "rb" in sysd["cls"])
            freq = gen_freq(rs, sysd, allow_zero=(solver == "su" or not has_rb))
            n = np.shape(sysd["k"])[0]
            F = rs.standard_normal((n, freq.size)) + 1j * rs.standard_normal((n, freq.size))
            fvar = None
            if si % 5 == 3:
                fvar = "c64F"  # single-precision complex forces (values representable)
                F = F.astype(np.complex64).astype(complex)
            scalar_freq = bool(freq.size == 1 and rs.random() < 0.5)
            ts = None
            first = True
            for incrb, rfd in _option_grid(rs, full=(si % 3 == 0) or ctx.thorough or sysd.get("corpus", False)):
                spec = spec_of(sysd, solver, incrb, rfd, freq, F)
                spec["fvariant"] = fvar
                spec["scalar_freq"] = scalar_freq
                if first:
                    # constructor bookkeeping, once per (system, solver): exact stream
                    first = False
                    try:
                        ts0 = _mk_solver(spec)
                    except Exception:  # noqa: BLE001 - reported by the fsolve stream below
                        ts0 = None
                    if ts0 is not None:
                        state_jobs.append((spec, ts0, "state %s %s" % (solver, _header(spec, ts0)[0])))
                        ts = ts0
                ts, sol = _run_impl(spec, ts)
                line, n_, mats, info, einfo = _solve_line(spec, ts)
                jobs.append((spec, ts, sol, line, n, info, einfo))
    # deprecated integer forms and malformed input (exception kind compared exactly)
    base = systems[0]
    n0 = np.shape(base["k"])[0]
    fq = np.array([1.0, 2.0])
    F0 = np.ones((n0, 2), complex)
    extra = []
    for solver in ("su", "fd"):
        for inc in (0, 1, 2, "x", "dvb", "ddvvaa", "DVA", "Va", "d-v"):
            extra.append(spec_of(base, solver, inc, False, fq, F0))
        extra.append(spec_of(base, solver, "dva", False, fq, np.ones((n0 + 1, 2), complex)))
        extra.append(spec_of(base, solver, "dva", False, fq, np.ones((n0, 3), complex)))
    for spec in extra:
        ts, sol = _run_impl(spec)
        line, n_, mats, info, einfo = _solve_line(spec, ts)
        jobs.append((spec, ts, sol, line, n0, info, einfo))

    lines = [j[3] for j in jobs if j[3] is not None]
    reps = iter(drv.ask(lines))
    for spec, ts, sol, line, n, info, einfo in jobs:
        tag = "%s-%s-%s" % (
            spec["solver"],
            "pre" if spec["pre_eig"] else ("unc" if spec["unc"] else "coup"),
            "complex" if spec["cplx"] else "real",
        )
        key = (spec["solver"], repr(spec["m"]), repr(spec["b"]), repr(spec["k"]), spec["rb"], spec["rf"],
               spec["incrb"], spec["rfd"], spec["freq"], repr(spec["F"]), spec.get("variant"), spec.get("fvariant"),
               spec.get("scalar_freq"))
        nontriv = bool(spec["pre_eig"] or spec["cplx"] or not spec["unc"] or len(set(spec["cls"] or [])) > 1)
        rep = next(reps)
        nf = len(spec["freq"])
        if rep == "bad-op":
            raise Infra("driver C02 rejected a request line")
        model = _parse_sol(rep, n, nf)
        ctx.case(key, nontrivial=nontriv, branch="stream:" + tag)
        ctx.count("mass:" + spec["mkind"])
        ctx.count("incrb:" + "".join(sorted(spec["incrb"])) if isinstance(spec["incrb"], str) else "incrb:int")
        ctx.count("rf_disp_only:%s" % spec["rfd"])
        if spec["cls"]:
            for c in set(spec["cls"]):
                ctx.count("partition:" + c)
            srt = sorted(range(n), key=lambda i: spec["cls"][i])
            ctx.count("layout:" + ("contiguous" if spec["cls"] == sorted(spec["cls"], key="rb el rf".split().index) else "interleaved"))
        if spec["boundary"]:
            ctx.count("rb-detection-threshold")
        if spec.get("corpus"):
            ctx.count("corpus-cases")
        if 0.0 in spec["freq"]:
            ctx.count("freq:0Hz")
        if spec["solver"] == "su" and _rb_damped(spec):
            ctx.count("rb-damped:" + ("complex" if spec["cplx"] else "real"))
            if 0.0 in spec["freq"]:
                ctx.count("rb-damped:0Hz")
        if spec.get("fixed"):
            ctx.count(spec["fixed"])
        if (spec["pre_eig"] and spec.get("free") and spec.get("dstyle") in ("mprop", "rayleigh") and ts is not None
                and getattr(ts, "unc", False) and getattr(ts, "rbsize", 0)):
            # free-free model, mass-proportional / Rayleigh damping: uncoupled after pre_eig, damped rigid-body mode
            ctx.count("pre-eig:mass-proportional")
        if isinstance(sol, tuple):  # exception
            kind = _exc_kind(sol[1])
            ctx.count("error:" + kind)
            if not (isinstance(model, str) and model == "error " + kind):
                ctx.disagree(tag, spec, {"exception": sol[1], "msg": sol[2]},
                             model if isinstance(model, str) else "a solution")
            continue
        if isinstance(model, str):
            if model == "error singular" and not all(np.isfinite(c).all() for c in (sol.d, sol.v, sol.a)):
                ctx.skip("exactly singular block: the model's elimination refuses, LAPACK returns non-finite values")
                continue
            ctx.disagree(tag, spec, "a solution", model)
            continue
        # measured specifications ---------------------------------------------------
        if info.get("eigh_resid") is not None:
            worst["eigh_resid"] = max(worst["eigh_resid"], info["eigh_resid"])
            if not info["phi_same"]:
                ctx.disagree(tag + "-phi", spec, "phi differs from eigh(k, m)", "phi = eigh(k, m)[1]")
                continue
        f32 = spec.get("variant") == "f32"
        if spec.get("variant"):
            ctx.count("variant:" + spec["variant"])
        if spec.get("fvariant"):
            ctx.count("variant:" + spec["fvariant"])
        if spec.get("scalar_freq"):
            ctx.count("freq:scalar")
        if len(set(spec["freq"])) < len(spec["freq"]):
            ctx.count("freq:repeated")
        if einfo is not None:
            if not einfo["ok"] or einfo["resid"] > (1e-5 if f32 else 1e-7) or einfo["cond"] > 1e6:
                ctx.skip("eigen-decomposition outside the conditioning guard (resid %.0e / cond %.0e class)"
                         % (10 ** np.ceil(np.log10(max(einfo["resid"], 1e-17))), 10 ** np.ceil(np.log10(max(einfo["cond"], 1.0)))))
                continue
            worst["eig_resid"] = max(worst["eig_resid"], einfo["resid"])
            ctx.count("path:complex-modes")
        impl = (sol.d, sol.v, sol.a)
        if not all(np.isfinite(c).all() for c in impl):
            if all(np.isfinite(c).all() for c in model):
                # the model (same formulas, same data) is finite: the dynamic stiffness is not singular here
                ctx.disagree(tag + "-non-finite", spec, "non-finite entries in d, v or a", "a finite response")
                continue
            ctx.skip("non-finite response (singular dynamic stiffness at a requested frequency)")
            continue
        # float32 matrices: the implementation keeps single-precision reciprocals / LU factors
        tol = F32_TOL if f32 else TOL
        e = _cmp(impl, model, tol)
        wkey = spec["solver"] + ("-f32" if f32 else "")
        worst[wkey] = max(worst.get(wkey, 0.0), e)
        if e > tol:
            ctx.disagree(tag, spec, {"d": _enc(sol.d), "v": _enc(sol.v), "a": _enc(sol.a), "rel_err": e},
                         {"d": _enc(model[0]), "v": _enc(model[1]), "a": _enc(model[2])})
        elif not spec["pre_eig"] and _zero_pattern(impl) != _zero_pattern(model):
            ctx.disagree(tag + "-zero-rows", spec, _zero_pattern(impl), _zero_pattern(model))
        if len(ctx.samples) < 4 and nontriv and ctx.evaluations % 97 == 1:
            ctx.sample({"stream": tag, "n": n, "cls": spec["cls"], "incrb": spec["incrb"], "rf_disp_only": spec["rfd"],
                        "freq": spec["freq"], "rel_err": e})
    _state_stream(ctx, drv, state_jobs)
    _shape_stream(ctx, drv)
    _psd_stream(ctx, rs, drv, systems, worst)
    _gauss_stream(ctx, rs, drv, worst)
    ctx.extra["max_rel_err"] = {k: float(v) for k, v in worst.items()}
    ctx.require_branches(
        ["stream:su-unc-real", "stream:su-unc-complex", "stream:su-coup-real", "stream:su-coup-complex",
         "stream:su-pre-real", "stream:fd-unc-real", "stream:fd-coup-real", "stream:fd-coup-complex",
         "partition:rb", "partition:rf", "partition:el", "layout:interleaved", "layout:contiguous",
         "freq:0Hz", "path:complex-modes", "error:value-error", "rb-detection-threshold",
         "mass:none", "mass:vector", "mass:matrix", "stream:psd", "corpus-cases",
         "stream:state", "state:eig-path", "state:real-uncoupled", "state:rf-below-rb", "state:rb-unsorted-user",
         "state:rf-unsorted-user", "stream:shapes", "force:1d", "freq:scalar", "freq:repeated",
         "variant:f32", "variant:int", "variant:c64F", "psd:uf", "stream:gauss-spec", "gauss:singular-refused",
         "gauss:pivoted", "rb-damped:real", "rb-damped:complex", "rb-damped:0Hz", "pre-eig:mass-proportional",
         "coupled-user-rb-damped", "psd:rb-damped", "state:rb-damping-rows:real", "state:rb-damping-rows:complex"]
        + ["incrb:" + "".join(sorted(s)) for s in INCRB_SUBSETS]
    )


def _as_idx(x, n):
    """an index vector or a slice (after `_mk_slices`) as a list of ints"""
    if isinstance(x, slice):
        return [int(i) for i in np.arange(n)[x]]
    return [int(i) for i in np.atleast_1d(x)]


def _lu_matrix(lu_piv):
    """P L U of a `lu_factor` result"""
    lu, piv = lu_piv
    k = lu.shape[0]
    L = np.tril(lu, -1) + np.eye(k)
    U = np.triu(lu)
    A = L @ U
    for i in range(k - 1, -1, -1):  # undo the row interchanges
        if piv[i] != i:
            A[[i, piv[i]]] = A[[piv[i], i]]
    return A


def _state_stream(ctx, drv, state_jobs):
    """exact tie of the constructor bookkeeping: partition vectors and the stateful reduction of m, b, k, kdof,
    _rb, _el, imrb, invm (Model/FreqSolve.lean: mkLayout, suInit) against the attributes of the freshly constructed
    SolveUnc / FreqDirect object"""
    reps = drv.ask([j[2] for j in state_jobs])
    for (spec, ts, line), rep in zip(state_jobs, reps):
        if rep == "bad-op":
            raise Infra("driver C02 rejected a state request")
        n = ts.n
        ctx.case(("state", line), nontrivial=bool(spec["pre_eig"] or len(set(spec["cls"] or [])) > 1),
                 branch="stream:state")
        if not rep.startswith("ok"):
            ctx.disagree("state", spec, "a constructed solver", rep)
            continue
        f = [x.strip() for x in rep[2:].split("|")]

        def lst(t):
            return None if t == "-" else [int(x) for x in t.split()]

        model = {"unc": f[0] == "1", "nonrf": lst(f[1]), "rb": lst(f[2]), "el": lst(f[3])}
        impl = {"unc": bool(ts.unc), "nonrf": _as_idx(ts.nonrf, n), "rb": _as_idx(ts.rb, n), "el": _as_idx(ts.el, n)}
        k = _dec(spec["k"])
        M, B, K = _modal_inputs(spec, ts)[1:4]
        num_bad = None
        if spec["solver"] == "fd":
            model.update({"_rb": lst(f[4]), "_el": lst(f[5])})
            impl.update({"_rb": _as_idx(ts._rb, n), "_el": _as_idx(ts._el, n)})
            rows = model["nonrf"]
        else:
            model.update({"kdof": lst(f[6]), "_rb": lst(f[8]), "_el": lst(f[9]), "imrb?": lst(f[10]) is not None,
                          "invm?": lst(f[11]) is not None})
            impl.update({"kdof": _as_idx(ts.kdof, n), "_rb": _as_idx(ts._rb, n), "_el": _as_idx(ts._el, n),
                         "imrb?": hasattr(ts, "imrb"), "invm?": hasattr(ts, "invm")})
            rows = lst(f[7])
            eig_path = (not model["unc"]) or spec["cplx"] or any(
                x is not None and "i" in x for x in (spec["m"], spec["b"], spec["k"]))
            if impl["nonrf"]:
                ctx.count("state:eig-path" if eig_path else "state:real-uncoupled")
            if model["rb"] and spec["rf"] and min(spec["rf"]) < max(model["rb"]):
                ctx.count("state:rf-below-rb")
            if spec["rb"] is not None and spec["rb"] != sorted(spec["rb"]):
                ctx.count("state:rb-unsorted-user")
            if spec["rf"] and list(spec["rf"]) != sorted(spec["rf"]):
                ctx.count("state:rf-unsorted-user")
            # the reduced arrays hold the rows the model says (values, not only shapes)
            tol = 1e-12 if spec["pre_eig"] else 0.0
            for nm, full, red in (("k", K, ts.k), ("b", B, ts.b), ("m", M, ts.m)):
                if red is None or rows is None:
                    continue
                want = np.diag(full)[rows] if np.ndim(red) == 1 else full[np.ix_(rows, rows)]
                if np.shape(red) != np.shape(want) or abs(red - want).max(initial=0.0) > tol * max(1.0, abs(want).max(initial=0.0)):
                    num_bad = "self.%s is not the rows %s of the %s matrix" % (nm, rows, nm)
            for nm, r_ in (("imrb", lst(f[10])), ("invm", lst(f[11]))):
                if r_ is None or not hasattr(ts, nm):
                    continue
                dec = getattr(ts, nm)
                if isinstance(dec, tuple):
                    got, want = _lu_matrix(dec), M[np.ix_(r_, r_)]
                else:
                    got, want = 1.0 / np.asarray(dec).ravel(), np.diag(M)[r_]
                rt = 1e-5 if spec.get("variant") == "f32" else 1e-12
                if np.shape(got) != np.shape(want) or abs(got - want).max(initial=0.0) > rt * max(1.0, abs(want).max(initial=0.0)):
                    num_bad = "self.%s is not the decomposition of the mass rows %s" % (nm, r_)
            # the damping `_solve_freq_rb` uses for the rigid-body modes of an uncoupled system: `b[_rb]` (real
            # coefficients) / `brb` kept by `get_su_eig` before the reduction (complex coefficients)
            if impl["unc"] and model["rb"] and impl["nonrf"]:
                dr = lst(f[14]) if len(f) > 14 else None
                got = getattr(ts, "brb", None) if eig_path else (ts.b[ts._rb] if np.ndim(ts.b) == 1 else None)
                ctx.count("state:rb-damping-rows:" + ("complex" if eig_path else "real"))
                if dr is None or got is None:
                    num_bad = "the rigid-body damping (%s) is not available: model rows %s" % (
                        "self.brb" if eig_path else "self.b[self._rb]", dr)
                else:
                    want = np.diag(B)[dr]
                    got = np.atleast_1d(got)
                    if np.shape(got) != np.shape(want) or abs(got - want).max(initial=0.0) > tol * max(1.0, abs(want).max(initial=0.0)):
                        num_bad = "the rigid-body damping %s is not the rows %s of b" % (np.asarray(got).tolist(), dr)
        if impl != model:
            ctx.disagree("state", spec, impl, model)
        elif num_bad:
            ctx.disagree("state-values", spec, num_bad, "rows as in the model state")


def _shape_stream(ctx, drv):
    """argument-shape axis: 1-D force arrays, scalar frequency, a single column"""
    jobs = []
    one = {"m": np.array([2.0]), "b": np.array([0.3]), "k": np.array([50.0]), "rb": None, "rf": None, "pre_eig": False,
           "cls": ["el"], "unc": True, "cplx": False, "mkind": "vector", "boundary": False}
    three = {"m": np.array([2.0, 3.0, 4.0]), "b": np.array([0.0, 0.3, 0.4]), "k": np.array([0.0, 50.0, 9e5]),
             "rb": None, "rf": [2], "pre_eig": False, "cls": ["rb", "el", "rf"], "unc": True, "cplx": False,
             "mkind": "vector", "boundary": False}
    for solver in ("su", "fd"):
        for sysd, F, freq, fvar, sc in (
            (one, np.array([[1.0 + 2j, 2.0, -1j]]), [1.0, 2.0, 3.0], "F1d", False),  # 1-D force over 3 frequencies
            (one, np.array([[1.5 - 1j]]), [2.5], "F1d", True),                        # 1-D force, scalar frequency
            (three, np.array([[1.0, 2.0, 3.0 + 1j]]), [2.0], "F1d", True),             # 1-D force of length n: one row
            (three, np.array([[1.0], [2.0], [3.0 + 1j]]), [2.0], None, True),         # n x 1, scalar frequency
            (three, np.array([[1.0, 1.0], [2.0, 2.0], [3.0, 3.0]]), [2.0, 2.0], None, False),  # repeated frequency
        ):
            for incrb in ("dva", "a"):
                spec = spec_of(sysd, solver, incrb, False, np.array(freq), F)
                spec["fvariant"], spec["scalar_freq"] = fvar, sc
                ts, sol = _run_impl(spec)
                jobs.append((spec, sol, _solve_line(spec, ts)[0]))
    reps = drv.ask([j[2] for j in jobs])
    for (spec, sol, line), rep in zip(jobs, reps):
        if rep == "bad-op":
            raise Infra("driver C02 rejected a request line")
        n, nf = len(spec["cls"]), len(spec["freq"])
        ctx.case(("shape", line, spec["fvariant"], spec["scalar_freq"]), nontrivial=True, branch="stream:shapes")
        ctx.count("force:1d" if spec["fvariant"] == "F1d" else "force:2d")
        if spec["scalar_freq"]:
            ctx.count("freq:scalar")
        if isinstance(sol, tuple):
            ctx.count("shape:error:" + _exc_kind(sol[1]))
            if rep != "error " + _exc_kind(sol[1]):
                ctx.disagree("shapes", spec, {"exception": sol[1], "msg": sol[2]}, rep[:60])
            continue
        model = _parse_sol(rep, n, nf)
        if isinstance(model, str):
            ctx.disagree("shapes", spec, "a solution of shape %s" % (np.shape(sol.d),), model)
            continue
        if np.shape(sol.d) != (n, nf) or _cmp((sol.d, sol.v, sol.a), model, TOL) > TOL:
            ctx.disagree("shapes", spec, {"d": _enc(sol.d), "v": _enc(sol.v), "a": _enc(sol.a)},
                         {"d": _enc(model[0]), "v": _enc(model[1]), "a": _enc(model[2])})


def _psd_case(rs, sysd, solver):
    n = np.shape(sysd["k"])[0]
    nf = int(rs.integers(2, 6))
    freq = np.sort(rs.uniform(0.5, 40.0, nf))
    p = int(rs.integers(1, 4)) if rs.random() < 0.6 else int(rs.integers(4, 7))
    t_frc = rs.standard_normal((n, p))
    fpsd = rs.uniform(0.0, 5.0, (p, nf))
    if p >= 2 and rs.random() < 0.4:
        # some forces with an identically zero PSD, in any position (not all of them)
        z = rs.random(p) < 0.45
        if z.all():
            z[int(rs.integers(0, p))] = False
        fpsd[z] = 0.0
    q = int(rs.integers(1, 4))
    flags = [bool(rs.random() < 0.7) for _ in range(4)]
    if not any(flags):
        flags[0] = True
    drm = [rs.standard_normal((q, n)) if flags[i] else None for i in range(3)]
    drm.append(rs.standard_normal((q, p)) if flags[3] else None)
    inc = str(rs.choice(INCRB_SUBSETS))
    rfd = bool(rs.random() < 0.5)
    spec = spec_of(sysd, solver, inc, rfd, freq, np.zeros((n, nf)))
    spec.update({"t_frc": _enc(t_frc), "forcepsd": _enc(fpsd), "drm": [_enc(x) for x in drm]})
    if rs.random() < 0.6:
        # rigid-body / elastic uncertainty factors (1.0 takes the `!= 1.0` shortcut of the source)
        spec["rbduf"] = float(rs.choice([1.0, 1.25, 0.8, 2.0]))
        spec["elduf"] = float(rs.choice([1.0, 1.25, 0.8, 2.0]))
    return spec


def _run_psd(spec, ts=None):
    from pyyeti import ode

    try:
        if ts is None:
            ts = _mk_solver(spec)
        drm = [_dec(x) for x in spec["drm"]]
        with warnings.catch_warnings():
            warnings.simplefilter("ignore")
            rms, psd = ode.solvepsd(ts, _dec(spec["forcepsd"]), _dec(spec["t_frc"]), np.array(spec["freq"]),
                                    [drm], rbduf=spec.get("rbduf", 1.0), elduf=spec.get("elduf", 1.0),
                                    incrb=spec["incrb"], rf_disp_only=spec["rfd"])
        return ts, (rms[0], psd[0])
    except Exception as e:  # noqa: BLE001
        return ts, ("exception", type(e).__name__, str(e)[:200])


def _psd_stream(ctx, rs, drv, systems, worst):
    cands = [s for s in systems if not s["boundary"] and not s.get("fixed")]
    damped = [s for s in cands if s.get("rb_damped") or (s["pre_eig"] and s.get("free") and s.get("dstyle") in ("mprop", "rayleigh"))]
    npsd = ctx.pick(80, 600)
    jobs = []
    for j in range(npsd):
        # every 8th case on a system with a damped rigid-body mode (uncoupled, or free-free + pre_eig)
        pool = damped if (damped and j % 8 == 0) else cands
        sysd = pool[int(rs.integers(0, len(pool)))]
        solver = "su" if (sysd["pre_eig"] or rs.random() < 0.6) else "fd"
        if pool is damped:
            solver = "su"  # the required branch psd:rb-damped is about SolveUnc (FreqDirect comes through the random picks)
        spec = _psd_case(rs, sysd, solver)
        ts, res = _run_psd(spec)
        # eigen data is only available after an fsolve call (solvepsd made one)
        hdr, n, mats, info, einfo = _header(spec, ts)
        drm = [_dec(x) for x in spec["drm"]]
        q = [x for x in drm if x is not None][0].shape[0]
        p = _dec(spec["t_frc"]).shape[1]
        line = "psd %s %s %d %s %s %d %s %s %s" % (
            solver, hdr, p, _bits_c(_dec(spec["t_frc"])), _bits_r(_dec(spec["forcepsd"])), q,
            " ".join("1" if x is not None else "0" for x in drm),
            " ".join(_bits_c(x) for x in drm if x is not None),
            _bits_r([spec.get("rbduf", 1.0), spec.get("elduf", 1.0)]))
        jobs.append((spec, res, " ".join(line.split()), q, einfo))
    reps = drv.ask([j[2] for j in jobs])
    for (spec, res, line, q, einfo), rep in zip(jobs, reps):
        ctx.case(("psd", line), nontrivial=True, branch="stream:psd")
        if spec.get("rbduf", 1.0) != 1.0 or spec.get("elduf", 1.0) != 1.0:
            ctx.count("psd:uf")
        if spec["solver"] == "su" and (_rb_damped(spec) or (spec["pre_eig"] and spec.get("free")
                                                             and spec.get("dstyle") in ("mprop", "rayleigh"))):
            ctx.count("psd:rb-damped")
        if rep == "bad-op":
            raise Infra("driver C02 rejected a psd request")
        if einfo is not None and (not einfo["ok"] or einfo["cond"] > 1e6
                                  or einfo["resid"] > (1e-5 if spec.get("variant") == "f32" else 1e-7)):
            ctx.skip("psd: eigen-decomposition outside the conditioning guard")
            continue
        if isinstance(res[0], str):
            ctx.count("psd:error:" + _exc_kind(res[1]))
            if rep != "error " + _exc_kind(res[1]):
                ctx.disagree("psd", spec, {"exception": res[1], "msg": res[2]}, rep[:60])
            continue
        if not rep.startswith("ok"):
            ctx.disagree("psd", spec, "rms, psd", rep)
            continue
        nf = len(spec["freq"])
        v = _unbits(rep.split()[1:])
        mpsd, mrms = v[: q * nf].reshape(q, nf), v[q * nf:]
        rms, psd = res
        if not (np.isfinite(psd).all() and np.isfinite(rms).all()):
            ctx.skip("psd: non-finite response")
            continue
        e = max(abs(psd - mpsd).max() / max(abs(psd).max(), 1e-300), abs(rms - mrms).max() / max(abs(rms).max(), 1e-300))
        f32 = spec.get("variant") == "f32"
        wkey = "psd-f32" if f32 else "psd"
        worst[wkey] = max(worst.get(wkey, 0.0), float(e))
        if e > 10 * (F32_TOL if f32 else TOL):
            ctx.disagree("psd", spec, {"psd": psd.tolist(), "rms": rms.tolist(), "rel_err": float(e)},
                         {"psd": mpsd.tolist(), "rms": mrms.tolist()})


def _gauss_stream(ctx, rs, drv, worst):
    """the model's stand-in linear solver meets the `solve` specification (measured)"""
    lines, data = [], []
    for _ in range(ctx.pick(40, 400)):
        n = int(rs.integers(1, 8))
        A = rs.standard_normal((n, n)) + 1j * rs.standard_normal((n, n)) + 2 * np.eye(n)
        b = rs.standard_normal(n) + 1j * rs.standard_normal(n)
        if np.linalg.cond(A) > 1e6:
            continue
        lines.append("gauss %d %s %s" % (n, _bits_c(A), _bits_c(b)))
        data.append((A, b))
    # exactly singular systems (and one that needs a row interchange first): the proved elimination refuses exactly
    # where la.solve raises LinAlgError
    for A, b in (([[1.0, 2.0], [2.0, 4.0]], [1.0, 1.0]), ([[0.0, 0.0], [0.0, 3.0]], [1.0, 2.0]),
                 ([[0.0, 2.0, 1.0], [3.0, 1.0, 1.0], [3.0, 3.0, 2.0]], [1.0, 2.0, 3.0]),
                 ([[0.0, 2.0], [3.0, 1.0]], [2.0, 5.0])):
        A, b = np.array(A, complex), np.array(b, complex)
        rep = drv.ask(["gauss %d %s %s" % (len(b), _bits_c(A), _bits_c(b))])[0]
        try:
            want = "ok"
            la.solve(A, b)
        except la.LinAlgError:
            want = "error singular"
        ctx.case(("gauss-fixed", rep), nontrivial=False, branch="gauss:" + ("singular-refused" if want != "ok" else "pivoted"))
        if not rep.startswith(want):
            ctx.disagree("gauss", {"A": _enc(A), "b": _enc(b)}, want, rep[:40])
    for (A, b), rep in zip(data, drv.ask(lines)):
        v = _unbits(rep.split()[1:])
        x = v[0::2] + 1j * v[1::2]
        r = abs(A @ x - b).max() / (abs(A).max() * abs(x).max() + abs(b).max())
        worst["gauss_resid"] = max(worst["gauss_resid"], float(r))
        ctx.case(("gauss", rep), nontrivial=False, branch="stream:gauss-spec")
        if r > 1e-10:
            raise Infra("the model's Gaussian elimination does not meet the solve specification (%.2e)" % r)


# ---------------------------------------------------------------------------------------
# model-free oracle


OBSERVATIONS = {}
FAM_A = "fsolve-su-rb-index-array-ge2-incrb-dv"
FAM_B = "su-imrb-rf-index-before-rb-mass-given"
FAM_D_REAL = "fsolve-unc-damped-rigid-body-mode-damping-ignored"          # F51
FAM_D_CPLX = "fsolve-unc-complex-coefficients-damped-rigid-body-mode"     # F52


def _contig(ix):
    return all(b == a + 1 for a, b in zip(ix, ix[1:]))


def _in_family_a(spec):
    """SolveUnc, partitions not all contiguous (index arrays), >= 2 rigid-body modes, 'd' or 'v' requested"""
    cls = spec["cls"]
    if spec["solver"] != "su" or not cls:
        return False
    inc = spec["incrb"] if isinstance(spec["incrb"], str) else {0: "", 1: "va", 2: "dva"}[spec["incrb"]]
    rb, el, rf = _idx(cls, "rb"), _idx(cls, "el"), _idx(cls, "rf")
    slices = _contig(rb) and _contig(el) and _contig(rf) and _contig(sorted(rb + el))
    return (not slices) and len(rb) >= 2 and ("d" in inc or "v" in inc)


def _in_family_b(spec):
    """SolveUnc through get_su_eig (coupled or complex) with a mass, an rf index below an rb index"""
    cls = spec["cls"]
    if spec["solver"] != "su" or not cls or spec["m"] is None:
        return False
    rb, rf = _idx(cls, "rb"), _idx(cls, "rf")
    eig_path = (not spec["unc"]) or spec["cplx"]
    return bool(eig_path and rb and rf and min(rf) < max(rb))


def _family_exc(spec, in_constructor=False):
    if in_constructor and _in_family_b(spec):
        return FAM_B
    if not in_constructor and _in_family_a(spec):
        return FAM_A
    unc = spec["unc"]
    if unc is None:
        unc = False
    cls = spec["cls"] or []
    mk = spec["mkind"]
    if mk == "matrix" and unc:
        mk = "vector"  # a diagonal 2-D mass is stored as its diagonal
    return "fsolve-%s-%s%s%s%s-mass-%s" % (
        "unc" if unc else "coup", "complex" if spec["cplx"] else "real",
        "-pre_eig" if spec["pre_eig"] else "", "-rb" if "rb" in cls else "", "-rf" if spec["rf"] else "", mk)


def _fam(spec, what):
    return "%s-%s-%s-%s" % (
        spec["solver"], what,
        "pre_eig" if spec["pre_eig"] else ("unc" if spec["unc"] else "coup"),
        "complex" if spec["cplx"] else "real")


def _rel(res, *terms):
    sc = sum(float(abs(t).max(initial=0.0)) for t in terms)
    return float(abs(res).max(initial=0.0)) / max(sc, 1e-300)


def _singular_somewhere(spec, M, B, K, freq, ts=None):
    """is some dynamic stiffness the solver has to invert outside the conditioning domain (cond > 1e8; 1e5 for float32
    matrices) at a requested frequency?  SolveUnc at 0 Hz: the rigid-body block is excluded (documented convention)."""
    lim = 1e5 if spec.get("variant") == "f32" else 1e8
    n = M.shape[0]
    if spec["pre_eig"] or not spec["cls"]:
        rf = list(spec["rf"] or [])
        blocks, zero_ok = [[i for i in range(n) if i not in rf]], False
    else:
        cls = spec["cls"]
        rb, el = _idx(cls, "rb"), _idx(cls, "el")
        if spec["solver"] == "fd":
            blocks, zero_ok = [sorted(rb + el)], False
        else:
            blocks, zero_ok = [el, rb], True
    for f in freq:
        W = 2 * np.pi * f
        if W == 0 and spec["pre_eig"] and not spec["rf"]:
            # modal coordinates: the modes the solver took as rigid-body (|k| < 0.005) follow the 0 Hz convention,
            # every other mode must have a stiffness inside the conditioning domain
            w = np.sort(abs(la.eigvalsh(K, M)))
            w = w[int(getattr(ts, "rbsize", 0) or 0):]
            if w.size and (w.min() == 0 or w.max() / w.min() > lim):
                return True
            continue
        for bi, blk in enumerate(blocks):
            if not blk or (zero_ok and bi == 1 and (W == 0 or not _rb_damped(spec))):
                continue
            H = -W * W * M[np.ix_(blk, blk)] + 1j * W * B[np.ix_(blk, blk)] + (K[np.ix_(blk, blk)] if not (zero_ok and bi == 1) else 0)
            with np.errstate(all="ignore"):
                if not np.isfinite(H).all() or np.linalg.cond(H) > lim:
                    return True
    return False


def _oracle_fsolve(spec, other=None):
    """the property on the public API; returns a list of failure dicts (model-free)"""
    out = []

    def fail(family, what, observed, required):
        out.append({"family": family, "what": what, "input": spec, "observed": observed, "required": required})

    ts, sol = _run_impl(spec)
    if isinstance(sol, tuple):
        fail(_family_exc(spec, ts is None), "%s%s raises %s on a valid system: %s"
             % ("SolveUnc" if spec["solver"] == "su" else "FreqDirect", "(...)" if ts is None else ".fsolve",
                sol[1], sol[2]),
             {"exception": sol[1], "msg": sol[2]}, "d, v, a")
        return out
    fam_b = _in_family_b(spec)
    d, v, a = sol.d, sol.v, sol.a
    ORACLE_TOL = 1e-4 if spec.get("variant") == "f32" else globals()["ORACLE_TOL"]
    k = _dec(spec["k"])
    n = k.shape[0]
    M, B, K = _full(_dec(spec["m"]), n), _full(_dec(spec["b"]), n), _full(k, n)
    F = _dec(spec["F"])
    freq = np.array(spec["freq"])
    inc = spec["incrb"]
    if not isinstance(inc, str):
        inc = {0: "", 1: "va", 2: "dva"}[inc]
    if not all(np.isfinite(c).all() for c in (d, v, a)):
        # outside the domain only if a dynamic stiffness really is singular at a requested frequency
        if not _singular_somewhere(spec, M, B, K, freq, ts):
            zero_hz = bool(spec["solver"] == "su" and 0.0 in spec["freq"] and _rb_damped(spec)
                           and not np.isfinite(np.asarray(a)[:, np.array(spec["freq"]) == 0.0]).all())
            fail("fsolve-unc-damped-rigid-body-mode-0Hz-non-finite" if zero_hz else _fam(spec, "non-finite-response"),
                 "non-finite entries in d, v or a although no dynamic stiffness is singular at the requested frequencies"
                 + (" (0 Hz with a damped rigid-body mode: the documented convention is a = F/m, v = d = 0)" if zero_hz else ""),
                 [bool(np.isfinite(c).all()) for c in (d, v, a)], "a finite response")
        return out
    if spec["pre_eig"]:
        # physical coordinates: the whole equation must hold when nothing is static or left out
        if spec["rf"] or set(inc) != set("dva"):
            return out
        for j, f in enumerate(freq):
            W = 2 * np.pi * f
            if W == 0:
                continue
            H = -W * W * M + 1j * W * B + K
            if np.linalg.cond(H) > 1e8:
                continue
            r = _rel(H @ d[:, j] - F[:, j], abs(H).max() * abs(d[:, j]), F[:, j])
            if r > ORACLE_TOL:
                fail(_fam(spec, "residual"), "(-W^2 M + iW B + K) d != F in physical coordinates (pre_eig)", r,
                     "<= %g" % ORACLE_TOL)
            if _rel(v[:, j] - 1j * W * d[:, j], v[:, j]) > ORACLE_TOL or _rel(a[:, j] + W * W * d[:, j], a[:, j]) > ORACLE_TOL:
                fail(_fam(spec, "v-a-relation"), "v != iW d or a != -W^2 d (pre_eig)", None, "v = iWd, a = -W^2 d")
        return out
    cls = spec["cls"]
    rb, el, rf = _idx(cls, "rb"), _idx(cls, "el"), _idx(cls, "rf")
    damped_rb = _rb_damped(spec)
    fam_damped = FAM_D_CPLX if spec["cplx"] else FAM_D_REAL
    skip_rb = _coupled_rb_damped(spec)
    if skip_rb:
        OBSERVATIONS["coupled-system-user-rb-with-damping-not-judged"] = OBSERVATIONS.get(
            "coupled-system-user-rb-with-damping-not-judged", 0) + 1
    for j, f in enumerate(freq):
        W = 2 * np.pi * f
        col = lambda x: x[:, j]  # noqa: E731
        # elastic rows
        if el:
            H = -W * W * M[np.ix_(el, el)] + 1j * W * B[np.ix_(el, el)] + K[np.ix_(el, el)]
            if np.linalg.cond(H) <= 1e8:
                r = _rel(H @ d[el, j] - F[el, j], abs(H).max() * abs(d[el, j]), F[el, j])
                if r > ORACLE_TOL:
                    fail(_fam(spec, "residual-el"), "(-W^2 M + iW B + K) d != F on the elastic rows", r, "<= %g" % ORACLE_TOL)
            if _rel(v[el, j] - 1j * W * d[el, j], v[el, j], W * d[el, j]) > ORACLE_TOL:
                fail(_fam(spec, "v-el"), "v != iW d on the elastic rows", col(v)[el].tolist(), (1j * W * d[el, j]).tolist())
            if _rel(a[el, j] + W * W * d[el, j], a[el, j], W * W * d[el, j]) > ORACLE_TOL:
                fail(_fam(spec, "a-el"), "a != -W^2 d on the elastic rows", col(a)[el].tolist(), (-W * W * d[el, j]).tolist())
        # residual-flexibility rows
        if rf:
            Krf = K[np.ix_(rf, rf)]
            r = _rel(Krf @ d[rf, j] - F[rf, j], abs(Krf).max() * abs(d[rf, j]), F[rf, j])
            if r > ORACLE_TOL:
                fail(_fam(spec, "static-rf"), "K d != F on the residual-flexibility rows", r, "<= %g" % ORACLE_TOL)
            if spec["rfd"]:
                if np.any(v[rf, j] != 0) or np.any(a[rf, j] != 0):
                    fail(_fam(spec, "rf-disp-only"), "v or a not zero on rf rows with rf_disp_only=True",
                         [v[rf, j].tolist(), a[rf, j].tolist()], "exact zeros")
            else:
                if _rel(v[rf, j] - 1j * W * d[rf, j], v[rf, j], W * d[rf, j]) > ORACLE_TOL or \
                        _rel(a[rf, j] + W * W * d[rf, j], a[rf, j], W * W * d[rf, j]) > ORACLE_TOL:
                    fail(_fam(spec, "v-a-rf"), "v != iW d or a != -W^2 d on rf rows", None, "v = iWd, a = -W^2 d")
        # rigid-body rows: k = 0 by construction (unless the threshold stream); for an uncoupled system they may carry
        # damping (m q'' + b q' = F: the rows are found from k alone), for a coupled system b = 0 on them as well.
        # At exactly 0 Hz the equation of a rigid-body row, 0 * d = F, has no solution: the documented convention
        # a = M^-1 F, v = d = 0 is what is required there (with or without damping) instead of the residual rule.
        if rb and not spec["boundary"] and not skip_rb:
            Mrb, Brb = M[np.ix_(rb, rb)], B[np.ix_(rb, rb)]
            if W != 0 and damped_rb:
                arb = -W * W * np.linalg.solve(-W * W * Mrb + 1j * W * Brb, F[rb, j])
            else:
                arb = np.linalg.solve(Mrb, F[rb, j])
            want = {
                "a": arb if "a" in inc else 0 * arb,
                "v": arb / (1j * W) if ("v" in inc and W != 0) else 0 * arb,
                "d": -arb / (W * W) if ("d" in inc and W != 0) else 0 * arb,
            }
            for nm, got in (("d", d[rb, j]), ("v", v[rb, j]), ("a", a[rb, j])):
                w = want[nm]
                excluded = nm not in inc or (W == 0 and nm != "a")
                if excluded:
                    if np.any(got != 0):
                        fail(_fam(spec, "rb-%s-not-zeroed" % nm),
                             "rigid-body %s row not exactly zero although excluded by incrb=%r (or W = 0)" % (nm, inc),
                             got.tolist(), "exact zeros")
                elif _rel(got - w, w) > ORACLE_TOL:
                    ignored = False
                    if damped_rb and W != 0:
                        # is the observed row the solution *without* the damping (a = M^-1 F)?  then it is F51 / F52
                        # whatever else is special about the layout
                        und = np.linalg.solve(Mrb, F[rb, j]) * {"a": 1.0, "v": 1 / (1j * W), "d": -1 / (W * W)}[nm]
                        ignored = _rel(got - und, und) <= ORACLE_TOL
                    fail(fam_damped if ignored else FAM_B if fam_b else fam_damped if (damped_rb and W != 0)
                         else _fam(spec, "rb-%s" % nm),
                         "rigid-body %s row is not the solution of (-W^2 m + iW b) d = F%s" % (
                             nm, " (damped rigid-body mode of an uncoupled system)" if damped_rb else ""),
                         got.tolist(), w.tolist())
    # the two solvers agree
    if other is not None and not spec["boundary"] and not skip_rb:
        o_ts, o_sol = _run_impl(other)
        if isinstance(o_sol, tuple):
            fail(_family_exc(other, o_ts is None), "fsolve raises %s on a valid system: %s" % (o_sol[1], o_sol[2]),
                 {"exception": o_sol[1]}, "d, v, a")
        elif all(np.isfinite(c).all() for c in (o_sol.d, o_sol.v, o_sol.a)):
            cond_ok = True
            nonrf = rb + el
            for f in freq:
                W = 2 * np.pi * f
                if nonrf and np.linalg.cond(-W * W * M[np.ix_(nonrf, nonrf)] + 1j * W * B[np.ix_(nonrf, nonrf)] + K[np.ix_(nonrf, nonrf)]) > 1e8:
                    cond_ok = False
            if cond_ok:
                nrb = [i for i in range(n) if i not in rb]
                for nm, x, y in (("d", d, o_sol.d), ("v", v, o_sol.v), ("a", a, o_sol.a)):
                    if _rel(x - y, x, y) > 10 * ORACLE_TOL:
                        # a disagreement confined to the damped rigid-body rows of an uncoupled system is F51 / F52
                        only_rb = damped_rb and _rel(x[nrb] - y[nrb], x, y) <= 10 * ORACLE_TOL
                        fail(fam_damped if only_rb else FAM_B if (fam_b or _in_family_b(other))
                             else _fam(spec, "differs-from-other-solver-%s" % nm),
                             "SolveUnc.fsolve and FreqDirect.fsolve disagree on %s%s" % (
                                 nm, " (rows of the damped rigid-body modes only)" if only_rb else ""),
                             _enc(x), _enc(y))
    return out


def _oracle_psd(spec):
    out = []
    ts, res = _run_psd(spec)
    if isinstance(res[0], str):
        fam = _family_exc(spec, ts is None)
        out.append({"family": fam if fam in (FAM_A, FAM_B) else "solvepsd-" + fam, "what": "solvepsd raises %s: %s" % (res[1], res[2]),
                    "input": spec, "observed": res[1], "required": "rms, psd"})
        return out
    rms, psd = res
    drm = [_dec(x) for x in spec["drm"]]
    t_frc, fpsd = _dec(spec["t_frc"]), _dec(spec["forcepsd"])
    freq = np.array(spec["freq"])
    want = 0.0
    rbduf, elduf = spec.get("rbduf", 1.0), spec.get("elduf", 1.0)
    has_uf = rbduf != 1.0 or elduf != 1.0
    otol = 1e-4 if spec.get("variant") == "f32" else ORACLE_TOL
    if has_uf and spec["pre_eig"]:
        # the factors are documented for modal-space solvers; with pre_eig the source scales *physical* rows whose
        # numbers happen to be the modal rigid-body / elastic numbers — recorded as an observation, not judged
        OBSERVATIONS["solvepsd-uf-with-pre_eig-solver-not-judged"] = OBSERVATIONS.get(
            "solvepsd-uf-with-pre_eig-solver-not-judged", 0) + 1
        return out
    cls = spec["cls"] or []
    uf = np.array([rbduf if c == "rb" else elduf if c == "el" else 1.0 for c in cls]) if has_uf else None
    for i in range(t_frc.shape[1]):
        s = dict(spec)
        s["F"] = _enc(t_frc[:, i:i + 1] @ np.ones((1, freq.size)))
        _, sol = _run_impl(s)
        if isinstance(sol, tuple):
            return out
        frf = 0.0
        for mat, x in zip(drm[:3], (sol.a, sol.v, sol.d)):
            if mat is not None:
                # the rigid-body (elastic) part of the response enters with the factor rbduf (elduf)
                frf = frf + mat @ (x if uf is None else x * uf[:, None])
        if drm[3] is not None:
            frf = frf + drm[3][:, i:i + 1] @ np.ones((1, freq.size))
        want = want + fpsd[i] * abs(frf) ** 2
    if not np.isfinite(want).all():
        return out
    if _rel(psd - want, want) > otol:
        out.append({"family": "psd-resum-" + spec["solver"] + ("-uf" if has_uf else ""),
                    "what": "solvepsd PSD != sum_i PSD_i |H_i|^2"
                            + (" (H_i with the rigid-body part times rbduf=%g, the elastic part times elduf=%g)" % (rbduf, elduf)
                               if has_uf else ""),
                    "input": spec, "observed": np.asarray(psd).tolist(), "required": want.tolist()})
    area = np.trapezoid(np.asarray(psd), freq, axis=1)  # of the PSD that was returned
    if np.any(area < 0) or _rel(np.asarray(rms) - np.sqrt(np.maximum(area, 0)), np.sqrt(np.maximum(area, 0))) > ORACLE_TOL:
        out.append({"family": "psd-rms-" + spec["solver"], "what": "solvepsd RMS != sqrt(trapezoid area of the PSD)",
                    "input": spec, "observed": np.asarray(rms).tolist(), "required": np.sqrt(np.maximum(area, 0)).tolist()})
    return out


def _oracle_sequence(spec, rs):
    """one solver object used for several things in a row: fsolve -> (tsolve / generator / get_f2x) -> fsolve must
    give what a fresh object gives (no state may leak from one call into the next)"""
    out = []
    if spec["solver"] != "su":
        return out
    s = dict(spec, h=0.01)
    _, ref = _run_impl(s)
    if isinstance(ref, tuple):
        return out
    try:
        ts = _mk_solver(s)
    except Exception:  # noqa: BLE001
        return out
    n = _dec(s["k"]).shape[0]
    F, freq = _fsolve_args(s)
    steps = []
    try:
        with warnings.catch_warnings():
            warnings.simplefilter("ignore")
            first = ts.fsolve(F, freq, incrb=s["incrb"], rf_disp_only=s["rfd"])
            steps.append("fsolve")
            Ft = rs.standard_normal((n, int(rs.integers(2, 6))))
            kind = int(rs.integers(0, 3))
            if kind == 0:
                ts.tsolve(Ft)
                steps.append("tsolve")
            elif kind == 1:
                gen, d, v = ts.generator(Ft.shape[1], Ft[:, 0])
                for i in range(1, Ft.shape[1]):
                    gen.send((i, Ft[:, i]))
                ts.finalize()
                steps.append("generator")
            else:
                ts.get_f2x(rs.standard_normal((2, n)))
                ts.tsolve(Ft)
                steps.append("get_f2x+tsolve")
            again = ts.fsolve(F, freq, incrb=s["incrb"], rf_disp_only=s["rfd"])
            steps.append("fsolve")
    except Exception:  # noqa: BLE001 - e.g. time-domain use not available for this system: not part of this oracle
        return out
    for tag, sol in (("first", first), ("after-" + steps[1], again)):
        for nm in ("d", "v", "a"):
            x, y = np.asarray(getattr(sol, nm)), np.asarray(getattr(ref, nm))
            if x.shape != y.shape or _rel(x - y, y) > 1e-10:
                out.append({"family": "call-sequence-%s-fsolve-%s" % (steps[1], "coupled" if not spec["unc"] else "uncoupled"),
                            "what": "fsolve on an object that was used for %s in between differs from fsolve on a fresh object (%s, %s)"
                                    % (steps[1], tag, nm), "input": dict(s, sequence=steps),
                            "observed": float(_rel(x - y, y)) if x.shape == y.shape else list(x.shape), "required": "<= 1e-10"})
                return out
    return out


def _other(spec):
    """the same problem for the other solver (None when the comparison is outside the domain)"""
    if spec["pre_eig"] or "drm" in spec:
        return None
    cls = spec["cls"] or []
    if "rb" in cls and 0.0 in spec["freq"]:
        return None
    o = dict(spec)
    o["solver"] = "fd" if spec["solver"] == "su" else "su"
    return o


def search(ctx, hints):
    rs = ctx.np_rng(5)
    specs = []
    for h in hints[:60]:
        if isinstance(h.get("input"), dict) and "solver" in h["input"]:
            specs.append(h["input"])
    nsys = ctx.pick(20, 120)
    kinds = list(itertools.product([False, True], ["none", "vector", "matrix"]))
    systems = []
    for cplx, mkind in kinds:
        for _ in range(nsys // 2):
            systems.append(gen_unc(rs, cplx, mkind))
            systems.append(gen_coup(rs, cplx, mkind))
        for _ in range(max(1, nsys // 4)):
            systems.append(gen_pre(rs, cplx, mkind))
    extra = []
    for j, sysd in enumerate(systems):
        v = {1: "f32", 2: "int"}.get(j % 6)  # dtype axis
        if v:
            t = _variant_system(sysd, v)
            if t is not None:
                extra.append(t)
    systems = _corpus() + _systems_fixed() + systems + extra
    for si, sysd in enumerate(systems):
        n = np.shape(sysd["k"])[0]
        for solver in ("su", "fd"):
            if solver == "fd" and sysd["pre_eig"]:
                continue
            has_rb = sysd["pre_eig"] and sysd.get("free") or (sysd["cls"] and "rb" in sysd["cls"])
            freq = gen_freq(rs, sysd, allow_zero=(solver == "su" or not has_rb))
            F = rs.standard_normal((n, freq.size)) + 1j * rs.standard_normal((n, freq.size))
            fvar = None
            if si % 5 == 3:
                fvar = "c64F"
                F = F.astype(np.complex64).astype(complex)
            scalar_freq = bool(freq.size == 1 and rs.random() < 0.5)
            for incrb, rfd in _option_grid(rs, full=True):
                if sysd["pre_eig"] and set(incrb) != set("dva"):
                    continue
                sp = spec_of(sysd, solver, incrb, rfd, freq, F)
                sp["fvariant"], sp["scalar_freq"] = fvar, scalar_freq
                specs.append(sp)
    seen = {}

    def add(fails):
        """keep two inputs per family; stop the search once a dozen distinct families failed"""
        for g in fails:
            seen[g["family"]] = seen.get(g["family"], 0) + 1
            if seen[g["family"]] <= 2:
                ctx.failures.append(g)
        return len(seen) > 12

    for spec in specs:
        ctx.count("oracle-cases")
        if "drm" in spec:
            fails = _oracle_psd(spec)
        else:
            fails = _oracle_fsolve(spec, _other(spec))
        if add(fails):
            return
        if "drm" not in spec and spec["solver"] == "su" and ctx.rng.random() < 0.12:
            ctx.count("oracle-call-sequences")
            if add(_oracle_sequence(spec, rs)):
                return
    cands = [s for s in systems if not s["boundary"]]
    for _ in range(ctx.pick(60, 400)):
        sysd = cands[int(rs.integers(0, len(cands)))]
        solver = "su" if (sysd["pre_eig"] or rs.random() < 0.6) else "fd"
        ctx.count("oracle-psd-cases")
        if add(_oracle_psd(_psd_case(rs, sysd, solver))):
            return
    ctx.extra["oracle_failures_by_family"] = dict(seen)
    ctx.extra["observations"] = dict(OBSERVATIONS)


def _systems_fixed():
    """hand-picked variants of the recorded input of F8 (2-D diagonal mass, no mass)"""
    base = {"rb": None, "rf": None, "pre_eig": False, "cls": ["rb", "el", "el"], "unc": True, "cplx": True,
            "boundary": False}
    m, b, k = np.array([2.0, 3.0, 4.0]), np.array([0.0, 0.3, 0.4]), np.array([0.0, 50.0, 90.0]) * (1 + 0.02j)
    return [dict(base, m=np.diag(m), b=b, k=k, mkind="matrix"), dict(base, m=None, b=b, k=k, mkind="none")]


def replay(ctx, data):
    f = data.get("failure")
    if not f:
        return None
    spec = f["input"]
    fails = _oracle_psd(spec) if "drm" in spec else _oracle_fsolve(spec, _other(spec))
    for g in fails:
        if g["family"] == f["family"]:
            return g
    return fails[0] if fails else None
