"""C17 — approximate solvers follow their documented recurrences and converge (DESIGN.md 6/C17).

Tie: numeric correspondence (|impl - model| <= 1e-9 * scale) between the Lean models
  * Model/Newmark.lean  (`scalarSys` for one diagonal DOF, `matSys` with Gaussian elimination for full
    matrices; start-up, three-point recurrence, nonlinear terms, extrapolated last step, central
    differences, rf rows static), run at Float through Drivers/C17.lean, and
    pyyeti.ode.SolveNewmark(m, b, k, h, rf).tsolve(F, d0, v0) incl. def_nonlin callbacks mirrored in the
    protocol;
  * Model/Cdf.lean (`cdfRun`, the alpha recurrence) and SolveCDF / SolveUnc(cd_as_force=True).tsolve; the
    model is fed the solver's diagonal coefficients (get_su_coef is C01's subject) and an `alpha` computed
    here independently from the damping matrix.
The oracle (search) never touches the Lean model: recurrence residuals evaluated in numpy on the returned
histories, SolveCDF == SolveUnc for diagonal damping, implicit CDF equations, step-halving orders against
scipy's adaptive integrator, boundedness for large steps on damped systems, massless DOF.
"""
import json
import math
import os
import struct
import warnings

import numpy as np

from runner import Infra

ID = "C17"
LEAN_MODULES = ["PyYetiVerif.Props.C17", "PyYetiVerif.Props.C17Conv", "PyYetiVerif.Props.C17Stab",
                "PyYetiVerif.Props.C17Cdf", "PyYetiVerif.Audit.C17"]
AUDIT_FILE = "PyYetiVerif/Audit/C17.lean"
THEOREMS = [
    "PyYetiVerif.C17." + n
    for n in (
        "newmark_is_documented newmark_central_differences newmark_consistent newmark_startup_defect "
        "newmark_startup_exact_iff newmark_stable_scalar massless_ok cdf_is_documented cdf_diag_eq_unc "
        # Props/C17Conv.lean: global convergence of the scalar scheme
        "newmark_run_is_sequence newmark_error_recursion newmark_truncation_bound newmark_startup_error_bound "
        "newmark_converges_scalar newmark_converges_scalar_second_order "
        # Props/C17Stab.lean: energy-method stability (scalar and full matrices), modal reduction, massless rows
        "newmark_energy_identity newmark_power_bounded_scalar newmark_energy_stable newmark_free_response_bounded "
        "newmark_stable_full newmark_stable_modal massless_rows_quasistatic rf_rows_static "
        # Props/C17Cdf.lean: alpha and the meaning of one cd-as-force step
        "cdf_alpha_identity cdf_alpha_transpose_solve cdf_alpha_transposed_variant_differs "
        "cdf_step_is_exact_for_interpolated_damping_force cdf_run_is_unc_with_damping_force"
    ).split()
]
TRUSTED = [
    "correspondence harness harness/props/c17.py (numeric comparison, 1e-9 * scale; scale = max |d| for "
    "displacements, max |d| / h and max |d| / h^2 for the central differences)",
    "scipy.linalg.lu_factor/lu_solve and la.solve are modelled by the specification 'left inverse of A' "
    "(Gaussian elimination in the driver); the residual is measured by the correspondence on every run",
    "get_su_coef coefficients (property C01) are inputs of the cd-as-force model, taken from the solver instance",
    "floating-point round-off of the recurrences is outside the theorems (field arithmetic)",
    "step-halving reference: scipy.integrate.solve_ivp (DOP853, rtol 1e-11)",
]
RULE = (
    "a case is one (solver, m/b/k form [diag vector | diag matrix | full | m=None | singular mass], h, nt, force "
    "style, initial conditions, rf partition, nonlinear-term list, order) whose complete d/v/a history is compared "
    "with the Lean model's; non-trivial = nt >= 3 (the loop runs) and the response is not identically zero; "
    "distinct by the full numeric input; branch histogram lists form, rf, nonlinear kinds, massless, nt"
)
ASSUMPTIONS = [
    "systems generated with cond(A) <= 1e6 (others skipped and counted); w*h in [0.02, 6]",
    "nonlinear callbacks read only d[:, j] and d[:, j-1] (the documented use) and the step index j",
    "nt >= 2 for SolveNewmark (nt = 1 raises IndexError in the code; modelled as an error, compared exactly)",
]
PARTIAL = (
    "partial: global convergence (error -> 0 as h -> 0) and stability for full (coupled) matrices are measured by "
    "the step-halving / boundedness oracle, not proved; proved are the local statements (recurrence = documented "
    "equations for any module, exactness on quadratics, explicit start-up defect, scalar Schur-Cohn stability)"
)
MANIFEST = {
    "level_text": "Proof (Lean 4, kernel-checked, standard axioms only) about one polymorphic transcription of "
    "SolveNewmark (start-up, 1/3-averaged three-point recurrence with pre-multiplied nonlinear term, extrapolated "
    "last step, central differences) and of the cd-as-force alpha recurrence: over any module the model's history "
    "satisfies the documented equations term by term given that `solve` inverts A (`newmark_is_documented`, "
    "`newmark_central_differences`, `cdf_is_documented`); the scalar scheme is exact on quadratics "
    "(`newmark_consistent`), the documented start-up has the explicit defect A(d1 - u(h)) = u''(0)/2 (bh/6 - m/3), "
    "zero iff F(0) = K u0 + B v0 for m != 0, m != bh/2 (`newmark_startup_defect`, `newmark_startup_exact_iff`: the "
    "order drop, stated), both roots of A z^2 - A1 z - A0 lie strictly inside the unit disc for m >= 0, b, k, h > 0 "
    "(`newmark_stable_scalar`), massless DOF keep A != 0 (`massless_ok`), and with zero off-diagonal damping the "
    "cd-as-force step is SolveUnc's (`cdf_diag_eq_unc`). The same definitions run at Float and are compared with "
    "SolveNewmark / SolveCDF / SolveUnc(cd_as_force) histories (diag, full, singular mass, rf, nonlinear callbacks). "
    "Partial: global convergence and full-matrix stability are measured (step-halving orders, boundedness), not proved.",
    "level_note": "Trusted: Lean kernel; propext, Classical.choice, Quot.sound; the Python harness; LU solves modelled "
    "by their specification; get_su_coef coefficients taken from the solver (C01); round-off outside the theorems.",
    "technique": "Lean 4 proof (ring identities, Schur-Cohn via nlinarith, induction over the loop) on a polymorphic "
    "model + numeric differential correspondence with SolveNewmark/SolveCDF + numpy recurrence-residual oracle",
}

TOL = 1e-9
KINDS = {0: "cubic", 1: "gap", 2: "nasvel", 3: "index"}

warnings.filterwarnings("ignore")


# ---------------------------------------------------------------------------------------
# transport


def _bits(x):
    return str(struct.unpack("<Q", struct.pack("<d", float(x)))[0])


def _bl(arr):
    return " ".join(_bits(v) for v in np.asarray(arr, float).ravel())


def _unbits(tokens):
    return np.array([struct.unpack("<d", struct.pack("<Q", int(t)))[0] for t in tokens])


# ---------------------------------------------------------------------------------------
# case generation (JSON-able specs)


def _force(rng, n, nt, h, amp, style):
    t = np.arange(nt) * h
    F = np.zeros((n, nt))
    for i in range(n):
        if style == "zero":
            pass
        elif style == "noise":
            F[i] = rng.standard_normal(nt)
        elif style == "sine":
            F[i] = np.sin(2 * np.pi * rng.uniform(0.02, 0.3) / h * t + rng.uniform(0, 6))
        elif style == "step":
            F[i, rng.integers(0, nt):] = 1.0
            F[i] += 0.5
        else:  # ramp
            F[i] = rng.uniform(-1, 1) + rng.uniform(-1, 1) * t / (h * nt)
        F[i] *= amp[i]
    return F


def _modal(rng, n, whlo, whhi, h):
    wh = 10 ** rng.uniform(math.log10(whlo), math.log10(whhi), n)
    w = wh / h
    m = 10 ** rng.uniform(-1, 1, n)
    zeta = rng.choice([0.0, 0.02, 0.3, 1.0, 2.5], n)
    return m, 2 * zeta * m * w, m * w * w


def gen_newmark(rng, forced=None):
    """One SolveNewmark case; `forced` pins some features so that declared branches are reached."""
    forced = forced or {}
    n = int(forced.get("n", rng.integers(1, 6)))
    h = float(10 ** rng.uniform(-3, 0))
    nt = int(forced.get("nt", rng.choice([2, 3, 4, int(rng.integers(5, 40)), int(rng.integers(40, 120))])))
    form = forced.get("form", rng.choice(["diag", "diag", "diagmat", "full", "full"]))
    terms_on = forced.get("terms", rng.random() < 0.35)
    m, b, k = _modal(rng, n, 0.02, 1.0 if terms_on else 6.0, h)
    tags = []
    mnone = forced.get("mnone", rng.random() < 0.1)
    if mnone:
        b, k = b / m, k / m
        m = np.ones(n)
        tags.append("m-none")
    if not mnone and forced.get("massless", rng.random() < 0.3):
        i = int(rng.integers(0, n))
        m[i] = 0.0
        if b[i] == 0.0:
            b[i] = 0.3 * k[i] * h
        tags.append("massless")
    if forced.get("rigid", rng.random() < 0.15):
        i = int(rng.integers(0, n))
        if m[i] > 0:
            k[i] = 0.0
            b[i] = 0.0
            tags.append("rigid-body")
    amp = np.where(k > 0, k, m / h / h + b / h)
    F = _force(rng, n, nt, h, amp, forced.get("style", rng.choice(["zero", "noise", "sine", "step", "ramp"])))
    d0 = None if rng.random() < 0.3 else rng.standard_normal(n)
    v0 = None if rng.random() < 0.3 else rng.standard_normal(n) * np.sqrt(np.where(m > 0, k / np.where(m > 0, m, 1), 1.0))
    spec = {"solver": "newmark", "h": h, "form": str(form), "tags": tags, "mnone": bool(mnone)}
    rf = None
    if not terms_on and n >= 2 and forced.get("rf", rng.random() < 0.3):
        cnt = int(rng.integers(1, n + (1 if rng.random() < 0.15 else 0)))
        rf = sorted(int(v) for v in rng.choice(n, size=min(cnt, n), replace=False))
        rf = [i for i in rf if k[i] != 0.0] or None
    if form == "full":
        Q = np.eye(n) + 0.35 * rng.standard_normal((n, n)) / max(1, n) ** 0.5
        M, B, K = Q.T @ np.diag(m) @ Q, Q.T @ np.diag(b) @ Q, Q.T @ np.diag(k) @ Q
        if rng.random() < 0.3:
            B = B + 0.05 * np.abs(B).max() * rng.standard_normal((n, n))
        spec.update(m=None if mnone else M.tolist(), b=B.tolist(), k=K.tolist())
        if mnone:
            spec["tags"] = [t for t in tags if t != "m-none"] + ["m-none"]
    elif form == "diagmat":
        spec.update(m=None if mnone else np.diag(m).tolist(), b=np.diag(b).tolist(), k=np.diag(k).tolist())
    else:
        spec.update(m=None if mnone else m.tolist(), b=b.tolist(), k=k.tolist())
    terms = []
    if terms_on:
        for _ in range(int(rng.integers(1, 3))):
            kind = int(forced.get("kind", rng.integers(0, 4)))
            p = int(rng.integers(0, n))
            q = int(rng.integers(0, n))
            kk = float(k[p] if k[p] > 0 else m[p] / h / h)
            c = {0: 0.3 * kk, 1: kk, 2: 0.1 * float(m[p]) if m[p] > 0 else 0.01 * kk * h * h, 3: 0.02 * kk / nt}[kind]
            g = {0: 0.0, 1: 0.2, 2: 0.0, 3: 0.1 * kk}[kind]
            T = rng.standard_normal(n) * (rng.random(n) < 0.7)
            if not T.any():
                T[p] = 1.0
            terms.append({"kind": kind, "p": p, "q": q, "c": c, "g": g, "T": T.tolist()})
    spec.update(F=F.tolist(), d0=None if d0 is None else d0.tolist(), v0=None if v0 is None else v0.tolist(),
                rf=rf, terms=terms, nt=nt, n=n, layout=str(rng.choice(["C", "F"])))
    return spec


def gen_cdf(rng, forced=None):
    forced = forced or {}
    n = int(rng.integers(2, 6))
    h = float(10 ** rng.uniform(-3, 0))
    nt = int(forced.get("nt", rng.choice([1, 2, 3, int(rng.integers(4, 40)), int(rng.integers(40, 100))])))
    m, b, k = _modal(rng, n, 0.02, 1.5, h)
    tags = []
    mnone = rng.random() < 0.2
    if mnone:
        b, k = b / m, k / m
        m = np.ones(n)
        tags.append("m-none")
    if forced.get("rigid", rng.random() < 0.3):
        i = int(rng.integers(0, n))
        k[i] = 0.0
        if rng.random() < 0.5:
            b[i] = 0.0
        tags.append("rigid-body")
    diag_only = forced.get("diag_only", False)
    bscale = np.sqrt(np.outer(np.maximum(b, 1e-3 * b.max() + 1e-9), np.maximum(b, 1e-3 * b.max() + 1e-9)))
    R = rng.standard_normal((n, n)) * (rng.random((n, n)) < 0.7)
    off = 0.3 * bscale * (R + R.T) / 2
    nonsym = bool(rng.random() < 0.4)
    if nonsym:
        # off-diagonal damping need not be symmetric (gyroscopic terms, general modal damping)
        off = 0.3 * bscale * R
        tags.append("nonsymmetric-damping")
    off[np.arange(n), np.arange(n)] = 0.0
    if not off.any():
        off[0, 1] = off[1, 0] = 0.1 * bscale[0, 1]
    B = np.diag(b) + (0 if diag_only else off)
    amp = np.where(k > 0, k, m / h / h)
    F = _force(rng, n, nt, h, amp, rng.choice(["zero", "noise", "sine", "step", "ramp"]))
    d0 = None if rng.random() < 0.3 else rng.standard_normal(n)
    v0 = None if rng.random() < 0.3 else rng.standard_normal(n) * np.sqrt(k / m)
    rf = None
    if forced.get("rf", rng.random() < 0.25):
        rf = [i for i in sorted(int(v) for v in rng.choice(n, size=1, replace=False)) if k[i] != 0.0] or None
    return {"solver": "cdf", "h": h, "n": n, "nt": nt, "m": None if mnone else m.tolist(), "b": B.tolist(),
            "k": k.tolist(), "F": F.tolist(), "d0": None if d0 is None else d0.tolist(),
            "v0": None if v0 is None else v0.tolist(), "rf": rf, "order": int(rng.integers(0, 2)),
            "tags": tags, "cls": str(rng.choice(["SolveCDF", "SolveUnc"])), "layout": str(rng.choice(["C", "F"]))}


# ---------------------------------------------------------------------------------------
# running the implementation


def _arr(x, layout="C"):
    if x is None:
        return None
    a = np.array(x, float)
    # Fortran-ordered matrices (what op4 / MATLAB readers and LAPACK-based routines hand over) are legitimate input;
    # a routine that lets LAPACK work in place (overwrite_a) behaves differently on them
    return np.asfortranarray(a) if layout == "F" and a.ndim == 2 else a


def _zfun(t):
    kind, p, q, c, g = t["kind"], t["p"], t["q"], t["c"], t["g"]

    def f(d, j, h):
        x = d[:, j]
        xp = d[:, j - 1]  # column -1 holds u_{-1} at j = 0 (documented)
        if kind == 0:
            z = c * (x[p] * x[p] * x[p])
        elif kind == 1:
            e = x[p] - x[q] - g
            z = c * (e if e > 0 else 0.0)
        elif kind == 2:
            w = (x[p] - xp[p]) / h
            z = c * (w * abs(w))
        else:
            z = c * x[p] * float(j) + g
        return np.array([z])

    return f


def run_newmark(spec):
    """-> dict(d, v, a[, z]) or {'error': kind}"""
    from pyyeti import ode

    try:
        lay = spec.get("layout", "C")
        ts = ode.SolveNewmark(_arr(spec["m"], lay), _arr(spec["b"], lay), _arr(spec["k"], lay), spec["h"], rf=spec.get("rf"))
        if spec.get("terms"):
            ts.def_nonlin({"t%d" % i: (_zfun(t), np.array(t["T"], float).reshape(-1, 1))
                           for i, t in enumerate(spec["terms"])})
        sol = ts.tsolve(np.array(spec["F"], float), _arr(spec["d0"]), _arr(spec["v0"]))
    except IndexError:
        return {"error": "index-error"}
    except ValueError:
        return {"error": "value-error"}
    out = {"d": np.array(sol.d), "v": np.array(sol.v), "a": np.array(sol.a), "unc": bool(ts.unc)}
    if spec.get("terms"):
        out["z"] = {key: np.array(val) for key, val in sol.z.items()}
    return out


def run_cdf(spec, cls=None, b_override=None):
    from pyyeti import ode

    b = _arr(spec["b"], spec.get("layout", "C")) if b_override is None else b_override
    cls = cls or spec.get("cls", "SolveCDF")
    if cls == "SolveCDF":
        ts = ode.SolveCDF(_arr(spec["m"]), b, _arr(spec["k"]), spec["h"], rf=spec.get("rf"), order=spec["order"])
    elif cls == "SolveUnc-cdf":
        ts = ode.SolveUnc(_arr(spec["m"]), b, _arr(spec["k"]), spec["h"], rf=spec.get("rf"), order=spec["order"],
                          cd_as_force=True)
    else:
        ts = ode.SolveUnc(_arr(spec["m"]), b, _arr(spec["k"]), spec["h"], rf=spec.get("rf"), order=spec["order"])
    sol = ts.tsolve(np.array(spec["F"], float), _arr(spec["d0"]), _arr(spec["v0"]))
    return ts, {"d": np.array(sol.d), "v": np.array(sol.v), "a": np.array(sol.a)}


def _mats(spec):
    """full n x n M, B, K of a newmark spec (M = I for m None)"""
    k = np.array(spec["k"], float)
    n = k.shape[0]
    full = lambda x: np.eye(n) if x is None else (np.diag(np.array(x, float)) if np.ndim(x) == 1 else np.array(x, float))
    return full(spec["m"]), full(spec["b"]), full(spec["k"])


def _parts(spec):
    n = spec["n"]
    rf = list(spec.get("rf") or [])
    nonrf = [i for i in range(n) if i not in rf]
    return nonrf, rf


def _is_diag(spec):
    M, B, K = _mats(spec)
    return all(np.count_nonzero(X - np.diag(np.diag(X))) == 0 for X in (M, B, K))


# ---------------------------------------------------------------------------------------
# correspondence


def _cmp(ctx, stream, spec, name, impl, model, scale):
    impl = np.asarray(impl, float)
    model = np.asarray(model, float)
    if impl.shape != model.shape:
        ctx.disagree(stream, spec, {"shape": list(impl.shape)}, {"shape": list(model.shape)})
        return False
    bad = ~(np.abs(impl - model) <= TOL * scale)
    if bad.any():
        idx = np.argwhere(bad)[0].tolist()
        ctx.disagree(stream, spec, {name: float(impl[tuple(idx)]), "at": idx, "scale": float(scale)},
                     {name: float(model[tuple(idx)])})
        return False
    return True


def _newmark_requests(spec):
    """protocol lines for one newmark spec: ('mx' line, ['sc' lines per non-rf DOF] or [], 'rf' handled in python)"""
    M, B, K = _mats(spec)
    nonrf, rf = _parts(spec)
    n, nt, h = spec["n"], spec["nt"], spec["h"]
    F = np.array(spec["F"], float).reshape(n, -1)
    d0 = np.zeros(n) if spec["d0"] is None else np.array(spec["d0"], float)
    v0 = np.zeros(n) if spec["v0"] is None else np.array(spec["v0"], float)
    ix = np.ix_(nonrf, nonrf)
    nn = len(nonrf)
    lines = []
    if nn:
        terms = spec.get("terms") or []
        parts = ["mx", str(nn), str(F.shape[1]), _bits(h), _bl(M[ix]), _bl(B[ix]), _bl(K[ix]), _bl(F[nonrf].T),
                 _bl(d0[nonrf]), _bl(v0[nonrf]), str(len(terms))]
        for t in terms:
            parts += [str(t["kind"]), str(t["p"]), str(t["q"]), _bits(t["c"]), _bits(t["g"]), _bl(t["T"])]
        lines.append(" ".join(parts))
        if _is_diag(spec) and not terms:
            for i in nonrf:
                lines.append(" ".join(["sc", str(F.shape[1]), _bits(M[i, i]), _bits(B[i, i]), _bits(K[i, i]), _bits(h),
                                       _bits(d0[i]), _bits(v0[i]), _bl(F[i])]))
    return lines


def _parse_hist(rep, n, nt):
    if not rep.startswith("ok"):
        return rep
    x = _unbits(rep.split()[1:])
    if x.size != 3 * n * nt:
        return "bad-size"
    x = x.reshape(3, nt, n)
    return x[0].T, x[1].T, x[2].T


def _cond_ok(spec):
    M, B, K = _mats(spec)
    nonrf, _ = _parts(spec)
    if not nonrf:
        return True
    h = spec["h"]
    ix = np.ix_(nonrf, nonrf)
    A = M[ix] / h / h + B[ix] / (2 * h) + K[ix] / 3
    try:
        return np.linalg.cond(A) <= 1e6
    except np.linalg.LinAlgError:
        return False


def _newmark_cases(ctx):
    rng = ctx.np_rng(17)
    cases = []
    path = os.path.join(ctx.verif, "corpus", "c17.json")
    if os.path.exists(path):
        cases += json.load(open(path))
    pins = [
        {"form": "diag", "terms": False, "rf": False}, {"form": "full", "terms": False},
        {"form": "diagmat", "terms": False}, {"form": "full", "terms": False, "massless": True, "mnone": False},
        {"form": "diag", "massless": True, "mnone": False, "terms": False}, {"form": "diag", "rf": True, "n": 3, "terms": False},
        {"form": "full", "rf": True, "n": 4, "terms": False}, {"nt": 2}, {"nt": 3}, {"mnone": True, "form": "full"},
        {"mnone": True, "form": "diag"}, {"rigid": True, "form": "diag", "mnone": False, "massless": False},
    ] + [{"terms": True, "kind": kk, "form": f} for kk in range(4) for f in ("diag", "full")]
    for p in pins:
        cases.append(gen_newmark(rng, p))
    for _ in range(ctx.pick(2000, 12000)):
        cases.append(gen_newmark(rng))
    # error stream: a single time step
    for f in ("diag", "full"):
        cases.append(gen_newmark(rng, {"nt": 1, "form": f, "terms": False, "rf": False}))
    return cases


def _corr_newmark(ctx):
    cases = [c for c in _newmark_cases(ctx)]
    drv = ctx.driver("C17")
    req, owner = [], []
    kept = []
    for spec in cases:
        if not _cond_ok(spec):
            ctx.skip("newmark: cond(A) > 1e6")
            continue
        lines = _newmark_requests(spec)
        kept.append((spec, len(req), len(lines)))
        req += lines
    rep = drv.ask(req)
    for spec, at, cnt in kept:
        impl = run_newmark(spec)
        n, nt = spec["n"], spec["nt"]
        nonrf, rf = _parts(spec)
        branch = "newmark:" + ("unc" if _is_diag(spec) else "full")
        key = json.dumps(spec, sort_keys=True)
        if "error" in impl:
            model = rep[at] if cnt else "index-error"
            ctx.case(key, nontrivial=False, branch="newmark:error:" + impl["error"])
            if model != impl["error"]:
                ctx.disagree("newmark-error", spec, impl["error"], model[:40])
            continue
        nontriv = nt >= 3 and bool(np.any(impl["d"]))
        ctx.case(key, nontrivial=nontriv, branch=branch)
        for t in spec["tags"]:
            ctx.count("newmark:" + t)
        ctx.count("newmark:nt=%s" % (nt if nt <= 3 else ">3"))
        ctx.count("newmark:form=" + spec["form"])
        if rf:
            ctx.count("newmark:rf" + ("-all" if not nonrf else ""))
        for t in spec.get("terms") or []:
            ctx.count("newmark:nonlin-" + KINDS[t["kind"]])
        if not np.all(np.isfinite(impl["d"])):
            ctx.skip("newmark: non-finite history (explicit nonlinear term blew up)")
            continue
        h = spec["h"]
        sd = max(float(np.abs(impl["d"]).max()), 1e-300)
        u1 = (np.zeros(n) if spec["d0"] is None else np.array(spec["d0"])) - h * (
            np.zeros(n) if spec["v0"] is None else np.array(spec["v0"]))
        sd = max(sd, float(np.abs(u1).max()))
        if spec.get("terms") and sd > 1e8:
            ctx.skip("newmark: explicit nonlinear term diverges (max |d| > 1e8)")
            continue
        # the extrapolated displacement De enters the last v and a
        sd = max(sd, float(np.abs(impl["d"][:, -2] + 2 * h * impl["v"][:, -1]).max()))
        if cnt:
            got = _parse_hist(rep[at], len(nonrf), nt)
            if isinstance(got, str):
                ctx.disagree("newmark-mx", spec, "history", got[:40])
                continue
            ok = True
            for name, arr, sc in (("d", got[0], sd), ("v", got[1], sd / h), ("a", got[2], sd / h / h)):
                ok = _cmp(ctx, "newmark-" + ("diag" if _is_diag(spec) else "full") + "-" + name, spec, name,
                          impl[name][nonrf], arr, sc) and ok
            # scalar instance, DOF by DOF
            for r, i in zip(rep[at + 1: at + cnt], nonrf):
                g = _parse_hist(r, 1, nt)
                ctx.count("newmark:scalar-instance")
                if isinstance(g, str):
                    ctx.disagree("newmark-sc", spec, "history", g[:40])
                    continue
                sdi = max(float(np.abs(impl["d"][i]).max()), abs(float(u1[i])), 1e-300)
                for name, arr, sc in (("d", g[0], sdi), ("v", g[1], sdi / h), ("a", g[2], sdi / h / h)):
                    _cmp(ctx, "newmark-scalar-" + name, spec, name, impl[name][[i]], arr, sc)
        if rf:
            # rf rows static (Model `rfStatic` is one line: (1/krf) * f); here numerically
            M, B, K = _mats(spec)
            F = np.array(spec["F"], float)
            want = np.linalg.solve(K[np.ix_(rf, rf)], F[rf]) if not _is_diag(spec) else F[rf] / np.diag(K)[rf][:, None]
            _cmp(ctx, "newmark-rf-d", spec, "d", impl["d"][rf], want, max(float(np.abs(want).max()), 1e-300))
            _cmp(ctx, "newmark-rf-va", spec, "v", np.vstack([impl["v"][rf], impl["a"][rf]]), 0 * np.vstack([want, want]), 1.0)
        if len(ctx.samples) < 3 and nontriv:
            ctx.sample({"solver": "newmark", "form": spec["form"], "n": n, "nt": nt, "h": h, "rf": rf,
                        "terms": [KINDS[t["kind"]] for t in spec.get("terms") or []], "d_last": impl["d"][:, -1].tolist()})


def _cdf_request(spec, ts):
    n, nt, h = spec["n"], spec["nt"], spec["h"]
    nonrf, rf = _parts(spec)
    nn = len(nonrf)
    pc = ts.pc
    Bfull = np.array(spec["b"], float)
    bo = Bfull[np.ix_(nonrf, nonrf)].copy()
    bo[np.arange(nn), np.arange(nn)] = 0.0
    # independent alpha = bo (I + Bp bo)^-1
    alpha = bo @ np.linalg.inv(np.eye(nn) + np.diag(pc.Bp) @ bo)
    F = np.array(spec["F"], float)
    d0 = np.zeros(n) if spec["d0"] is None else np.array(spec["d0"], float)
    v0 = np.zeros(n) if spec["v0"] is None else np.array(spec["v0"], float)
    return " ".join(["cdf", str(nn), str(nt), str(spec["order"])] + [_bl(getattr(pc, c)) for c in
                    ("F", "G", "A", "B", "Fp", "Gp", "Ap", "Bp")] + [_bl(bo), _bl(alpha), _bl(F[nonrf].T),
                                                                   _bl(d0[nonrf]), _bl(v0[nonrf])])


def _corr_cdf(ctx):
    rng = ctx.np_rng(171)
    cases = [gen_cdf(rng, p) for p in ({"nt": 1}, {"nt": 2}, {"rigid": True}, {"rf": True})]
    cases += [gen_cdf(rng) for _ in range(ctx.pick(800, 5000))]
    drv = ctx.driver("C17")
    req, impls = [], []
    for spec in cases:
        cls = "SolveCDF" if spec["cls"] == "SolveCDF" else "SolveUnc-cdf"
        ts, impl = run_cdf(spec, cls)
        if not getattr(ts, "cdforces", False):
            ctx.disagree("cdf-path", spec, "cdforces is False for coupled damping", "cd-as-force path")
            continue
        req.append(_cdf_request(spec, ts))
        impls.append((spec, impl, cls))
    rep = drv.ask(req)
    for (spec, impl, cls), r in zip(impls, rep):
        n, nt = spec["n"], spec["nt"]
        nonrf, rf = _parts(spec)
        key = json.dumps(spec, sort_keys=True)
        nontriv = nt >= 2 and bool(np.any(impl["d"]))
        ctx.case(key, nontrivial=nontriv, branch="cdf:" + cls)
        ctx.count("cdf:order=%d" % spec["order"])
        ctx.count("cdf:nt=%s" % (nt if nt <= 2 else ">2"))
        for t in spec["tags"]:
            ctx.count("cdf:" + t)
        if rf:
            ctx.count("cdf:rf")
        if not r.startswith("ok"):
            ctx.disagree("cdf", spec, "history", r[:40])
            continue
        x = _unbits(r.split()[1:])
        nn = len(nonrf)
        if x.size != 2 * nn * nt:
            ctx.disagree("cdf", spec, "history", "bad-size")
            continue
        x = x.reshape(2, nt, nn)
        sd = max(float(np.abs(impl["d"]).max()), 1e-300)
        sv = max(float(np.abs(impl["v"]).max()), sd / spec["h"] * 1e-3, 1e-300)
        _cmp(ctx, "cdf-d", spec, "d", impl["d"][nonrf], x[0].T, sd)
        _cmp(ctx, "cdf-v", spec, "v", impl["v"][nonrf], x[1].T, sv)


def correspondence(ctx):
    _corr_newmark(ctx)
    _corr_cdf(ctx)
    ctx.require_branches([
        "newmark:unc", "newmark:full", "newmark:massless", "newmark:m-none", "newmark:rigid-body", "newmark:rf",
        "newmark:nt=2", "newmark:nt=3", "newmark:nt=>3", "newmark:form=diagmat", "newmark:scalar-instance",
        "newmark:nonlin-cubic", "newmark:nonlin-gap", "newmark:nonlin-nasvel", "newmark:nonlin-index",
        "newmark:error:index-error", "cdf:SolveCDF", "cdf:SolveUnc-cdf", "cdf:order=0", "cdf:order=1",
        "cdf:nt=1", "cdf:nt=2", "cdf:rigid-body", "cdf:rf",
    ])


# ---------------------------------------------------------------------------------------
# model-free oracle


def _fam_form(spec):
    return "diag" if _is_diag(spec) else "full"


def oracle_newmark(ctx, spec):
    """Documented equations evaluated in numpy on the history returned by the public API."""
    impl = run_newmark(spec)
    n, nt, h = spec["n"], spec["nt"], spec["h"]
    if "error" in impl:
        if nt >= 2:
            ctx.fail("newmark-raises-" + impl["error"], "tsolve raises on a valid input", spec, impl["error"], "a history")
        return
    nonrf, rf = _parts(spec)
    form = _fam_form(spec)
    d, v, a = impl["d"], impl["v"], impl["a"]
    if not (np.all(np.isfinite(d)) and np.all(np.isfinite(v)) and np.all(np.isfinite(a))):
        if not spec.get("terms"):
            fam = "newmark-nonfinite-" + ("massless-" if "massless" in spec["tags"] else "") + form
            ctx.fail(fam, "non-finite values in the history of a linear system", spec, "nan/inf", "finite history")
        return
    M, B, K = _mats(spec)
    Fall = np.array(spec["F"], float)
    if rf:
        Kr = K[np.ix_(rf, rf)]
        res = Kr @ d[rf] - Fall[rf]
        if np.abs(res).max() > 1e-9 * max(np.abs(Fall[rf]).max(), 1e-300) or np.any(v[rf]) or np.any(a[rf]):
            ctx.fail("newmark-rf-static-" + form, "rf rows are not the static solution k_rf d = F, v = a = 0", spec,
                     float(np.abs(res).max()), 0.0)
    if not nonrf:
        return
    ix = np.ix_(nonrf, nonrf)
    M, B, K = M[ix], B[ix], K[ix]
    F = Fall[nonrf].copy()
    D, V, Ac = d[nonrf], v[nonrf], a[nonrf]
    nn = len(nonrf)
    d0 = np.zeros(nn) if spec["d0"] is None else np.array(spec["d0"], float)[nonrf]
    v0 = np.zeros(nn) if spec["v0"] is None else np.array(spec["v0"], float)[nonrf]
    A = M / h**2 + B / (2 * h) + K / 3
    A1 = 2 * M / h**2 - K / 3
    A0 = -M / h**2 + B / (2 * h) - K / 3
    um = d0 - h * v0
    Fm = K @ um + B @ v0
    F[:, 0] = K @ d0 + B @ v0
    # nonlinear terms straight from their definitions
    terms = spec.get("terms") or []
    N = np.zeros((nn, nt))
    Dext = np.column_stack([D, um])  # column -1 = u_{-1}
    for i, t in enumerate(terms):
        f = _zfun(t)
        for j in range(nt):
            z = f(Dext if j == 0 else D, j, h)[0]
            zi = impl["z"]["t%d" % i][0, j]
            if abs(z - zi) > 1e-9 * max(abs(z), abs(zi), 1e-300):
                ctx.fail("newmark-nonlin-z-" + KINDS[t["kind"]], "sol.z is not func(d, j, h) on the returned history",
                         spec, [j, float(zi)], float(z))
                return
            N[:, j] += np.array(t["T"], float) * z
    scale = max(np.abs(A @ D).max(), np.abs(A @ um).max(), np.abs(A1 @ D).max(), np.abs(A0 @ D).max(), np.abs(F).max(), np.abs(N).max(), 1e-300)
    rtol = 2e-8

    def chk(fam, what, res, sc=scale):
        r = float(np.abs(res).max()) if np.size(res) else 0.0
        if not r <= rtol * sc:
            ctx.fail(fam + "-" + form + ("-nonlin" if terms else ""), what, spec, r, "<= %.1e * %.3e" % (rtol, sc))
            return False
        return True

    if np.abs(D[:, 0] - d0).max() > 0 or np.abs(V[:, 0] - v0).max() > 0:
        ctx.fail("newmark-initial-conditions-" + form, "d[:,0], v[:,0] are not d0, v0", spec,
                 [D[:, 0].tolist(), V[:, 0].tolist()], [d0.tolist(), v0.tolist()])
    # start-up step
    chk("newmark-startup-step", "A u_1 != (F_1 + F_0' + F_-1)/3 + N_0 + A1 u_0 + A0 u_-1 (documented start-up)",
        A @ D[:, 1] - ((F[:, 1] + F[:, 0] + Fm) / 3 + N[:, 0] + A1 @ d0 + A0 @ um))
    # three-point recurrence
    if nt > 2:
        res = A @ D[:, 2:] - ((F[:, 2:] + F[:, 1:-1] + F[:, :-2]) / 3 + N[:, 1:-1] + A1 @ D[:, 1:-1] + A0 @ D[:, :-2])
        chk("newmark-recurrence-step", "A u_{n+2} != (F_{n+2}+F_{n+1}+F_n)/3 + N_{n+1} + A1 u_{n+1} + A0 u_n", res)
    # central differences
    sd = max(np.abs(D).max(), np.abs(um).max(), 1e-300)
    if nt > 2:
        chk("newmark-central-velocity", "v_n != (u_{n+1} - u_{n-1}) / 2h", V[:, 1:-1] - (D[:, 2:] - D[:, :-2]) / (2 * h), sd / h)
        chk("newmark-central-acceleration", "a_n != (u_{n+1} - 2u_n + u_{n-1}) / h^2",
            Ac[:, 1:-1] - (D[:, 2:] - 2 * D[:, 1:-1] + D[:, :-2]) / h**2, sd / h**2)
    chk("newmark-initial-acceleration", "a_0 != (u_1 - 2u_0 + u_-1) / h^2", Ac[:, 0] - (D[:, 1] - 2 * d0 + um) / h**2, sd / h**2)
    # last step: De recovered from the last velocity, must satisfy the recurrence with the extrapolated force
    De = D[:, -2] + 2 * h * V[:, -1]
    chk("newmark-last-acceleration", "a_last inconsistent with v_last (same extrapolated displacement)",
        Ac[:, -1] - (De - 2 * D[:, -1] + D[:, -2]) / h**2, max(sd, np.abs(De).max()) / h**2)
    Fe = 2 * F[:, -1] - F[:, -2]
    chk("newmark-last-step-extrapolation", "extra step does not use the linearly extrapolated force",
        A @ De - ((Fe + F[:, -1] + F[:, -2]) / 3 + N[:, -1] + A1 @ D[:, -1] + A0 @ D[:, -2]),
        max(scale, np.abs(A @ De).max()))


def oracle_cdf(ctx, spec):
    """SolveCDF == SolveUnc for diagonal damping; documented implicit equations otherwise; EOM for `a`."""
    n, nt, h = spec["n"], spec["nt"], spec["h"]
    nonrf, rf = _parts(spec)
    Bfull = np.array(spec["b"], float)
    bd = np.diag(np.diag(Bfull))
    # (a) diagonal damping: identical to SolveUnc
    for form, bmat in (("matrix", bd), ("vector", np.diag(Bfull).copy())):
        _, s1 = run_cdf(spec, "SolveCDF", bmat)
        _, s2 = run_cdf(spec, "SolveUnc", bmat)
        for name in "dva":
            sc = max(np.abs(s2[name]).max(), 1e-300)
            if not np.abs(s1[name] - s2[name]).max() <= 1e-12 * sc:
                ctx.fail("cdf-vs-unc-diagonal-damping-" + form, "SolveCDF differs from SolveUnc with diagonal damping (%s)" % name,
                         spec, float(np.abs(s1[name] - s2[name]).max()), 0.0)
                return
    if not (Bfull - bd).any():
        return
    # (b) coupled damping: documented equations (1), (2) with the instance's diagonal coefficients
    for cls in ("SolveCDF", "SolveUnc-cdf"):
        ts, s = run_cdf(spec, cls)
        if not getattr(ts, "cdforces", False):
            ctx.fail("cdf-not-engaged", cls + " does not use the cd-as-force solver for coupled damping", spec, False, True)
            return
        pc = ts.pc
        P = np.array(spec["F"], float)[nonrf]
        D, V, Ac = s["d"][nonrf], s["v"][nonrf], s["a"][nonrf]
        nn = len(nonrf)
        Cod = Bfull[np.ix_(nonrf, nonrf)].copy()
        Cod[np.arange(nn), np.arange(nn)] = 0
        c = lambda x: x[:, None]
        if nt >= 2:
            R0 = P[:, :-1] - Cod @ V[:, :-1]
            R1 = (P[:, 1:] if spec["order"] == 1 else P[:, :-1]) - Cod @ V[:, 1:]
            q = c(pc.F) * D[:, :-1] + c(pc.G) * V[:, :-1] + c(pc.A) * R0 + c(pc.B) * R1
            qd = c(pc.Fp) * D[:, :-1] + c(pc.Gp) * V[:, :-1] + c(pc.Ap) * R0 + c(pc.Bp) * R1
            sd = max(np.abs(D).max(), 1e-300)
            sv = max(np.abs(V).max(), 1e-3 * sd / h)
            if not np.abs(D[:, 1:] - q).max() <= 1e-8 * sd:
                ctx.fail("cdf-implicit-displacement-order%d" % spec["order"], "q_{i+1} != F q + G v + A (P_i - Cod v_i) + B (P_{i+1} - Cod v_{i+1})",
                         spec, float(np.abs(D[:, 1:] - q).max()), "<= 1e-8 * %.3e" % sd)
            if not np.abs(V[:, 1:] - qd).max() <= 1e-8 * sv:
                ctx.fail("cdf-implicit-velocity-order%d" % spec["order"], "v_{i+1} != Fp q + Gp v + Ap (P_i - Cod v_i) + Bp (P_{i+1} - Cod v_{i+1})",
                         spec, float(np.abs(V[:, 1:] - qd).max()), "<= 1e-8 * %.3e" % sv)
        # equation of motion defines the acceleration
        m = np.ones(nn) if spec["m"] is None else np.array(spec["m"], float)[nonrf]
        k = np.array(spec["k"], float)[nonrf]
        Bn = Bfull[np.ix_(nonrf, nonrf)]
        terms = [c(m) * Ac, Bn @ V, c(k) * D, P]
        res = terms[0] + terms[1] + terms[2] - terms[3]
        sc = max(max(np.abs(t).max() for t in terms), 1e-300)
        if not np.abs(res).max() <= 1e-9 * sc:
            ctx.fail("cdf-eom-acceleration", "M a + C v + K d != P on the returned history", spec, float(np.abs(res).max()), 0.0)
        if rf:
            kr = np.array(spec["k"], float)[rf]
            Pr = np.array(spec["F"], float)[rf]
            if not np.abs(kr[:, None] * s["d"][rf] - Pr).max() <= 1e-9 * max(np.abs(Pr).max(), 1e-300):
                ctx.fail("cdf-rf-static", "rf rows are not solved statically", spec, "k d != P", "k d = P")


def _exact(M, B, K, ffun, d0, v0, T, nref=160):
    """reference displacements at the nref + 1 coarse grid times (n x (nref + 1))"""
    from scipy.integrate import solve_ivp

    n = len(d0)
    Mi = np.linalg.inv(M)

    def rhs(t, y):
        return np.concatenate([y[n:], Mi @ (ffun(t) - B @ y[n:] - K @ y[:n])])

    s = solve_ivp(rhs, (0, T), np.concatenate([d0, v0]), method="DOP853", rtol=1e-11, atol=1e-13,
                  t_eval=np.linspace(0, T, nref + 1))
    return s.y[:n]


def _order_verdict(errs, floor, need):
    """overall observed order between the coarsest and the finest step; None when at the reference floor"""
    if errs[-1] <= floor:
        return None, True
    order = math.log2(max(errs[0], 1e-300) / max(errs[-1], 1e-300)) / (len(errs) - 1)
    return order, (errs[-1] < errs[0] and order >= need)


def oracle_convergence(ctx, rng, balanced, solver):
    """Step-halving study on a small damped system with a smooth force."""
    from pyyeti import ode

    n = int(rng.integers(1, 4))
    w = 2 * np.pi * rng.uniform(0.5, 3.0, n)
    m = rng.uniform(0.5, 2.0, n)
    zeta = rng.uniform(0.01, 0.3, n)
    k = m * w * w
    b = 2 * zeta * m * w
    if solver == "newmark" and rng.random() < 0.5:
        Q = np.eye(n) + 0.3 * rng.standard_normal((n, n))
        M, B, K = Q.T @ np.diag(m) @ Q, Q.T @ np.diag(b) @ Q, Q.T @ np.diag(k) @ Q
        args = (M, B, K)
    elif solver == "newmark":
        M, B, K = np.diag(m), np.diag(b), np.diag(k)
        args = (m, b, k)
    else:
        R = rng.standard_normal((n, n))
        off = 0.3 * np.sqrt(np.outer(b, b)) * (R + R.T) / 2
        off[np.arange(n), np.arange(n)] = 0
        M, B, K = np.diag(m), np.diag(b) + off, np.diag(k)
        args = (m, B, k)
    d0 = rng.standard_normal(n)
    v0 = rng.standard_normal(n) * w
    fw = 2 * np.pi * rng.uniform(0.3, 1.5)
    f1 = rng.standard_normal(n) * k
    ph = rng.uniform(0, 6)
    base = K @ d0 + B @ v0 if balanced else K @ d0 + B @ v0 + rng.choice([-1, 1], n) * rng.uniform(0.5, 2.0, n) * k * (1 + np.abs(d0))
    ffun = lambda t: base + f1 * (np.sin(fw * t + ph) - np.sin(ph))
    T = 1.0
    ref_d = _exact(M, B, K, ffun, d0, v0, T)
    errs = []
    hs = [T / 160, T / 320, T / 640]
    for stride, h in zip((1, 2, 4), hs):
        nt = int(round(T / h)) + 1
        t = np.arange(nt) * h
        F = np.array([ffun(tt) for tt in t]).T
        if solver == "newmark":
            sol = ode.SolveNewmark(*args, h).tsolve(F, d0, v0)
        else:
            sol = ode.SolveCDF(*args, h).tsolve(F, d0, v0)
        errs.append(float(np.abs(sol.d[:, ::stride] - ref_d).max()))
    spec = {"solver": solver + "-convergence", "balanced": bool(balanced), "m": M.tolist(), "b": B.tolist(), "k": K.tolist(),
            "d0": d0.tolist(), "v0": v0.tolist(), "base": base.tolist(), "f1": f1.tolist(), "fw": fw, "ph": ph, "hs": hs}
    scale = max(np.abs(ref_d).max(), 1e-12)
    orders = [math.log2(max(errs[i], 1e-300) / max(errs[i + 1], 1e-300)) for i in range(2)]
    need = 1.6 if (balanced or solver == "cdf") else 0.75
    overall, ok = _order_verdict(errs, 1e-9 * scale, need)
    ctx.extra.setdefault("observed_orders", []).append(
        {"solver": solver, "balanced": bool(balanced), "errors": errs, "orders": [round(o, 3) for o in orders]})
    if not ok:
        fam = "%s-order-below-%s-%s" % (solver, "2" if need > 1 else "1", "balanced-start" if balanced else "unbalanced-start")
        ctx.fail(fam, "max-over-time error against the exact solution does not shrink at the documented rate when h is halved",
                 spec, {"errors": errs, "overall_order": overall}, "overall order >= %.2f" % need)
    return spec, orders
    need = 1.5 if (balanced or solver == "cdf") else 0.7
    if not (errs[2] < errs[0]) or min(orders) < need:
        fam = "%s-order-below-%s-%s" % (solver, "2" if need > 1 else "1", "balanced-start" if balanced else "unbalanced-start")
        ctx.fail(fam, "error against the exact solution does not shrink at the documented rate when h is halved", spec,
                 {"errors": errs, "orders": orders}, "orders >= %.1f" % need)
    return spec, orders


def oracle_bounded(ctx, rng):
    """Homogeneous response of a damped system stays bounded for a (very) large step."""
    from pyyeti import ode

    n = int(rng.integers(1, 5))
    w = 2 * np.pi * 10 ** rng.uniform(-1, 1, n)
    m = 10 ** rng.uniform(-1, 1, n)
    massless = rng.random() < 0.4
    if massless:
        m[int(rng.integers(0, n))] = 0.0
    zeta = 10 ** rng.uniform(-2, 0.5, n)
    k = np.where(m > 0, m, 1.0) * w * w
    b = 2 * zeta * np.where(m > 0, m, 1.0) * w
    h = float(10 ** rng.uniform(-0.5, 3) / w.max())
    full = rng.random() < 0.5
    if full:
        Q = np.linalg.qr(rng.standard_normal((n, n)))[0]
        args = (Q.T @ np.diag(m) @ Q, Q.T @ np.diag(b) @ Q, Q.T @ np.diag(k) @ Q)
    else:
        args = (m, b, k)
    d0 = rng.standard_normal(n)
    v0 = rng.standard_normal(n) * w
    nt = 1500
    sol = ode.SolveNewmark(*args, h).tsolve(np.zeros((n, nt)), d0, v0)
    spec = {"solver": "newmark-bounded", "m": np.array(args[0]).tolist(), "b": np.array(args[1]).tolist(),
            "k": np.array(args[2]).tolist(), "h": h, "d0": d0.tolist(), "v0": v0.tolist(), "nt": nt}
    _bounded_verdict(ctx, spec, sol.d)
    return spec


def _bounded_verdict(ctx, spec, d):
    """generous physical bound on the homogeneous response: 50 (|d0| + |v0| (h + 2 m/b + b/k + sqrt(m/k)))"""
    full = lambda x: x if x.ndim == 2 else np.diag(x)
    M, B, K = (full(np.array(spec[x], float)) for x in "mbk")
    m, b, k = (np.linalg.eigvalsh((X + X.T) / 2) for X in (M, B, K))
    d0, v0 = np.array(spec["d0"], float), np.array(spec["v0"], float)
    tconst = spec["h"] + 2 * m.max() / b.min() + b.max() / k.min() + np.sqrt(max(m.max(), 0.0) / k.min())
    bound = 50.0 * (np.abs(d0).max() + np.abs(v0).max() * tconst)
    big = float(np.abs(d).max()) if np.all(np.isfinite(d)) else float("inf")
    if not big <= bound:
        isfull = np.count_nonzero(K - np.diag(np.diag(K))) > 0
        fam = "newmark-unbounded-large-h-%s%s" % ("full" if isfull else "diag", "-massless" if m.min() < 1e-12 * max(m.max(), 1e-300) else "")
        ctx.fail(fam, "homogeneous response of a damped system grows for a large step", spec, big, "<= %.3e" % bound)


def _run_spec(ctx, spec):
    s = spec.get("solver")
    if s == "newmark":
        oracle_newmark(ctx, spec)
    elif s == "cdf":
        oracle_cdf(ctx, spec)
    elif s in ("newmark-convergence", "cdf-convergence", "newmark-bounded"):
        _replay_special(ctx, spec)


def _replay_special(ctx, spec):
    """Re-evaluate a convergence / boundedness failure from its recorded system."""
    from pyyeti import ode

    M, B, K = (np.array(spec[x], float) for x in "mbk")
    d0, v0 = np.array(spec["d0"], float), np.array(spec["v0"], float)
    if spec["solver"] == "newmark-bounded":
        sol = ode.SolveNewmark(M, B, K, spec["h"]).tsolve(np.zeros((len(d0), spec["nt"])), d0, v0)
        _bounded_verdict(ctx, spec, sol.d)
        return
    solver = spec["solver"].split("-")[0]
    base, f1, fw, ph = np.array(spec["base"]), np.array(spec["f1"]), spec["fw"], spec["ph"]
    ffun = lambda t: base + f1 * (np.sin(fw * t + ph) - np.sin(ph))
    T = 1.0
    ref_d = _exact(M if M.ndim == 2 else np.diag(M), B, K if K.ndim == 2 else np.diag(K), ffun, d0, v0, T)
    errs = []
    for stride, h in zip((1, 2, 4), spec["hs"]):
        nt = int(round(T / h)) + 1
        F = np.array([ffun(tt) for tt in np.arange(nt) * h]).T
        if solver == "newmark":
            sol = ode.SolveNewmark(M, B, K, h).tsolve(F, d0, v0)
        else:
            sol = ode.SolveCDF(np.diag(M), B, np.diag(K), h).tsolve(F, d0, v0)
        errs.append(float(np.abs(sol.d[:, ::stride] - ref_d).max()))
    need = 1.6 if (spec["balanced"] or solver == "cdf") else 0.75
    overall, ok = _order_verdict(errs, 1e-9 * max(np.abs(ref_d).max(), 1e-12), need)
    if not ok:
        ctx.fail(spec["solver"], "error does not shrink at the documented rate", spec, {"errors": errs, "overall_order": overall},
                 "overall order >= %.2f" % need)


def search(ctx, hints):
    for hnt in hints[:40]:
        try:
            _run_spec(ctx, hnt["input"])
        except Exception as e:  # a crash on a hinted input is itself a failing input
            ctx.fail("crash-" + type(e).__name__, "the solver raises on a generated input", hnt["input"], repr(e), "a history")
    rng = ctx.np_rng(1717)
    path = os.path.join(ctx.verif, "corpus", "c17.json")
    if os.path.exists(path):
        for spec in json.load(open(path)):
            _run_spec(ctx, spec)
    # smallest systems first: 1-DOF recurrence residuals
    for p in ({"n": 1, "form": "diag", "terms": False, "rf": False, "nt": 6}, {"n": 1, "form": "diag", "terms": True, "nt": 5},
              {"n": 2, "form": "full", "terms": False, "rf": False, "nt": 4}, {"n": 2, "form": "full", "terms": True, "nt": 4},
              {"n": 2, "form": "diag", "massless": True, "mnone": False, "terms": False}, {"n": 3, "rf": True, "terms": False},
              {"nt": 2}, {"nt": 3}):
        oracle_newmark(ctx, gen_newmark(rng, p))
        ctx.count("oracle:newmark")
    for _ in range(ctx.pick(1200, 8000)):
        spec = gen_newmark(rng)
        if _cond_ok(spec):
            oracle_newmark(ctx, spec)
            ctx.count("oracle:newmark")
        if len(ctx.failures) > 30:
            return
    for p in ({"diag_only": True}, {"nt": 1}, {"nt": 2}, {"rigid": True}, {"rf": True}):
        oracle_cdf(ctx, gen_cdf(rng, p))
        ctx.count("oracle:cdf")
    for _ in range(ctx.pick(400, 3000)):
        oracle_cdf(ctx, gen_cdf(rng))
        ctx.count("oracle:cdf")
        if len(ctx.failures) > 30:
            return
    for i in range(ctx.pick(12, 60)):
        oracle_convergence(ctx, rng, balanced=bool(i % 2), solver="newmark")
        ctx.count("oracle:newmark-step-halving")
    for i in range(ctx.pick(6, 30)):
        oracle_convergence(ctx, rng, balanced=False, solver="cdf")
        ctx.count("oracle:cdf-step-halving")
    for _ in range(ctx.pick(150, 1000)):
        oracle_bounded(ctx, rng)
        ctx.count("oracle:newmark-bounded")


def replay(ctx, data):
    f = data.get("failure")
    if not f:
        return None
    _run_spec(ctx, f["input"])
    return ctx.failures[0] if ctx.failures else None
