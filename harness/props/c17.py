"""C17 — approximate solvers follow their documented recurrences and converge (DESIGN.md 6/C17).

Tie: numeric correspondence (|impl - model| <= 1e-9 * scale) between the Lean models
  * Model/Newmark.lean  (`scalarSys` for one diagonal DOF, `matSys` with Gaussian elimination for full
    matrices; start-up, three-point recurrence, nonlinear terms, extrapolated last step, central
    differences, rf rows static), run at Float through Drivers/C17.lean, and
    pyyeti.ode.SolveNewmark(m, b, k, h, rf).tsolve(F, d0, v0) incl. def_nonlin callbacks mirrored in the
    protocol;
  * Model/Cdf.lean (`cdfRun`, the alpha recurrence) and SolveCDF / SolveUnc(cd_as_force=True).tsolve; the
    model is fed the solver's diagonal coefficients (get_su_coef is C01's subject) and an `alpha` computed
    here independently from the damping matrix.
    `alpha` computed by the model itself (`alphaMat`, the transposed solve of SolveUnc.__init__) from the input damping;
  * rf rows through `rfStaticMat`; step-halving triples (h, h/2, h/4) of both solvers on smooth problems, with the error
    ratios of model and implementation recorded in the evidence.
The oracle (search) never touches the Lean model: recurrence residuals evaluated in numpy on the returned
histories, SolveCDF == SolveUnc for diagonal damping, implicit CDF equations, SolveCDF == SolveUnc driven by
P - C_od v, step-halving orders against scipy's adaptive integrator, boundedness and discrete-energy non-increase for
large steps on damped systems, massless DOF (quasi-static rows); call sequences on ONE solver object (def_nonlin
re-defined between solves with new / shared / in-place-modified transform arrays or a mutated dict): every phase must
satisfy the documented equations for the definition in force, equal a fresh object, and leave caller arrays unchanged.

Second extension: the whole tsolve (rf rows, m = None, the dictionary of nonlinear terms via the model's defNonlin /
getNonlin, sol.z via zOut) goes through one model call (`mxf`, `zout`); cd-as-force accelerations (`cdfx`) and get_f2x
(`f2x`) too; an EXACT stream on dyadic inputs (bit for bit, exactness decided by a rational evaluation); oracles for the
explicit bounds of the convergence theorems, the orders of v and a, the initial-acceleration defect, modal superposition,
get_f2x as step sensitivity, the 2-DOF stability test problem and callbacks with an rf partition.
"""
import json
import math
import os
import struct
import warnings

import numpy as np

from runner import Infra

ID = "C17"
LEAN_MODULES = ["PyYetiVerif.Props.C17", "PyYetiVerif.Props.C17Conv", "PyYetiVerif.Props.C17Stab",
                "PyYetiVerif.Props.C17Cdf", "PyYetiVerif.Props.C17Vel", "PyYetiVerif.Props.C17Modal",
                "PyYetiVerif.Props.C17Energy", "PyYetiVerif.Props.C17Nonlin", "PyYetiVerif.Props.C17Opt",
                "PyYetiVerif.Props.C17CdfConv", "PyYetiVerif.Audit.C17"]
AUDIT_FILE = "PyYetiVerif/Audit/C17.lean"
THEOREMS = [
    "PyYetiVerif.C17." + n
    for n in (
        "newmark_is_documented newmark_central_differences newmark_consistent newmark_startup_defect "
        "newmark_startup_exact_iff newmark_stable_scalar massless_ok cdf_is_documented cdf_diag_eq_unc "
        # Props/C17Conv.lean: global convergence of the scalar scheme
        "newmark_run_is_sequence newmark_error_recursion newmark_truncation_bound newmark_startup_error_bound "
        "newmark_converges_scalar newmark_converges_scalar_second_order "
        # Props/C17Stab.lean: energy-method stability (scalar and full matrices), modal reduction, massless rows
        "newmark_energy_identity newmark_power_bounded_scalar newmark_energy_stable newmark_free_response_bounded "
        "newmark_stable_full newmark_stable_modal massless_rows_quasistatic rf_rows_static "
        # Props/C17Cdf.lean: alpha and the meaning of one cd-as-force step
        "cdf_alpha_identity cdf_alpha_transpose_solve cdf_alpha_transposed_variant_differs "
        "cdf_step_is_exact_for_interpolated_damping_force cdf_run_is_unc_with_damping_force "
        # Props/C17Vel.lean: what v and a are (end points included) and how fast they converge
        "newmark_velocity_is_central_difference convK_eq_convE newmark_velocity_converges_scalar "
        "newmark_accel_converges_scalar newmark_initial_accel_error_scalar newmark_initial_accel_first_order "
        "newmark_initial_accel_defect newmark_last_step_converges_scalar "
        # Props/C17Modal.lean, Props/C17Energy.lean: convergence for coupled (full) matrices
        "newmark_modal_decomposition newmark_converges_modal_full newmark_velocity_converges_modal_full newmark_energy_stable_full "
        "newmark_truncation_bound_full newmark_converges_energy_partial newmark_converges_energy "
        "newmark_converges_energy_second_order "
        # Props/C17Nonlin.lean: nonlinear terms, call sequences
        "newmark_nonlin_is_documented nonlin_zero_is_linear nonlin_z_is_callback_output def_nonlin_call_sequence "
        "def_nonlin_copies_at_call nonlin_rf_nonrf_part_is_run nonlin_rf_placement_irrelevant "
        # Props/C17Opt.lean: options and entry points
        "mNone_is_identity_mass mNone_scalar_coefficients rf_rows_static_full cdf_order0_is_order1_with_held_force "
        "cdf_accel_eom cdf_f2x_is_step_sensitivity cdf_f2x_matrix "
        # Props/C17CdfConv.lean: SolveCDF local error, error recursion, conditional convergence, 2-DOF stability
        "cdf_run_is_sequence cdf_error_recursion cdf_converges_partial cdf_local_error cdf_stable_two_dof"
    ).split()
]
TRUSTED = [
    "correspondence harness harness/props/c17.py (numeric comparison, 1e-9 * scale; scale = max |d| for "
    "displacements, max |d| / h and max |d| / h^2 for the central differences, max |alpha| for alpha)",
    "scipy.linalg.lu_factor/lu_solve and la.solve are modelled by the specification 'left inverse of A' "
    "(Gaussian elimination in the driver: A, k_rf, and the transposed system of alpha); the residual is measured by the "
    "correspondence on every run",
    "get_su_coef coefficients (property C01) are inputs of the cd-as-force model, taken from the solver instance; "
    "alpha is NOT taken from the instance: the model computes it from the input damping (Model/Cdf.lean alphaMat)",
    "floating-point round-off of the recurrences is outside the theorems (field arithmetic)",
    "the convergence theorems take the exact solution u as given, with four derivatives on the real line and bounds "
    "M3 >= |u(3)|, M4 >= |u(4)| on [0, T] (what f in C^2 provides); existence of u (Picard-Lindelof) is not proved",
    "step-halving reference: scipy.integrate.solve_ivp (DOP853, rtol 1e-11)",
    "exact stream: Python fractions.Fraction re-evaluates the documented recurrence of one diagonal DOF operation by operation and "
    "decides whether every intermediate value is a double; only then are implementation, Float model and rational history compared "
    "bit for bit",
    "the modal pair (Phi, Psi) of newmark_converges_modal_full and the constants mu, |M|, |B| of newmark_converges_energy are inputs "
    "of the theorems (numpy computes them in the oracle)",
]
RULE = (
    "a case is one (solver, m/b/k form [diag vector | diag matrix | full | m=None | singular mass | massless-undamped row], "
    "C/Fortran layout, h, nt, force style, initial conditions, rf partition, nonlinear-term list, order, symmetric / "
    "non-symmetric off-diagonal damping) whose complete d/v/a history (and alpha, rf rows) is compared with the Lean "
    "model's; step-halving cases are triples of such runs at h, h/2, h/4 on a smooth problem; solver objects are RE-USED: "
    "a call-sequence case is 2-4 phases on ONE SolveNewmark object (def_nonlin re-defined with fresh arrays / several "
    "terms sharing one transform array / the same arrays overwritten in place / the caller's dict mutated / cleared, or "
    "only a new force and initial conditions), every phase compared with the model on the definition in force, with a "
    "fresh object, and for unchanged caller-owned arrays (m, b, k, force, d0, v0, T); cd-as-force objects are solved "
    "three times; exact cases: h a power of two, b and k multiples of 3, A a power of two, forces multiples of 3/8, nt <= 6 "
    "(skipped and counted when the rational evaluation finds an intermediate value that is not a double); get_f2x cases: order 1, "
    "random phi with 1-3 rows; nonlinear callbacks with one or two outputs; non-trivial = nt >= 3 (the "
    "loop runs) and the response is not identically zero; distinct by the full numeric input; branch histogram lists "
    "form, layout, rf, nonlinear kinds, massless, nt"
)
ASSUMPTIONS = [
    "systems generated with cond(A) <= 1e6, cond(k_rf) <= 1e6, cond(I + Bp C_od) <= 1e6 (others skipped and counted); "
    "w*h in [0.02, 6]",
    "nonlinear callbacks read only d[:, j] and d[:, j-1] (the documented use) and the step index j",
    "a transform array changed in place takes effect at the next def_nonlin call (def_nonlin copies: T' = A^-1 T); "
    "changing it WITHOUT calling def_nonlin again is not exercised (undocumented either way)",
    "nt >= 2 for SolveNewmark (nt = 1 raises IndexError in the code; modelled as an error, compared exactly)",
    "energy oracle: symmetric positive semidefinite M, K and B (Q^T diag Q with orthogonal Q), zero force",
    "nonlinear terms together with an rf partition are exercised by four pinned cases with index-based callbacks; the oracle "
    "judges leading and trailing rf rows by the documented start-up on the non-rf rows and by moving the rf row to the other end",
    "proved-bound oracle: scalar systems with m in [0.5, 2], zeta <= 0.3, closed-form solution; h = T/50, T/200",
]
PARTIAL = (
    "partial: (1) displacements of COUPLED systems now converge by proof in two ways: modally damped systems through the modal "
    "transformation (newmark_modal_decomposition, newmark_converges_modal_full: error <= sum_i |Phi e_i| (K1_i |delta_i| h + K2_i h^2) with "
    "the scalar constants; the diagonalising pair (Phi, Psi) is an INPUT - the spectral theorem producing it from symmetric "
    "positive definite M, symmetric K and a damping diagonalised by the same modes is not proved), and ANY symmetric M >= mu^2 > 0, "
    "symmetric K >= 0 and B with <Bx,x> >= 0 by the energy method (newmark_converges_energy: truncation and start-up bounds "
    "discharged from four bounded derivatives, constants from mu, |M|, |B|; second order iff F(0) = K u0 + B v0); the velocities and "
    "accelerations are proved for the scalar equation (newmark_velocity_converges_scalar, newmark_accel_converges_scalar, "
    "newmark_last_step_converges_scalar, newmark_initial_accel_*: interior and last step keep the order of the displacements, "
    "v_0 is exact, a_0 is first order when balanced and NOT consistent when unbalanced (a_0 -> u''(0)/3, newmark_initial_accel_defect), "
    "a_1 does not converge when unbalanced) - for coupled, modally damped matrices the velocities are lifted "
    "(newmark_velocity_converges_modal_full), the accelerations and the general-damping (energy) case of v, a are not stated; a singular mass "
    "(massless rows) is outside the convergence theorems (mu > 0): stability and the quasi-static rows only; (2) the exact solution "
    "with four bounded derivatives is a hypothesis (existence not proved); (3) nonlinear terms: the recurrence with the lagged N "
    "is proved for arbitrary callbacks (newmark_nonlin_is_documented) and for arbitrary call sequences on one object "
    "(def_nonlin_call_sequence); CONVERGENCE with nonlinear terms is not proved (the explicit term makes the scheme conditionally "
    "stable) and not measured; with an rf partition (any placement) the non-rf part is `run` on the non-rf partition "
    "(nonlin_rf_nonrf_part_is_run, nonlin_rf_placement_irrelevant; finding F63, repaired in /repo 62d98b6, stays as a regression "
    "guard of the oracle); (4) SolveCDF: per-step force error O(h^2) "
    "(cdf_local_error) and the error recursion (cdf_error_recursion) are proved, global second order only CONDITIONALLY "
    "(cdf_converges_partial: hypotheses = a stability constant of the homogeneous step in some seminorm and one-step residuals "
    "<= C h^3); that the O(h^2) force error gives an O(h^3) residual needs the Duhamel kernel of the exact uncoupled step (C01's "
    "coefficients) and is NOT proved; stability of the lag is proved for the 2-DOF velocity test problem only "
    "(cdf_stable_two_dof: stable iff |c| < b; its coefficient hypotheses are measured on get_su_coef's values) - otherwise the "
    "step-halving streams measure it; (5) the tie of the array-level matSys / alphaMat / tsolveRf / cdfGetF2x to the linear maps of the "
    "theorems is the hypothesis 'solve inverts A' (measured by the correspondence); the row scatter of tsolveRf has no theorem "
    "beyond rf_rows_static_full; round-off is outside the theorems (exact where every operation is exact: the dyadic stream)"
)
MANIFEST = {
    "level_text": "Proof (Lean 4, kernel-checked, standard axioms only) about one polymorphic transcription of "
    "SolveNewmark (start-up, 1/3-averaged three-point recurrence with pre-multiplied nonlinear term, extrapolated "
    "last step, central differences, rf rows) and of the cd-as-force alpha recurrence incl. alpha itself. Proved: over "
    "any module the model's history satisfies the documented equations term by term given that `solve` inverts A "
    "(`newmark_is_documented`, `newmark_central_differences`, `cdf_is_documented`), and for linear systems it is the "
    "sequence d_n of the documented recurrence (`newmark_run_is_sequence`); exactness on quadratics "
    "(`newmark_consistent`), explicit start-up defect, zero iff F(0) = K u0 + B v0 (`newmark_startup_defect`, "
    "`newmark_startup_exact_iff`); GLOBAL CONVERGENCE for the scalar test equation m u'' + b u' + k u = f, m > 0, b, k >= 0: "
    "error recursion (`newmark_error_recursion`), truncation bound (5 m M4/12 + b M3/2) h^2 (`newmark_truncation_bound`), "
    "start-up error bound (`newmark_startup_error_bound`), energy stability sqrt(E_n) <= sqrt(E_0) + (h/sqrt m) sum |g_j| "
    "with no exponential factor for every h > 0 (`newmark_energy_identity`, `newmark_energy_stable`, "
    "`newmark_power_bounded_scalar`, `newmark_free_response_bounded`), hence max_n |d_n - u(t_n)| <= K1 |F(0) - K u0 - B v0| h "
    "+ K2 h^2 with explicit constants for every h (`newmark_converges_scalar`), second order when the initial force "
    "balances the initial state (`newmark_converges_scalar_second_order`): the documented order drop, proved; both roots "
    "of A z^2 - A1 z - A0 inside the unit disc for m >= 0, b, k, h > 0 (`newmark_stable_scalar`); unconditional stability "
    "for FULL symmetric positive semidefinite M, K and any B with <Bx,x> >= 0 by the matrix energy (`newmark_stable_full`), "
    "reduction of modally damped systems to the scalar scheme (`newmark_stable_modal`); massless DOF keep A != 0 "
    "(`massless_ok`) and massless undamped rows are solved quasi-statically, k d_j = F_j (`massless_rows_quasistatic`, "
    "`rf_rows_static`); cd-as-force: alpha = C_od (I + Bp C_od)^-1 = (I + C_od Bp)^-1 C_od for ANY C_od (`cdf_alpha_identity`, "
    "`cdf_alpha_transpose_solve`; the transposed look-alike differs: `cdf_alpha_transposed_variant_differs`), every step "
    "is SolveUnc's exact step for the force P - C_od v interpolated linearly over the step "
    "(`cdf_step_is_exact_for_interpolated_damping_force`, `cdf_run_is_unc_with_damping_force`) and with zero off-diagonal "
    "damping it is SolveUnc's (`cdf_diag_eq_unc`). The same definitions run at Float and are compared with SolveNewmark / "
    "SolveCDF / SolveUnc(cd_as_force) histories (diag, full, C and Fortran layout, singular mass, massless undamped rows, "
    "rf, nonlinear callbacks, symmetric and non-symmetric coupled damping, alpha, step-halving triples, call sequences "
    "on re-used solver objects with re-defined / in-place-modified nonlinear terms). SECOND EXTENSION: what `v` and `a` "
    "are, end points included - v_0 = v0, centred differences everywhere, the last step through the extrapolated De, no "
    "one-sided formula (`newmark_velocity_is_central_difference`) - and their convergence for the scalar equation with explicit "
    "constants (`newmark_velocity_converges_scalar`, `newmark_accel_converges_scalar`, `newmark_last_step_converges_scalar`, "
    "`newmark_initial_accel_error_scalar`, `newmark_initial_accel_first_order`, `newmark_initial_accel_defect`: a_0 -> u''(0)/3 when "
    "unbalanced); COUPLED convergence: the coupled run is Phi times the scalar runs (`newmark_modal_decomposition`) hence "
    "`newmark_converges_modal_full` / `newmark_velocity_converges_modal_full`, and for any symmetric M >= mu^2, K >= 0, <Bx,x> >= 0 the energy method with forcing "
    "(`newmark_energy_stable_full`), vector Taylor truncation bound (`newmark_truncation_bound_full`), "
    "`newmark_converges_energy_partial` (consistency as hypotheses) and `newmark_converges_energy` / "
    "`newmark_converges_energy_second_order` (hypotheses discharged from four bounded derivatives); nonlinear terms: `def_nonlin` "
    "/ `_get_nonlin` / `sol.z` are in the model (`defNonlin`, `getNonlin`, `zOut`), `newmark_nonlin_is_documented` (N_{n+1} evaluated "
    "explicitly on [u_{n+1}, ..., u_-1], pre-multiplication undone by A), `nonlin_zero_is_linear`, `nonlin_z_is_callback_output`, call "
    "sequences on one object (`def_nonlin_call_sequence`, `def_nonlin_copies_at_call`: values at the time of the call, no cache by "
    "object identity), with an rf partition in ANY placement the non-rf part is the same `run` with the callbacks on the non-rf rows "
    "at every step (`nonlin_rf_nonrf_part_is_run`, `nonlin_rf_placement_irrelevant`; F63 repaired in /repo 62d98b6); options: `mNone_is_identity_mass`, `mNone_scalar_coefficients`, `rf_rows_static_full`, "
    "`cdf_order0_is_order1_with_held_force`, `cdf_accel_eom` (full damping, with mass and m = None), `cdf_f2x_is_step_sensitivity`, "
    "`cdf_f2x_matrix`; SolveCDF: `cdf_run_is_sequence`, `cdf_local_error` (force error <= (M_P + c_od M3) h^2 per step), "
    "`cdf_error_recursion`, `cdf_converges_partial` (stability + O(h^3) residual => T e^{cT} C h^2), `cdf_stable_two_dof` (the lag is "
    "stable iff the 2-DOF damping matrix is diagonally dominant). Tie added: the WHOLE tsolve on all rows incl. the rf partition, "
    "m = None and the dictionary of nonlinear terms runs through the model (`tsolveRf`, `matSysOpt`, `defNonlin`); sol.z through `zOut`; "
    "cd-as-force accelerations and get_f2x through the model; an EXACT stream: on dyadic inputs where no operation rounds "
    "(decided by an independent rational evaluation) model, implementation and rational history agree bit for bit. Partial: "
    "accelerations for coupled matrices (and v, a under general damping) not stated; convergence with nonlinear terms not proved; SolveCDF global "
    "convergence conditional (stability constant and O(h^3) residual are hypotheses).",
    "level_note": "Trusted: Lean kernel; propext, Classical.choice, Quot.sound; the Python harness; LU solves modelled "
    "by their specification; get_su_coef coefficients taken from the solver (C01); the exact solution with four bounded "
    "derivatives is a hypothesis of the convergence theorems; round-off outside the theorems. Only tied / measured: the "
    "observed step-halving ratios (about 4 balanced, about 2 unbalanced; recorded for model and implementation), energy "
    "non-increase and boundedness of the free response on the real code, SolveCDF orders; the explicit bounds of the convergence "
    "theorems (d, v, a, end points) are evaluated on a closed-form problem and the real code's errors must lie below them; orders "
    "of v and a; the modal superposition, get_f2x as step sensitivity and the 2-DOF amplification factors on the API; the coefficient "
    "hypotheses of cdf_stable_two_dof on get_su_coef's values.",
    "technique": "Lean 4 proof (ring identities, Schur-Cohn via nlinarith, induction over the loop, discrete energy "
    "method, Taylor remainders via Mathlib's mean-value fencing lemma, inner-product-space energy for full matrices) on a "
    "polymorphic model + numeric differential correspondence with SolveNewmark/SolveCDF incl. step-halving triples + "
    "numpy recurrence-residual / energy / quasi-static / SolveUnc-with-damping-force oracle",
}

TOL = 1e-9
# found by this check, repaired in /repo (fix: commit 62d98b6): with an rf partition `_init_dva` handed the nonlinear-force
# functions the full-size array at step 0, the loop the non-rf rows; kept as a regression guard (oracle_nonlin_rf)
FIXED_F63 = "newmark-nonlin-with-leading-rf-callback-sees-full-size-array-at-step-0"
KINDS = {0: "cubic", 1: "gap", 2: "nasvel", 3: "index", 4: "pair"}

warnings.filterwarnings("ignore")


# ---------------------------------------------------------------------------------------
# transport


def _bits(x):
    return str(struct.unpack("<Q", struct.pack("<d", float(x)))[0])


def _bl(arr):
    return " ".join(_bits(v) for v in np.asarray(arr, float).ravel())


def _unbits(tokens):
    return np.array([struct.unpack("<d", struct.pack("<Q", int(t)))[0] for t in tokens])


# ---------------------------------------------------------------------------------------
# case generation (JSON-able specs)


def _force(rng, n, nt, h, amp, style):
    t = np.arange(nt) * h
    F = np.zeros((n, nt))
    for i in range(n):
        if style == "zero":
            pass
        elif style == "noise":
            F[i] = rng.standard_normal(nt)
        elif style == "sine":
            F[i] = np.sin(2 * np.pi * rng.uniform(0.02, 0.3) / h * t + rng.uniform(0, 6))
        elif style == "step":
            F[i, rng.integers(0, nt):] = 1.0
            F[i] += 0.5
        else:  # ramp
            F[i] = rng.uniform(-1, 1) + rng.uniform(-1, 1) * t / (h * nt)
        F[i] *= amp[i]
    return F


def _modal(rng, n, whlo, whhi, h):
    wh = 10 ** rng.uniform(math.log10(whlo), math.log10(whhi), n)
    w = wh / h
    m = 10 ** rng.uniform(-1, 1, n)
    zeta = rng.choice([0.0, 0.02, 0.3, 1.0, 2.5], n)
    return m, 2 * zeta * m * w, m * w * w


def gen_newmark(rng, forced=None):
    """One SolveNewmark case; `forced` pins some features so that declared branches are reached."""
    forced = forced or {}
    n = int(forced.get("n", rng.integers(1, 6)))
    h = float(10 ** rng.uniform(-3, 0))
    nt = int(forced.get("nt", rng.choice([2, 3, 4, int(rng.integers(5, 40)), int(rng.integers(40, 120))])))
    form = forced.get("form", rng.choice(["diag", "diag", "diagmat", "full", "full"]))
    terms_on = forced.get("terms", rng.random() < 0.35)
    m, b, k = _modal(rng, n, 0.02, 1.0 if terms_on else 6.0, h)
    tags = []
    mnone = forced.get("mnone", rng.random() < 0.1)
    if mnone:
        b, k = b / m, k / m
        m = np.ones(n)
        tags.append("m-none")
    if not mnone and forced.get("massless", rng.random() < 0.3):
        i = int(rng.integers(0, n))
        m[i] = 0.0
        if b[i] == 0.0:
            b[i] = 0.3 * k[i] * h
        tags.append("massless")
    if forced.get("rigid", rng.random() < 0.15):
        i = int(rng.integers(0, n))
        if m[i] > 0:
            k[i] = 0.0
            b[i] = 0.0
            tags.append("rigid-body")
    if not mnone and forced.get("quasistatic", rng.random() < 0.1):
        # a massless AND undamped row: A = k/3 there; the recurrence must degenerate to k d_j = F_j (j >= 1)
        i = int(rng.integers(0, n))
        if k[i] > 0:
            m[i] = 0.0
            b[i] = 0.0
            tags.append("massless-undamped")
            if "massless" not in tags:
                tags.append("massless")
    amp = np.where(k > 0, k, m / h / h + b / h)
    F = _force(rng, n, nt, h, amp, forced.get("style", rng.choice(["zero", "noise", "sine", "step", "ramp"])))
    d0 = None if rng.random() < 0.3 else rng.standard_normal(n)
    v0 = None if rng.random() < 0.3 else rng.standard_normal(n) * np.sqrt(np.where(m > 0, k / np.where(m > 0, m, 1), 1.0))
    spec = {"solver": "newmark", "h": h, "form": str(form), "tags": tags, "mnone": bool(mnone)}
    rf = None
    if (not terms_on or forced.get("rf_terms")) and n >= 2 and forced.get("rf", rng.random() < 0.3):
        cnt = int(rng.integers(1, n + (1 if rng.random() < 0.15 else 0)))
        rf = sorted(int(v) for v in rng.choice(n, size=min(cnt, n), replace=False))
        rf = [i for i in rf if k[i] != 0.0] or None
    if form == "full":
        Q = np.eye(n) + 0.35 * rng.standard_normal((n, n)) / max(1, n) ** 0.5
        M, B, K = Q.T @ np.diag(m) @ Q, Q.T @ np.diag(b) @ Q, Q.T @ np.diag(k) @ Q
        if rng.random() < 0.3:
            B = B + 0.05 * np.abs(B).max() * rng.standard_normal((n, n))
        spec.update(m=None if mnone else M.tolist(), b=B.tolist(), k=K.tolist())
        if mnone:
            spec["tags"] = [t for t in tags if t != "m-none"] + ["m-none"]
    elif form == "diagmat":
        spec.update(m=None if mnone else np.diag(m).tolist(), b=np.diag(b).tolist(), k=np.diag(k).tolist())
    else:
        spec.update(m=None if mnone else m.tolist(), b=b.tolist(), k=k.tolist())
    terms = []
    if terms_on and rf and len(rf) < n:
        # nonlinear terms WITH an rf partition: transforms and callback indices are in the numbering of the non-rf rows
        nn_ = n - len(rf)
        nonrf_ = [i for i in range(n) if i not in rf]
        for _ in range(int(rng.integers(1, 3))):
            kind = int(rng.choice([0, 3]))
            p = int(rng.integers(0, nn_))
            kk = float(k[nonrf_[p]] if k[nonrf_[p]] > 0 else m[nonrf_[p]] / h / h)
            T = rng.standard_normal(nn_) * (rng.random(nn_) < 0.7)
            if not T.any():
                T[p] = 1.0
            terms.append({"kind": kind, "p": p, "q": p, "c": {0: 0.3 * kk, 3: 0.02 * kk / nt}[kind], "g": {0: 0.0, 3: 0.1 * kk}[kind], "T": T.tolist()})
    elif terms_on and not rf:
        for _ in range(int(rng.integers(1, 3))):
            kind = int(forced.get("kind", rng.integers(0, 5)))
            p = int(rng.integers(0, n))
            q = int(rng.integers(0, n))
            kk = float(k[p] if k[p] > 0 else m[p] / h / h)
            c = {0: 0.3 * kk, 1: kk, 2: 0.1 * float(m[p]) if m[p] > 0 else 0.01 * kk * h * h, 3: 0.02 * kk / nt, 4: 0.2 * kk}[kind]
            g = {0: 0.0, 1: 0.2, 2: 0.0, 3: 0.1 * kk, 4: 0.05 * kk * h}[kind]
            T = rng.standard_normal(n) * (rng.random(n) < 0.7)
            if not T.any():
                T[p] = 1.0
            if kind == 4:
                # two callback outputs: the transform has two columns
                T = np.column_stack([T, rng.standard_normal(n) * (rng.random(n) < 0.7)])
            terms.append({"kind": kind, "p": p, "q": q, "c": c, "g": g, "T": T.tolist()})
    spec.update(F=F.tolist(), d0=None if d0 is None else d0.tolist(), v0=None if v0 is None else v0.tolist(),
                rf=rf, terms=terms, nt=nt, n=n, layout=str(rng.choice(["C", "F"])))
    return spec


def gen_cdf(rng, forced=None):
    forced = forced or {}
    n = int(rng.integers(2, 6))
    h = float(10 ** rng.uniform(-3, 0))
    nt = int(forced.get("nt", rng.choice([1, 2, 3, int(rng.integers(4, 40)), int(rng.integers(40, 100))])))
    m, b, k = _modal(rng, n, 0.02, 1.5, h)
    tags = []
    mnone = rng.random() < 0.2
    if mnone:
        b, k = b / m, k / m
        m = np.ones(n)
        tags.append("m-none")
    if forced.get("rigid", rng.random() < 0.3):
        i = int(rng.integers(0, n))
        k[i] = 0.0
        if rng.random() < 0.5:
            b[i] = 0.0
        tags.append("rigid-body")
    diag_only = forced.get("diag_only", False)
    bscale = np.sqrt(np.outer(np.maximum(b, 1e-3 * b.max() + 1e-9), np.maximum(b, 1e-3 * b.max() + 1e-9)))
    R = rng.standard_normal((n, n)) * (rng.random((n, n)) < 0.7)
    off = 0.3 * bscale * (R + R.T) / 2
    nonsym = bool(rng.random() < 0.4)
    if nonsym:
        # off-diagonal damping need not be symmetric (gyroscopic terms, general modal damping)
        off = 0.3 * bscale * R
        tags.append("nonsymmetric-damping")
    off[np.arange(n), np.arange(n)] = 0.0
    if not off.any():
        off[0, 1] = off[1, 0] = 0.1 * bscale[0, 1]
    B = np.diag(b) + (0 if diag_only else off)
    amp = np.where(k > 0, k, m / h / h)
    F = _force(rng, n, nt, h, amp, rng.choice(["zero", "noise", "sine", "step", "ramp"]))
    d0 = None if rng.random() < 0.3 else rng.standard_normal(n)
    v0 = None if rng.random() < 0.3 else rng.standard_normal(n) * np.sqrt(k / m)
    rf = None
    if forced.get("rf", rng.random() < 0.25):
        rf = [i for i in sorted(int(v) for v in rng.choice(n, size=1, replace=False)) if k[i] != 0.0] or None
    return {"solver": "cdf", "h": h, "n": n, "nt": nt, "m": None if mnone else m.tolist(), "b": B.tolist(),
            "k": k.tolist(), "F": F.tolist(), "d0": None if d0 is None else d0.tolist(),
            "v0": None if v0 is None else v0.tolist(), "rf": rf, "order": int(rng.integers(0, 2)),
            "tags": tags, "cls": str(rng.choice(["SolveCDF", "SolveUnc"])), "layout": str(rng.choice(["C", "F"]))}


def _gen_terms(rng, n, m, k, h, nt, tid0, shared=False):
    """nonlinear-term descriptions with transform-array ids (`tid`): terms with the same tid share ONE ndarray"""
    terms = []
    cnt = int(rng.integers(2, 4)) if shared else int(rng.integers(1, 3))
    Tsh = None
    for i in range(cnt):
        kind = int(rng.integers(0, 4))
        p = int(rng.integers(0, n))
        q = int(rng.integers(0, n))
        kk = float(k[p] if k[p] > 0 else m[p] / h / h)
        c = {0: 0.3 * kk, 1: kk, 2: 0.1 * float(m[p]) if m[p] > 0 else 0.01 * kk * h * h, 3: 0.02 * kk / nt}[kind]
        g = {0: 0.0, 1: 0.2, 2: 0.0, 3: 0.1 * kk}[kind]
        T = rng.standard_normal(n) * (rng.random(n) < 0.7)
        if not T.any():
            T[p] = 1.0
        if shared:
            Tsh = T if Tsh is None else Tsh
            T = Tsh
        terms.append({"kind": kind, "p": p, "q": q, "c": c, "g": g, "T": T.tolist(), "tid": tid0 if shared else tid0 + i})
    return terms


SEQ_HOWS = ("fresh-arrays", "shared-array", "inplace", "same-dict", "tsolve-only", "clear")


def gen_newmark_seq(rng, forced=None):
    """A CALL SEQUENCE on ONE SolveNewmark object: phases of (optional def_nonlin re-definition, tsolve).

    how = fresh-arrays : def_nonlin(new dict of new transform arrays)
          shared-array : def_nonlin(new dict), several terms share one transform array
          inplace      : the transform arrays of the previous definition are overwritten IN PLACE (parametric study) and
                         def_nonlin is called again with the same array objects
          same-dict    : the caller's dict object is mutated (entry replaced / added) and passed again
          tsolve-only  : no re-definition, only new force / initial conditions
          clear        : def_nonlin({}) - back to the linear solver
    Each phase lists the terms IN FORCE (values the arrays hold at the time of the most recent def_nonlin)."""
    forced = forced or {}
    n = int(forced.get("n", rng.integers(1, 5)))
    h = float(10 ** rng.uniform(-3, 0))
    form = str(forced.get("form", rng.choice(["diag", "diagmat", "full", "full"])))
    m, b, k = _modal(rng, n, 0.02, 1.0, h)
    tags = []
    if rng.random() < 0.2:
        i = int(rng.integers(0, n))
        m[i] = 0.0
        if b[i] == 0.0:
            b[i] = 0.3 * k[i] * h
        tags.append("massless")
    spec = {"solver": "newmark-seq", "h": h, "form": form, "tags": tags, "mnone": False, "n": n,
            "layout": str(rng.choice(["C", "F"]))}
    if form == "full":
        Q = np.eye(n) + 0.35 * rng.standard_normal((n, n)) / max(1, n) ** 0.5
        spec.update(m=(Q.T @ np.diag(m) @ Q).tolist(), b=(Q.T @ np.diag(b) @ Q).tolist(), k=(Q.T @ np.diag(k) @ Q).tolist())
    elif form == "diagmat":
        spec.update(m=np.diag(m).tolist(), b=np.diag(b).tolist(), k=np.diag(k).tolist())
    else:
        spec.update(m=m.tolist(), b=b.tolist(), k=k.tolist())
    amp = np.where(k > 0, k, m / h / h + b / h)
    hows = list(forced.get("hows") or [])
    nph = len(hows) or int(rng.integers(2, 5))
    phases, cur, tid = [], [], 0
    for ip in range(nph):
        nt = int(rng.choice([2, 3, int(rng.integers(4, 12)), int(rng.integers(12, 40))]))
        F = _force(rng, n, nt, h, amp, rng.choice(["zero", "noise", "sine", "step", "ramp"]))
        d0 = None if rng.random() < 0.3 else rng.standard_normal(n)
        v0 = None if rng.random() < 0.3 else rng.standard_normal(n) * np.sqrt(np.where(m > 0, k / np.where(m > 0, m, 1), 1.0))
        if hows:
            how = hows[ip]
        elif ip == 0:
            how = str(rng.choice(["fresh-arrays", "shared-array", "tsolve-only"]))
        else:
            how = str(rng.choice(SEQ_HOWS if cur else ("fresh-arrays", "shared-array", "tsolve-only")))
        if how in ("inplace", "same-dict") and not cur:
            how = "fresh-arrays"
        if how == "fresh-arrays":
            cur = _gen_terms(rng, n, m, k, h, nt, tid)
            tid += len(cur)
        elif how == "shared-array":
            cur = _gen_terms(rng, n, m, k, h, nt, tid, shared=True)
            tid += 1
        elif how == "inplace":
            fac = {}
            for t in cur:
                if t["tid"] not in fac:
                    fac[t["tid"]] = (float(rng.choice([3.0, 0.5, -1.0, 2.0])), rng.standard_normal(n) if rng.random() < 0.3 else None)
            new = []
            for t in cur:
                f, T2 = fac[t["tid"]]
                new.append(dict(t, T=(np.array(t["T"]) * f if T2 is None else T2).tolist()))
            cur = new
        elif how == "same-dict":
            cur = [dict(t) for t in cur]
            extra = _gen_terms(rng, n, m, k, h, nt, tid)
            tid += len(extra)
            if rng.random() < 0.5:
                cur[int(rng.integers(0, len(cur)))] = extra[0]  # entry replaced under the same key
            else:
                cur = cur + extra[:1]  # entry added
        elif how == "clear":
            cur = []
        phases.append({"how": how, "F": F.tolist(), "d0": None if d0 is None else d0.tolist(),
                       "v0": None if v0 is None else v0.tolist(), "nt": nt, "terms": [dict(t) for t in cur]})
    spec["phases"] = phases
    return spec


def _phase_spec(spec, ph):
    """the single-call case equivalent to one phase of a sequence (a fresh solver given the definition in force)"""
    return {"solver": "newmark", "h": spec["h"], "form": spec["form"], "tags": spec["tags"], "mnone": False, "m": spec["m"],
            "b": spec["b"], "k": spec["k"], "F": ph["F"], "d0": ph["d0"], "v0": ph["v0"], "rf": None, "terms": ph["terms"],
            "nt": ph["nt"], "n": spec["n"], "layout": spec.get("layout", "C")}


def run_newmark_seq(spec):
    """Run the whole call sequence on ONE solver object -> list of per-phase results (d, v, a, z, mutated)."""
    from pyyeti import ode

    lay = spec.get("layout", "C")
    m, b, k = _arr(spec["m"], lay), _arr(spec["b"], lay), _arr(spec["k"], lay)
    keep = [None if x is None else x.copy() for x in (m, b, k)]
    ts = ode.SolveNewmark(m, b, k, spec["h"])
    pool, dct, out = {}, {}, []
    for ph in spec["phases"]:
        for t in ph["terms"]:
            vals = np.array(t["T"], float).reshape(-1, 1)
            if t["tid"] in pool:
                pool[t["tid"]][:] = vals  # the caller's array object is re-used and overwritten in place
            else:
                pool[t["tid"]] = vals.copy()
        if ph["how"] != "tsolve-only":
            new = {"t%d" % i: (_zfun(t), pool[t["tid"]]) for i, t in enumerate(ph["terms"])}
            if ph["how"] == "same-dict":
                dct.clear()
                dct.update(new)
            else:
                dct = new
            ts.def_nonlin(dct)
        F = np.array(ph["F"], float)
        d0, v0 = _arr(ph["d0"]), _arr(ph["v0"])
        owned = [("m", m, keep[0]), ("b", b, keep[1]), ("k", k, keep[2]), ("force", F, F.copy()),
                 ("d0", d0, None if d0 is None else d0.copy()), ("v0", v0, None if v0 is None else v0.copy())]
        owned += [("T%d" % tid, a, a.copy()) for tid, a in pool.items()]
        try:
            sol = ts.tsolve(F, d0, v0)
        except IndexError:
            out.append({"error": "index-error"})
            continue
        res = {"d": np.array(sol.d), "v": np.array(sol.v), "a": np.array(sol.a), "unc": bool(ts.unc)}
        if ph["terms"]:
            res["z"] = {key: np.array(val) for key, val in sol.z.items()} if hasattr(sol, "z") else {}
        res["mutated"] = [nm for nm, a, c in owned if a is not None and not np.array_equal(a, c)]
        out.append(res)
    return out


# ---------------------------------------------------------------------------------------
# running the implementation


def _arr(x, layout="C"):
    if x is None:
        return None
    a = np.array(x, float)
    # Fortran-ordered matrices (what op4 / MATLAB readers and LAPACK-based routines hand over) are legitimate input;
    # a routine that lets LAPACK work in place (overwrite_a) behaves differently on them
    return np.asfortranarray(a) if layout == "F" and a.ndim == 2 else a


def _zfun(t):
    kind, p, q, c, g = t["kind"], t["p"], t["q"], t["c"], t["g"]

    def f(d, j, h):
        x = d[:, j]
        xp = d[:, j - 1]  # column -1 holds u_{-1} at j = 0 (documented)
        if kind == 0:
            z = c * (x[p] * x[p] * x[p])
        elif kind == 1:
            e = x[p] - x[q] - g
            z = c * (e if e > 0 else 0.0)
        elif kind == 2:
            w = (x[p] - xp[p]) / h
            z = c * (w * abs(w))
        elif kind == 3:
            z = c * x[p] * float(j) + g
        else:
            return np.array([c * x[p], g * ((x[p] - xp[p]) / h)])
        return np.array([z])

    return f


def run_newmark(spec):
    """-> dict(d, v, a[, z]) or {'error': kind}"""
    from pyyeti import ode

    try:
        lay = spec.get("layout", "C")
        ts = ode.SolveNewmark(_arr(spec["m"], lay), _arr(spec["b"], lay), _arr(spec["k"], lay), spec["h"], rf=spec.get("rf"))
        if spec.get("terms"):
            ts.def_nonlin({"t%d" % i: (_zfun(t), np.array(t["T"], float).reshape(spec["n"] - len(spec.get("rf") or []), -1))
                           for i, t in enumerate(spec["terms"])})
        sol = ts.tsolve(np.array(spec["F"], float), _arr(spec["d0"]), _arr(spec["v0"]))
    except IndexError:
        return {"error": "index-error"}
    except ValueError:
        return {"error": "value-error"}
    out = {"d": np.array(sol.d), "v": np.array(sol.v), "a": np.array(sol.a), "unc": bool(ts.unc)}
    if spec.get("terms"):
        out["z"] = {key: np.array(val) for key, val in sol.z.items()}
    return out


def run_cdf(spec, cls=None, b_override=None):
    from pyyeti import ode

    b = _arr(spec["b"], spec.get("layout", "C")) if b_override is None else b_override
    cls = cls or spec.get("cls", "SolveCDF")
    if cls == "SolveCDF":
        ts = ode.SolveCDF(_arr(spec["m"]), b, _arr(spec["k"]), spec["h"], rf=spec.get("rf"), order=spec["order"])
    elif cls == "SolveUnc-cdf":
        ts = ode.SolveUnc(_arr(spec["m"]), b, _arr(spec["k"]), spec["h"], rf=spec.get("rf"), order=spec["order"],
                          cd_as_force=True)
    else:
        ts = ode.SolveUnc(_arr(spec["m"]), b, _arr(spec["k"]), spec["h"], rf=spec.get("rf"), order=spec["order"])
    sol = ts.tsolve(np.array(spec["F"], float), _arr(spec["d0"]), _arr(spec["v0"]))
    return ts, {"d": np.array(sol.d), "v": np.array(sol.v), "a": np.array(sol.a)}


def cdf_reuse(spec, cls):
    """Second and third tsolve on the SAME cd-as-force solver object (other force / initial conditions, then the first
    ones again) against fresh objects -> None or (what, max difference, scale)."""
    from pyyeti import ode

    lay = spec.get("layout", "C")
    mkb = [_arr(spec["m"]), _arr(spec["b"], lay), _arr(spec["k"])]
    keep = [None if x is None else x.copy() for x in mkb]
    if cls == "SolveCDF":
        ts = ode.SolveCDF(*mkb, spec["h"], rf=spec.get("rf"), order=spec["order"])
    else:
        ts = ode.SolveUnc(*mkb, spec["h"], rf=spec.get("rf"), order=spec["order"], cd_as_force=True)
    F = np.array(spec["F"], float)
    sol1 = ts.tsolve(F.copy(), _arr(spec["d0"]), _arr(spec["v0"]))
    first = {nm: np.array(getattr(sol1, nm)) for nm in "dva"}
    for nm, a, c in zip("mbk", mkb, keep):
        if a is not None and not np.array_equal(a, c):
            return "the caller's %s array was modified by the constructor / tsolve" % nm, 1.0, 0.0
    F2 = 0.5 * F[:, ::-1] + 0.25 * np.abs(F).max()
    alt = dict(spec, F=F2.tolist(), d0=spec["v0"] and (0.1 * spec["h"] * np.array(spec["v0"])).tolist(),
               v0=spec["d0"] and (np.array(spec["d0"]) / spec["h"] * 0.1).tolist())
    Fk = F2.copy()
    sol2 = ts.tsolve(F2, _arr(alt["d0"]), _arr(alt["v0"]))
    if not np.array_equal(F2, Fk):
        return "the force array passed to tsolve was modified", 1.0, 0.0
    _, fresh2 = run_cdf(alt, cls)
    sol3 = ts.tsolve(F.copy(), _arr(spec["d0"]), _arr(spec["v0"]))
    for what, a, bb in (("second tsolve on a used object", sol2, fresh2), ("first input again on a used object", sol3, first)):
        for name in "dva":
            x, y = np.array(getattr(a, name)), bb[name]
            sc = max(float(np.abs(y).max()), 1e-300)
            if not np.abs(x - y).max() <= 1e-12 * sc:
                return what + " (%s)" % name, float(np.abs(x - y).max()), sc
    return None


def _mats(spec):
    """full n x n M, B, K of a newmark spec (M = I for m None)"""
    k = np.array(spec["k"], float)
    n = k.shape[0]
    full = lambda x: np.eye(n) if x is None else (np.diag(np.array(x, float)) if np.ndim(x) == 1 else np.array(x, float))
    return full(spec["m"]), full(spec["b"]), full(spec["k"])


def _parts(spec):
    n = spec["n"]
    rf = list(spec.get("rf") or [])
    nonrf = [i for i in range(n) if i not in rf]
    return nonrf, rf


def _is_diag(spec):
    M, B, K = _mats(spec)
    return all(np.count_nonzero(X - np.diag(np.diag(X))) == 0 for X in (M, B, K))


# ---------------------------------------------------------------------------------------
# correspondence


def _cmp(ctx, stream, spec, name, impl, model, scale):
    impl = np.asarray(impl, float)
    model = np.asarray(model, float)
    if impl.shape != model.shape:
        ctx.disagree(stream, spec, {"shape": list(impl.shape)}, {"shape": list(model.shape)})
        return False
    bad = ~(np.abs(impl - model) <= TOL * scale)
    if bad.any():
        idx = np.argwhere(bad)[0].tolist()
        ctx.disagree(stream, spec, {name: float(impl[tuple(idx)]), "at": idx, "scale": float(scale)},
                     {name: float(model[tuple(idx)])})
        return False
    return True


def _newmark_requests(spec):
    """protocol lines for one newmark spec: the `mxf` line (whole tsolve on all n rows: m / m=None, rf partition, nonlinear
    terms through the model's def_nonlin), then one `sc` line per non-rf DOF of a diagonal linear system"""
    M, B, K = _mats(spec)
    nonrf, rf = _parts(spec)
    n, nt, h = spec["n"], spec["nt"], spec["h"]
    F = np.array(spec["F"], float).reshape(n, -1)
    d0 = np.zeros(n) if spec["d0"] is None else np.array(spec["d0"], float)
    v0 = np.zeros(n) if spec["v0"] is None else np.array(spec["v0"], float)
    terms = spec.get("terms") or []
    nn = len(nonrf)
    parts = ["mxf", str(n), str(F.shape[1]), _bits(h)]
    parts += ["0"] if spec["m"] is None else ["1", _bl(M)]
    parts += [_bl(B), _bl(K), _bl(F.T), _bl(d0), _bl(v0), str(len(rf))] + [str(i) for i in rf] + [str(len(terms))]
    for t in terms:
        T = np.array(t["T"], float).reshape(nn, -1)
        parts += [str(t["kind"]), str(t["p"]), str(t["q"]), _bits(t["c"]), _bits(t["g"]), str(T.shape[1]), _bl(T.T)]
    lines = [" ".join(p for p in parts if p != "")]
    if nn and _is_diag(spec) and not terms:
        for i in nonrf:
            lines.append(" ".join(["sc", str(F.shape[1]), _bits(M[i, i]), _bits(B[i, i]), _bits(K[i, i]), _bits(h),
                                   _bits(d0[i]), _bits(v0[i]), _bl(F[i])]))
    return lines


def _zout_request(spec, d):
    """`zout` line: sol.z by the model's zOut on the displacement history `d` (n x nt, no rf partition)"""
    n, nt, h = spec["n"], spec["nt"], spec["h"]
    d0 = np.zeros(n) if spec["d0"] is None else np.array(spec["d0"], float)
    v0 = np.zeros(n) if spec["v0"] is None else np.array(spec["v0"], float)
    parts = ["zout", str(n), str(nt), _bits(h), _bl(d0 - v0 * h), _bl(np.asarray(d, float).T), str(len(spec["terms"]))]
    for t in spec["terms"]:
        T = np.array(t["T"], float).reshape(n, -1)
        parts += [str(t["kind"]), str(t["p"]), str(t["q"]), _bits(t["c"]), _bits(t["g"]), str(T.shape[1]), _bl(T.T)]
    return " ".join(parts)


def _z_compare(ctx, stream, spec, zimpl, r):
    zw, nt = _zwidths(spec), spec["nt"]
    if not r.startswith("ok"):
        ctx.disagree(stream, spec, "sol.z", r[:40])
        return
    x = _unbits(r.split()[1:])
    if x.size != nt * sum(zw):
        ctx.disagree(stream, spec, "sol.z", "bad-size")
        return
    at = 0
    for i, rr in enumerate(zw):
        zm = x[at: at + nt * rr].reshape(nt, rr).T
        at += nt * rr
        ctx.count("newmark:z-model")
        zi = np.asarray(zimpl.get("t%d" % i, np.zeros((0, 0))), float)
        _cmp(ctx, stream + "-" + KINDS[spec["terms"][i]["kind"]], spec, "z", zi, zm,
             max(float(np.abs(zm).max()), float(np.abs(zi).max()) if zi.size else 0.0, 1e-300))


def _zwidths(spec):
    return [np.array(t["T"], float).reshape(len(_parts(spec)[0]), -1).shape[1] for t in spec.get("terms") or []]


def _parse_hist(rep, n, nt, zw=()):
    """-> (d, v, a) or (d, v, a, [z_i of shape (r_i, nt)]) when widths `zw` of the callback outputs are given"""
    if not rep.startswith("ok"):
        return rep
    x = _unbits(rep.split()[1:])
    if x.size != 3 * n * nt + nt * sum(zw):
        return "bad-size"
    y = x[: 3 * n * nt].reshape(3, nt, n)
    if not zw:
        return y[0].T, y[1].T, y[2].T
    zs, at = [], 3 * n * nt
    for r in zw:
        zs.append(x[at: at + nt * r].reshape(nt, r).T)
        at += nt * r
    return y[0].T, y[1].T, y[2].T, zs


def _cond_ok(spec):
    M, B, K = _mats(spec)
    nonrf, _ = _parts(spec)
    if not nonrf:
        return True
    h = spec["h"]
    ix = np.ix_(nonrf, nonrf)
    A = M[ix] / h / h + B[ix] / (2 * h) + K[ix] / 3
    try:
        return np.linalg.cond(A) <= 1e6
    except np.linalg.LinAlgError:
        return False


def _rf_cond_ok(spec):
    _, rf = _parts(spec)
    if not rf:
        return True
    K = _mats(spec)[2]
    try:
        return np.linalg.cond(K[np.ix_(rf, rf)]) <= 1e6
    except np.linalg.LinAlgError:
        return False


def _newmark_cases(ctx):
    rng = ctx.np_rng(17)
    cases = []
    path = os.path.join(ctx.verif, "corpus", "c17.json")
    if os.path.exists(path):
        cases += json.load(open(path))
    pins = [
        {"form": "diag", "terms": False, "rf": False}, {"form": "full", "terms": False},
        {"form": "diagmat", "terms": False}, {"form": "full", "terms": False, "massless": True, "mnone": False},
        {"form": "diag", "massless": True, "mnone": False, "terms": False}, {"form": "diag", "rf": True, "n": 3, "terms": False},
        {"form": "full", "rf": True, "n": 4, "terms": False}, {"nt": 2}, {"nt": 3}, {"mnone": True, "form": "full"},
        {"mnone": True, "form": "diag"}, {"rigid": True, "form": "diag", "mnone": False, "massless": False},
        {"quasistatic": True, "form": "diag", "mnone": False, "terms": False, "rigid": False, "nt": 12},
        {"quasistatic": True, "form": "full", "mnone": False, "terms": False, "rigid": False},
    ] + [{"terms": True, "kind": kk, "form": f} for kk in range(5) for f in ("diag", "full")] + [
        # nonlinear terms together with an rf partition: the callbacks see the non-rf rows at every step (fix 62d98b6, F63)
        {"terms": True, "rf_terms": True, "rf": True, "n": 3, "form": f, "mnone": False, "massless": False, "rigid": False,
         "quasistatic": False} for f in ("diag", "full", "diag", "full")]
    for p in pins:
        cases.append(gen_newmark(rng, p))
    for _ in range(ctx.pick(2000, 12000)):
        cases.append(gen_newmark(rng))
    # error stream: a single time step
    for f in ("diag", "full"):
        cases.append(gen_newmark(rng, {"nt": 1, "form": f, "terms": False, "rf": False}))
    return cases


def _corr_newmark(ctx):
    cases = [c for c in _newmark_cases(ctx)]
    drv = ctx.driver("C17")
    req, owner = [], []
    kept = []
    for spec in cases:
        if not _cond_ok(spec):
            ctx.skip("newmark: cond(A) > 1e6")
            continue
        if not _rf_cond_ok(spec):
            ctx.skip("newmark: cond(k_rf) > 1e6")
            continue
        lines = _newmark_requests(spec)
        kept.append((spec, len(req), len(lines)))
        req += lines
    rep = drv.ask(req)
    rfjobs, zjobs = [], []
    for spec, at, cnt in kept:
        impl = run_newmark(spec)
        n, nt = spec["n"], spec["nt"]
        nonrf, rf = _parts(spec)
        branch = "newmark:" + ("unc" if _is_diag(spec) else "full")
        key = json.dumps(spec, sort_keys=True)
        if "error" in impl:
            model = rep[at] if cnt else "index-error"
            ctx.case(key, nontrivial=False, branch="newmark:error:" + impl["error"])
            if model != impl["error"]:
                ctx.disagree("newmark-error", spec, impl["error"], model[:40])
            continue
        nontriv = nt >= 3 and bool(np.any(impl["d"]))
        ctx.case(key, nontrivial=nontriv, branch=branch)
        for t in spec["tags"]:
            ctx.count("newmark:" + t)
        ctx.count("newmark:nt=%s" % (nt if nt <= 3 else ">3"))
        ctx.count("newmark:form=" + spec["form"])
        ctx.count("newmark:layout=" + spec.get("layout", "C"))
        if rf:
            ctx.count("newmark:rf" + ("-all" if not nonrf else ""))
        for t in spec.get("terms") or []:
            ctx.count("newmark:nonlin-" + KINDS[t["kind"]])
        if not np.all(np.isfinite(impl["d"])):
            ctx.skip("newmark: non-finite history (explicit nonlinear term blew up)")
            continue
        h = spec["h"]
        sd = max(float(np.abs(impl["d"]).max()), 1e-300)
        u1 = (np.zeros(n) if spec["d0"] is None else np.array(spec["d0"])) - h * (
            np.zeros(n) if spec["v0"] is None else np.array(spec["v0"]))
        sd = max(sd, float(np.abs(u1).max()))
        if spec.get("terms") and sd > 1e8:
            ctx.skip("newmark: explicit nonlinear term diverges (max |d| > 1e8)")
            continue
        # the extrapolated displacement De enters the last v and a
        sd = max(sd, float(np.abs(impl["d"][:, -2] + 2 * h * impl["v"][:, -1]).max()))
        if cnt:
            # the whole tsolve on all n rows (model: tsolveRf - rf rows static, m = None, nonlinear terms via defNonlin)
            got = _parse_hist(rep[at], n, nt)
            if isinstance(got, str):
                ctx.disagree("newmark-mx", spec, "history", got[:40])
                continue
            ok = True
            if rf:
                ctx.count("newmark:rf-assembled")
                sd = max(sd, float(np.abs(impl["d"][rf]).max()))
            for name, arr, sc in (("d", got[0], sd), ("v", got[1], sd / h), ("a", got[2], sd / h / h)):
                ok = _cmp(ctx, "newmark-" + ("diag" if _is_diag(spec) else "full") + "-" + name, spec, name,
                          impl[name], arr, sc) and ok
            if spec.get("terms") and rf:
                ctx.count("newmark:nonlin-with-rf")
            elif spec.get("terms"):
                zjobs.append((spec, impl, _zout_request(spec, impl["d"])))
            # scalar instance, DOF by DOF
            for r, i in zip(rep[at + 1: at + cnt], nonrf):
                g = _parse_hist(r, 1, nt)
                ctx.count("newmark:scalar-instance")
                if isinstance(g, str):
                    ctx.disagree("newmark-sc", spec, "history", g[:40])
                    continue
                sdi = max(float(np.abs(impl["d"][i]).max()), abs(float(u1[i])), 1e-300)
                for name, arr, sc in (("d", g[0], sdi), ("v", g[1], sdi / h), ("a", g[2], sdi / h / h)):
                    _cmp(ctx, "newmark-scalar-" + name, spec, name, impl[name][[i]], arr, sc)
        if rf:
            # rf rows static (Model `rfStatic` is one line: (1/krf) * f); here numerically, and below through the
            # model's `rfStaticMat` (Gaussian elimination on k_rf) for every rf partition
            M, B, K = _mats(spec)
            F = np.array(spec["F"], float)
            want = np.linalg.solve(K[np.ix_(rf, rf)], F[rf]) if not _is_diag(spec) else F[rf] / np.diag(K)[rf][:, None]
            _cmp(ctx, "newmark-rf-d", spec, "d", impl["d"][rf], want, max(float(np.abs(want).max()), 1e-300))
            _cmp(ctx, "newmark-rf-va", spec, "v", np.vstack([impl["v"][rf], impl["a"][rf]]), 0 * np.vstack([want, want]), 1.0)
            if np.linalg.cond(K[np.ix_(rf, rf)]) <= 1e6:
                rfjobs.append((spec, impl["d"][rf], " ".join(["rfm", str(len(rf)), str(nt), _bl(K[np.ix_(rf, rf)]), _bl(F[rf].T)])))
        if len(ctx.samples) < 3 and nontriv:
            ctx.sample({"solver": "newmark", "form": spec["form"], "n": n, "nt": nt, "h": h, "rf": rf,
                        "terms": [KINDS[t["kind"]] for t in spec.get("terms") or []], "d_last": impl["d"][:, -1].tolist()})
    # sol.z: the model's `zOut` evaluated on the implementation's displacement history
    for (spec, impl, _), r in zip(zjobs, drv.ask([j[2] for j in zjobs])):
        _z_compare(ctx, "newmark-z", spec, impl.get("z", {}), r)
    for (spec, drf, _), r in zip(rfjobs, drv.ask([j[2] for j in rfjobs])):
        ctx.count("newmark:rf-model")
        if not r.startswith("ok"):
            ctx.disagree("newmark-rf-model", spec, "rf rows", r[:40])
            continue
        x = _unbits(r.split()[1:])
        if x.size != drf.size:
            ctx.disagree("newmark-rf-model", spec, "rf rows", "bad-size")
            continue
        _cmp(ctx, "newmark-rf-model", spec, "d", drf, x.reshape(drf.shape[1], drf.shape[0]).T, max(float(np.abs(drf).max()), 1e-300))


def _cdf_request(spec, ts):
    n, nt, h = spec["n"], spec["nt"], spec["h"]
    nonrf, rf = _parts(spec)
    nn = len(nonrf)
    pc = ts.pc
    Bfull = np.array(spec["b"], float)
    bo = Bfull[np.ix_(nonrf, nonrf)].copy()
    bo[np.arange(nn), np.arange(nn)] = 0.0
    # `alpha` is computed by the model itself (Model/Cdf.lean `alphaMat`: tmp = I + Bp[:, None] * bo,
    # alpha = solve(tmp.T, bo.T).T with Gaussian elimination) from the off-diagonal damping taken from the INPUT
    F = np.array(spec["F"], float)
    d0 = np.zeros(n) if spec["d0"] is None else np.array(spec["d0"], float)
    v0 = np.zeros(n) if spec["v0"] is None else np.array(spec["v0"], float)
    # `cdfx` = `cdfa` plus the acceleration recovery (`cdfAcc`: invm = 1/m or m = None, full damping = bo + diag b)
    mpart = ["0"] if spec["m"] is None else ["1", _bl(np.array(spec["m"], float)[nonrf])]
    return " ".join(["cdfx", str(nn), str(nt), str(spec["order"])] + mpart + [_bl(np.diag(Bfull)[nonrf]),
                    _bl(np.array(spec["k"], float)[nonrf])] + [_bl(getattr(pc, c)) for c in
                    ("F", "G", "A", "B", "Fp", "Gp", "Ap", "Bp")] + [_bl(bo), _bl(F[nonrf].T),
                                                                   _bl(d0[nonrf]), _bl(v0[nonrf])])


def _cdf_cond_ok(spec, ts):
    nonrf, _ = _parts(spec)
    nn = len(nonrf)
    bo = np.array(spec["b"], float)[np.ix_(nonrf, nonrf)].copy()
    bo[np.arange(nn), np.arange(nn)] = 0.0
    try:
        return np.linalg.cond(np.eye(nn) + np.asarray(ts.pc.Bp)[:, None] * bo) <= 1e6
    except np.linalg.LinAlgError:
        return False


def _cdf_compare(ctx, spec, ts, impl, r, tag=""):
    """compare one `cdfa` reply with the implementation: alpha, d, v"""
    nt = spec["nt"]
    nonrf, rf = _parts(spec)
    if not r.startswith("ok"):
        ctx.disagree("cdf" + tag, spec, "history", r[:40])
        return False
    x = _unbits(r.split()[1:])
    nn = len(nonrf)
    if x.size != nn * nn + 3 * nn * nt:
        ctx.disagree("cdf" + tag, spec, "history", "bad-size")
        return False
    al = x[: nn * nn].reshape(nn, nn)
    x = x[nn * nn:].reshape(3, nt, nn)
    sd = max(float(np.abs(impl["d"]).max()), 1e-300)
    sv = max(float(np.abs(impl["v"]).max()), sd / spec["h"] * 1e-3, 1e-300)
    ok = _cmp(ctx, "cdf-alpha" + tag, spec, "alpha", np.asarray(ts.pc.alpha, float), al,
              max(float(np.abs(al).max()), float(np.abs(ts.pc.alpha).max()), 1e-300))
    ok = _cmp(ctx, "cdf-d" + tag, spec, "d", impl["d"][nonrf], x[0].T, sd) and ok
    ok = _cmp(ctx, "cdf-v" + tag, spec, "v", impl["v"][nonrf], x[1].T, sv) and ok
    # acceleration recovery: a = invm (P - C v - K d); scale = the largest of the three force terms over m
    mm = np.ones(nn) if spec["m"] is None else np.array(spec["m"], float)[nonrf]
    Bn = np.array(spec["b"], float)[np.ix_(nonrf, nonrf)]
    kk = np.array(spec["k"], float)[nonrf]
    P = np.array(spec["F"], float)[nonrf]
    terms = [P, Bn @ impl["v"][nonrf], kk[:, None] * impl["d"][nonrf]]
    sa = max(max(float(np.abs(t / mm[:, None]).max()) for t in terms), 1e-300)
    ctx.count("cdf:accel-model")
    ok = _cmp(ctx, "cdf-a" + tag, spec, "a", impl["a"][nonrf], x[2].T, sa) and ok
    return ok


def _corr_cdf(ctx):
    rng = ctx.np_rng(171)
    cases = [gen_cdf(rng, p) for p in ({"nt": 1}, {"nt": 2}, {"rigid": True}, {"rf": True})]
    cases += [gen_cdf(rng) for _ in range(ctx.pick(800, 5000))]
    drv = ctx.driver("C17")
    req, impls = [], []
    for spec in cases:
        cls = "SolveCDF" if spec["cls"] == "SolveCDF" else "SolveUnc-cdf"
        ts, impl = run_cdf(spec, cls)
        if not getattr(ts, "cdforces", False):
            ctx.disagree("cdf-path", spec, "cdforces is False for coupled damping", "cd-as-force path")
            continue
        if not _cdf_cond_ok(spec, ts):
            ctx.skip("cdf: cond(I + Bp C_od) > 1e6")
            continue
        req.append(_cdf_request(spec, ts))
        impls.append((spec, impl, cls, ts))
    rep = drv.ask(req)
    f2xjobs = []
    for (spec, impl, cls, ts), r in zip(impls, rep):
        n, nt = spec["n"], spec["nt"]
        nonrf, rf = _parts(spec)
        key = json.dumps(spec, sort_keys=True)
        nontriv = nt >= 2 and bool(np.any(impl["d"]))
        ctx.case(key, nontrivial=nontriv, branch="cdf:" + cls)
        ctx.count("cdf:order=%d" % spec["order"])
        ctx.count("cdf:nt=%s" % (nt if nt <= 2 else ">2"))
        for t in spec["tags"]:
            ctx.count("cdf:" + t)
        if rf:
            ctx.count("cdf:rf")
        ctx.count("cdf:alpha-from-model")
        ctx.count("cdf:layout=" + spec.get("layout", "C"))
        _cdf_compare(ctx, spec, ts, impl, r)
        if spec["order"] == 1 and ctx.evaluations % 3 == 0:
            f2xjobs.append(_f2x_job(ctx, spec, ts))
        if nt >= 2 and ctx.evaluations % 4 == 0:
            ctx.count("cdf:reused-solver")
            bad = cdf_reuse(spec, cls)
            if bad:
                ctx.disagree("cdf-reused-solver", spec, {"what": bad[0], "difference": bad[1], "scale": bad[2]}, "the history of a fresh solver object")
    for job, r in zip(f2xjobs, drv.ask([j[4] for j in f2xjobs])):
        _f2x_compare(ctx, job, r)


def _f2x_job(ctx, spec, ts):
    """get_f2x(phi, velo) of a cd-as-force solver against the model's `cdfGetF2x` (alpha by the model)"""
    rng = np.random.default_rng(abs(hash(json.dumps(spec["F"][0][:3]))) % (2**32))
    n = spec["n"]
    nonrf, rf = _parts(spec)
    r = int(rng.integers(1, 4))
    phi = rng.standard_normal((r, n))
    pc = ts.pc
    nn = len(nonrf)
    bo = np.array(spec["b"], float)[np.ix_(nonrf, nonrf)].copy()
    bo[np.arange(nn), np.arange(nn)] = 0.0
    krf = np.array(spec["k"], float)[rf] if rf else np.zeros(0)
    line = " ".join(x for x in ["f2x", str(nn), str(r), str(len(rf)), _bl(pc.B), _bl(pc.Bp), _bl(bo), _bl(phi[:, nonrf]),
                                _bl(krf), _bl(phi[:, rf]) if rf else ""] if x != "")
    return spec, r, np.array(ts.get_f2x(phi, False)), np.array(ts.get_f2x(phi, True)), line


def _f2x_compare(ctx, job, rep):
    spec, r, fd, fv, _ = job
    ctx.count("cdf:f2x-model")
    if not rep.startswith("ok"):
        ctx.disagree("cdf-f2x", spec, "flex", rep[:40])
        return
    x = _unbits(rep.split()[1:])
    if x.size != 2 * r * r:
        ctx.disagree("cdf-f2x", spec, "flex", "bad-size")
        return
    x = x.reshape(2, r, r)
    for name, impl, mod in (("disp", fd, x[0]), ("velo", fv, x[1])):
        _cmp(ctx, "cdf-f2x-" + name, spec, "flex", impl, mod, max(float(np.abs(mod).max()), float(np.abs(impl).max()), 1e-300))


def _smooth_case(rng, solver, balanced):
    """small damped system with a smooth force on [0, 1]; returns (M, B, K, args-for-the-solver, d0, v0, ffun, form)"""
    n = int(rng.integers(2 if solver == "cdf" else 1, 4))
    w = 2 * np.pi * rng.uniform(0.5, 3.0, n)
    m = rng.uniform(0.5, 2.0, n)
    zeta = rng.uniform(0.01, 0.3, n)
    k = m * w * w
    b = 2 * zeta * m * w
    if solver == "newmark" and rng.random() < 0.5:
        Q = np.eye(n) + 0.3 * rng.standard_normal((n, n))
        M, B, K = Q.T @ np.diag(m) @ Q, Q.T @ np.diag(b) @ Q, Q.T @ np.diag(k) @ Q
        args, form = (M, B, K), "full"
    elif solver == "newmark":
        M, B, K = np.diag(m), np.diag(b), np.diag(k)
        args, form = (m, b, k), "diag"
    else:
        R = rng.standard_normal((n, n))
        off = 0.3 * np.sqrt(np.outer(b, b)) * (R if rng.random() < 0.4 else (R + R.T) / 2)
        off[np.arange(n), np.arange(n)] = 0
        M, B, K = np.diag(m), np.diag(b) + off, np.diag(k)
        args, form = (m, B, k), "cdf"
    d0 = rng.standard_normal(n)
    v0 = rng.standard_normal(n) * w
    fw = 2 * np.pi * rng.uniform(0.3, 1.5)
    f1 = rng.standard_normal(n) * k
    ph = rng.uniform(0, 6)
    base = K @ d0 + B @ v0
    if not balanced:
        base = base + rng.choice([-1, 1], n) * rng.uniform(0.5, 2.0, n) * k * (1 + np.abs(d0))
    ffun = lambda t: base + f1 * (np.sin(fw * t + ph) - np.sin(ph))
    return M, B, K, args, d0, v0, ffun, form


def _cdf_parse(r, nn, nt):
    if not r.startswith("ok"):
        return None
    x = _unbits(r.split()[1:])
    if x.size != nn * nn + 3 * nn * nt:
        return None
    y = x[nn * nn:].reshape(3, nt, nn)
    return x[: nn * nn].reshape(nn, nn), y[0].T, y[1].T


def _corr_halving(ctx):
    """Step-halving CORRESPONDENCE: the Float model and the implementation are run on the same smooth problem at
    h, h/2, h/4; the three histories are compared like every other case, and the error ratios of both against the
    exact solution are recorded in the evidence (the quantitative side of `newmark_converges_scalar`)."""
    rng = ctx.np_rng(1719)
    drv = ctx.driver("C17")
    T = 1.0
    hs = [T / 40, T / 80, T / 160]
    jobs = [("newmark", bool(i % 2)) for i in range(ctx.pick(4, 16))] + [("cdf", False) for _ in range(ctx.pick(2, 8))]
    rows = []
    for solver, balanced in jobs:
        M, B, K, args, d0, v0, ffun, form = _smooth_case(rng, solver, balanced)
        n = len(d0)
        ref = _exact(M, B, K, ffun, d0, v0, T, nref=40)
        scale = max(float(np.abs(ref).max()), 1e-12)
        e_impl, e_model = [], []
        good = True
        for stride, h in zip((1, 2, 4), hs):
            nt = int(round(T / h)) + 1
            F = np.array([ffun(tt) for tt in np.arange(nt) * h]).T
            if solver == "newmark":
                spec = {"solver": "newmark", "h": h, "form": form, "tags": [], "mnone": False,
                        "m": np.asarray(args[0]).tolist(), "b": np.asarray(args[1]).tolist(), "k": np.asarray(args[2]).tolist(),
                        "F": F.tolist(), "d0": d0.tolist(), "v0": v0.tolist(), "rf": None, "terms": [], "nt": nt, "n": n,
                        "layout": "C", "halving": True}
                impl = run_newmark(spec)
                rep = drv.ask(_newmark_requests(spec)[:1])[0]
                got = _parse_hist(rep, n, nt)
                ctx.case(json.dumps(spec, sort_keys=True), nontrivial=True, branch="newmark:step-halving")
                if "error" in impl or isinstance(got, str):
                    ctx.disagree("newmark-halving", spec, impl.get("error", "history"), str(got)[:40])
                    good = False
                    break
                sd = max(float(np.abs(impl["d"]).max()), float(np.abs(d0 - h * v0).max()),
                         float(np.abs(impl["d"][:, -2] + 2 * h * impl["v"][:, -1]).max()), 1e-300)
                for name, arr, sc in (("d", got[0], sd), ("v", got[1], sd / h), ("a", got[2], sd / h / h)):
                    good = _cmp(ctx, "newmark-halving-" + name, spec, name, impl[name], arr, sc) and good
                dm = got[0]
            else:
                spec = {"solver": "cdf", "h": h, "n": n, "nt": nt, "m": np.asarray(args[0]).tolist(), "b": B.tolist(),
                        "k": np.asarray(args[2]).tolist(), "F": F.tolist(), "d0": d0.tolist(), "v0": v0.tolist(), "rf": None,
                        "order": 1, "tags": [], "cls": "SolveCDF", "layout": "C", "halving": True}
                ts, impl = run_cdf(spec, "SolveCDF")
                rep = drv.ask([_cdf_request(spec, ts)])[0]
                ctx.case(json.dumps(spec, sort_keys=True), nontrivial=True, branch="cdf:step-halving")
                good = _cdf_compare(ctx, spec, ts, impl, rep, tag="-halving") and good
                got = _cdf_parse(rep, n, nt)
                if got is None:
                    good = False
                    break
                dm = got[1]
            e_impl.append(float(np.abs(impl["d"][:, ::stride] - ref).max()))
            e_model.append(float(np.abs(dm[:, ::stride] - ref).max()))
        if not good or len(e_impl) < 3:
            continue
        ratio = lambda e: [e[i] / max(e[i + 1], 1e-300) for i in range(2)]
        ri, rm = ratio(e_impl), ratio(e_model)
        rows.append({"solver": solver, "form": form, "balanced": bool(balanced), "n": n, "hs": hs,
                     "errors_impl": e_impl, "errors_model": e_model,
                     "ratios_impl": [round(x, 4) for x in ri], "ratios_model": [round(x, 4) for x in rm]})
        if min(e_impl) > 1e-6 * scale:
            for a, c in zip(ri, rm):
                if not abs(a - c) <= 1e-2 * max(abs(a), abs(c)):
                    ctx.disagree("halving-ratio", {"solver": solver, "form": form, "balanced": bool(balanced)}, ri, rm)
                    break
    ctx.extra["step_halving_correspondence"] = rows


SEQ_PINS = (
    {"hows": ["fresh-arrays", "inplace"], "form": "full", "n": 2}, {"hows": ["fresh-arrays", "inplace", "inplace"], "form": "diag"},
    {"hows": ["shared-array", "inplace"], "form": "full"}, {"hows": ["shared-array", "tsolve-only", "inplace"], "form": "diag"},
    {"hows": ["fresh-arrays", "same-dict"], "form": "full"}, {"hows": ["fresh-arrays", "clear", "tsolve-only"], "form": "diag"},
    {"hows": ["tsolve-only", "tsolve-only", "fresh-arrays"], "form": "full"}, {"hows": ["fresh-arrays", "fresh-arrays"], "form": "diagmat"},
)


def _seq_ok(spec):
    return _cond_ok(_phase_spec(spec, spec["phases"][0]))


def _corr_sequences(ctx):
    """Solver objects are RE-USED: every phase of a call sequence on one object is compared with the Lean model run on
    the definition in force (and, exactly, with a fresh object given that definition); caller-owned arrays must be
    unchanged after every call."""
    rng = ctx.np_rng(1723)
    specs = [gen_newmark_seq(rng, p) for p in SEQ_PINS] + [gen_newmark_seq(rng) for _ in range(ctx.pick(150, 900))]
    drv = ctx.driver("C17")
    req, kept = [], []
    for spec in specs:
        if not _seq_ok(spec):
            ctx.skip("newmark-seq: cond(A) > 1e6")
            continue
        lines = [_newmark_requests(_phase_spec(spec, ph))[0] for ph in spec["phases"]]
        kept.append((spec, len(req)))
        req += lines
    rep = drv.ask(req)
    zseq = []
    for spec, at in kept:
        res = run_newmark_seq(spec)
        key = json.dumps(spec, sort_keys=True)
        n, h = spec["n"], spec["h"]
        any_nontriv = False
        for ip, (ph, r) in enumerate(zip(spec["phases"], res)):
            ctx.count("newmark-seq:" + ph["how"] + ("" if ip else "-first"))
            nt = ph["nt"]
            pspec = _phase_spec(spec, ph)
            if "error" in r:
                ctx.disagree("newmark-seq-error", spec, r["error"], "a history (phase %d)" % ip)
                continue
            if r["mutated"]:
                ctx.disagree("newmark-seq-caller-arrays", spec, {"phase": ip, "mutated": r["mutated"]}, "caller-owned arrays unchanged")
            if not np.all(np.isfinite(r["d"])):
                ctx.skip("newmark-seq: non-finite history (explicit nonlinear term blew up)")
                break
            u1 = (np.zeros(n) if ph["d0"] is None else np.array(ph["d0"])) - h * (np.zeros(n) if ph["v0"] is None else np.array(ph["v0"]))
            sd = max(float(np.abs(r["d"]).max()), float(np.abs(u1).max()), float(np.abs(r["d"][:, -2] + 2 * h * r["v"][:, -1]).max()), 1e-300)
            if ph["terms"] and sd > 1e8:
                ctx.skip("newmark-seq: explicit nonlinear term diverges (max |d| > 1e8)")
                break
            any_nontriv = any_nontriv or (nt >= 3 and bool(np.any(r["d"])))
            got = _parse_hist(rep[at + ip], n, nt)
            if isinstance(got, str):
                ctx.disagree("newmark-seq-mx", spec, "history (phase %d)" % ip, got[:40])
                continue
            if ph["terms"]:
                zseq.append((spec, pspec, r.get("z", {}), ph["how"], _zout_request(pspec, r["d"])))
            okp = True
            for name, arr, sc in (("d", got[0], sd), ("v", got[1], sd / h), ("a", got[2], sd / h / h)):
                okp = _cmp(ctx, "newmark-seq-%s-%s" % (ph["how"], name), spec, name, r[name], arr, sc) and okp
            # the same definition on a FRESH object: identical arithmetic, so (almost) bit-identical
            fresh = run_newmark(pspec)
            if "error" in fresh:
                ctx.disagree("newmark-seq-fresh", spec, "history", fresh["error"])
                continue
            for name, sc in (("d", sd), ("v", sd / h), ("a", sd / h / h)):
                if not np.abs(r[name] - fresh[name]).max() <= 1e-12 * sc:
                    ctx.disagree("newmark-seq-vs-fresh-%s-%s" % (ph["how"], name), spec,
                                 {"phase": ip, name: float(np.abs(r[name] - fresh[name]).max())}, "the history of a fresh solver object")
                    break
        ctx.case(key, nontrivial=any_nontriv, branch="newmark-seq")
    for (spec, pspec, zimpl, how, _), r in zip(zseq, drv.ask([j[4] for j in zseq])):
        _z_compare(ctx, "newmark-seq-z-" + how, pspec, zimpl, r)


def _dyadic_ok(x):
    """is the rational x a finite double?  (odd part of the numerator below 2^53, denominator a power of two, exponent in
    the normal range)"""
    if x == 0:
        return True
    d = x.denominator
    if d & (d - 1):
        return False
    n = abs(x.numerator)
    n >>= (n & -n).bit_length() - 1
    return n.bit_length() <= 53 and d.bit_length() < 900 and abs(x.numerator).bit_length() < 900


def gen_exact(rng):
    """Diagonal system on which EVERY floating-point operation of the solver is exact: h a power of two, k and b
    multiples of 3 (so that the divisions by 3 are exact), A = m/h^2 + b/2h + k/3 a power of two, forces multiples of
    3/8, a few steps.  -> spec (solver 'newmark', form 'diag')"""
    n = int(rng.integers(1, 4))
    e = int(rng.integers(0, 4))
    h = 2.0 ** -e
    nt = int(rng.integers(2, 7))
    m, b, k = np.zeros(n), np.zeros(n), np.zeros(n)
    for i in range(n):
        b3 = int(rng.integers(0, 9)) / 4.0
        k3 = int(rng.integers(0, 9)) / 4.0
        base = 3 * b3 / (2 * h) + k3
        A = 2.0 ** math.ceil(math.log2(max(base, 0.125))) * float(rng.choice([1, 1, 2, 4]))
        if A <= base and rng.random() < 0.5:
            A *= 2
        m[i] = (A - base) * h * h  # 0 = massless row (then A = base must be a power of two: it is)
        b[i], k[i] = 3 * b3, 3 * k3
        if m[i] == 0 and base == 0:
            m[i] = h * h
    F = 3.0 * rng.integers(-8, 9, (n, nt)) / 8.0
    d0 = rng.integers(-8, 9, n) / 4.0
    v0 = rng.integers(-8, 9, n) / 4.0
    return {"solver": "newmark", "h": h, "form": "diag", "tags": ["exact-dyadic"], "mnone": False, "m": m.tolist(),
            "b": b.tolist(), "k": k.tolist(), "F": F.tolist(), "d0": d0.tolist(), "v0": v0.tolist(), "rf": None,
            "terms": [], "nt": nt, "n": n, "layout": "C"}


def _exact_history(m, b, k, h, F, d0, v0):
    """the documented recurrence of one diagonal DOF in exact rational arithmetic, operation by operation as the code
    orders them -> (d, v, a, representable) ; representable = every intermediate value is a double"""
    from fractions import Fraction as Fr

    ok = [True]
    track = [0, Fr(0)]  # largest denominator exponent, largest magnitude

    def c(x):
        if not _dyadic_ok(x):
            ok[0] = False
        else:
            track[0] = max(track[0], x.denominator.bit_length() - 1)
            track[1] = max(track[1], abs(x))
        return x

    m, b, k, h, d0, v0 = (Fr(x) for x in (m, b, k, h, d0, v0))
    F = [Fr(x) for x in F]
    nt = len(F)
    sqh, h2 = c(h * h), c(2 * h)
    mterm = c(m / sqh)
    A = c(c(c(mterm + c(b / h2))) + c(k / 3))
    A1 = c(c(2 * mterm) - c(k / 3))
    A0 = c(c(c(b / h2) - c(k / 3)) - mterm)
    a1, a0 = c(A1 / A), c(A0 / A)
    f = [c(x / 3) for x in F]
    um = c(d0 - c(v0 * h))
    f[0] = c(c(c(k * d0) + c(b * v0)) / 3)
    f = [c(x / A) for x in f]
    fm = c(c(c(k * um) + c(b * v0)) / c(3 * A))
    d = [d0, c(c(c(c(c(f[1] + f[0]) + fm) + c(a1 * d0))) + c(a0 * um))]
    for j in range(2, nt):
        d.append(c(c(c(c(f[j] + f[j - 1]) + f[j - 2]) + c(a1 * d[j - 1])) + c(a0 * d[j - 2])))
    de = c(c(c(3 * f[-1]) + c(a1 * d[-1])) + c(a0 * d[-2]))
    ext = [um] + d + [de]
    v = [v0] + [c(c(ext[j + 2] - ext[j]) / h2) for j in range(1, nt)]
    a = [c(c(c(ext[j + 2] - c(2 * ext[j + 1])) + ext[j]) / sqh) for j in range(nt)]
    # head-room: all values are multiples of one quantum 2^-Q and small against 2^53 quanta, so the sums are exact in ANY
    # order (a re-ordered but equivalent implementation gives the same bits)
    if ok[0] and not track[1] * 2 ** track[0] * 64 < 2**53:
        ok[0] = False
    return d, v, a, ok[0]


def _corr_exact(ctx):
    """EXACT tie on dyadic inputs: cases on which no floating-point operation rounds (decided by an independent rational
    evaluation, never by the implementation's output); there the Float model, the implementation and the rational
    history must agree bit for bit."""
    from fractions import Fraction as Fr

    rng = ctx.np_rng(1731)
    drv = ctx.driver("C17")
    kept, req = [], []
    for _ in range(ctx.pick(400, 3000)):
        spec = gen_exact(rng)
        n, nt, h = spec["n"], spec["nt"], spec["h"]
        F = np.array(spec["F"])
        ex = [_exact_history(spec["m"][i], spec["b"][i], spec["k"][i], h, F[i], spec["d0"][i], spec["v0"][i]) for i in range(n)]
        if not all(e[3] for e in ex):
            ctx.skip("exact: an intermediate value is not a double (mantissa overflow)")
            continue
        lines = _newmark_requests(spec)[1:]
        kept.append((spec, ex, len(req)))
        req += lines
    rep = drv.ask(req)
    for spec, ex, at in kept:
        n, nt = spec["n"], spec["nt"]
        impl = run_newmark(spec)
        key = json.dumps(spec, sort_keys=True)
        ctx.case(key, nontrivial=bool(np.any(impl.get("d", 0))), branch="newmark:exact-dyadic")
        if "error" in impl:
            ctx.disagree("newmark-exact", spec, impl["error"], "a history")
            continue
        for i in range(n):
            g = _parse_hist(rep[at + i], 1, nt)
            if isinstance(g, str):
                ctx.disagree("newmark-exact", spec, "history", g[:40])
                break
            bad = None
            for name, arr, exact in (("d", g[0][0], ex[i][0]), ("v", g[1][0], ex[i][1]), ("a", g[2][0], ex[i][2])):
                for j in range(nt):
                    vi, vm = float(impl[name][i, j]), float(arr[j])
                    if not (Fr(vi) == exact[j] and Fr(vm) == exact[j]):
                        bad = (name, j, vi, vm, float(exact[j]))
                        break
                if bad:
                    break
            if bad:
                ctx.disagree("newmark-exact-" + bad[0], spec, {bad[0]: bad[2], "at": [i, bad[1]], "exact": bad[4]}, {bad[0]: bad[3]})
                break


def correspondence(ctx):
    _corr_newmark(ctx)
    _corr_exact(ctx)
    _corr_cdf(ctx)
    _corr_halving(ctx)
    _corr_sequences(ctx)
    ctx.require_branches([
        "newmark:unc", "newmark:full", "newmark:massless", "newmark:m-none", "newmark:rigid-body", "newmark:rf",
        "newmark:nt=2", "newmark:nt=3", "newmark:nt=>3", "newmark:form=diagmat", "newmark:scalar-instance",
        "newmark:nonlin-cubic", "newmark:nonlin-gap", "newmark:nonlin-nasvel", "newmark:nonlin-index",
        "newmark:error:index-error", "cdf:SolveCDF", "cdf:SolveUnc-cdf", "cdf:order=0", "cdf:order=1",
        "cdf:nt=1", "cdf:nt=2", "cdf:rigid-body", "cdf:rf",
        # added with the extension: massless AND undamped rows, non-symmetric / Fortran-ordered damping, alpha computed
        # by the model, rf rows through the model, step-halving correspondence
        "newmark:massless-undamped", "newmark:rf-model", "newmark:step-halving", "cdf:step-halving",
        "cdf:alpha-from-model", "cdf:nonsymmetric-damping", "cdf:layout=F", "newmark:layout=F",
        # solver objects re-used (call sequences on one object)
        "newmark-seq", "newmark-seq:fresh-arrays", "newmark-seq:shared-array", "newmark-seq:inplace", "newmark-seq:same-dict",
        "newmark-seq:tsolve-only", "newmark-seq:clear", "newmark-seq:tsolve-only-first", "cdf:reused-solver",
        # second extension: exact (bitwise) dyadic stream, whole-tsolve model with the rf rows assembled, sol.z through the
        # model's zOut, two-output callbacks, callbacks with an rf partition, cdf acceleration and get_f2x through the model
        "newmark:exact-dyadic", "newmark:rf-assembled", "newmark:z-model", "newmark:nonlin-pair", "newmark:nonlin-with-rf",
        "cdf:accel-model", "cdf:f2x-model",
    ])


# ---------------------------------------------------------------------------------------
# model-free oracle


def _fam_form(spec):
    return "diag" if _is_diag(spec) else "full"


def oracle_newmark(ctx, spec, impl=None, report=None, suffix=""):
    """Documented equations evaluated in numpy on the history returned by the public API.

    `impl` (default: a fresh solver run on `spec`) is the history to judge; `report` the input recorded with a failure
    (a call sequence, when `spec` is only one of its phases); `suffix` is appended to the family."""
    if impl is None:
        impl = run_newmark(spec)
    rep = spec if report is None else report

    def fail(fam, what, observed, required):
        ctx.fail(fam + suffix, what, rep, observed, required)

    n, nt, h = spec["n"], spec["nt"], spec["h"]
    if "error" in impl:
        if nt >= 2:
            fail("newmark-raises-" + impl["error"], "tsolve raises on a valid input", impl["error"], "a history")
        return
    nonrf, rf = _parts(spec)
    form = _fam_form(spec)
    d, v, a = impl["d"], impl["v"], impl["a"]
    if not (np.all(np.isfinite(d)) and np.all(np.isfinite(v)) and np.all(np.isfinite(a))):
        if not spec.get("terms"):
            fam = "newmark-nonfinite-" + ("massless-" if "massless" in spec["tags"] else "") + form
            fail(fam, "non-finite values in the history of a linear system", "nan/inf", "finite history")
        return
    M, B, K = _mats(spec)
    Fall = np.array(spec["F"], float)
    if rf:
        Kr = K[np.ix_(rf, rf)]
        res = Kr @ d[rf] - Fall[rf]
        if np.abs(res).max() > 1e-9 * max(np.abs(Fall[rf]).max(), 1e-300) or np.any(v[rf]) or np.any(a[rf]):
            fail("newmark-rf-static-" + form, "rf rows are not the static solution k_rf d = F, v = a = 0", float(np.abs(res).max()), 0.0)
    if not nonrf:
        return
    if rf and spec.get("terms"):
        # nonlinear terms together with an rf partition: judged by oracle_nonlin_rf (regression guard for F63)
        return
    ix = np.ix_(nonrf, nonrf)
    M, B, K = M[ix], B[ix], K[ix]
    F = Fall[nonrf].copy()
    D, V, Ac = d[nonrf], v[nonrf], a[nonrf]
    nn = len(nonrf)
    d0 = np.zeros(nn) if spec["d0"] is None else np.array(spec["d0"], float)[nonrf]
    v0 = np.zeros(nn) if spec["v0"] is None else np.array(spec["v0"], float)[nonrf]
    A = M / h**2 + B / (2 * h) + K / 3
    A1 = 2 * M / h**2 - K / 3
    A0 = -M / h**2 + B / (2 * h) - K / 3
    um = d0 - h * v0
    Fm = K @ um + B @ v0
    F[:, 0] = K @ d0 + B @ v0
    # nonlinear terms straight from their definitions
    terms = spec.get("terms") or []
    N = np.zeros((nn, nt))
    Dext = np.column_stack([D, um])  # column -1 = u_{-1}
    for i, t in enumerate(terms):
        f = _zfun(t)
        for j in range(nt):
            z = np.asarray(f(Dext if j == 0 else D, j, h), float)
            zi = np.asarray(impl["z"]["t%d" % i][:, j], float)
            if z.shape != zi.shape or np.abs(z - zi).max() > 1e-9 * max(np.abs(z).max(), np.abs(zi).max(), 1e-300):
                fail("newmark-nonlin-z-" + KINDS[t["kind"]], "sol.z is not func(d, j, h) on the returned history", [j, zi.tolist()], z.tolist())
                return
            N[:, j] += np.array(t["T"], float).reshape(nn, -1) @ z
    scale = max(np.abs(A @ D).max(), np.abs(A @ um).max(), np.abs(A1 @ D).max(), np.abs(A0 @ D).max(), np.abs(F).max(), np.abs(N).max(), 1e-300)
    rtol = 2e-8

    def chk(fam, what, res, sc=scale):
        r = float(np.abs(res).max()) if np.size(res) else 0.0
        if not r <= rtol * sc:
            fail(fam + "-" + form + ("-nonlin" if terms else ""), what, r, "<= %.1e * %.3e" % (rtol, sc))
            return False
        return True

    # massless AND undamped rows of a diagonal system are solved quasi-statically: k d_j = F_j for j >= 1
    # (`massless_rows_quasistatic`; F_0 is replaced, so j = 0 keeps d0)
    if form == "diag" and not terms and nt >= 2:
        for r in range(nn):
            if M[r, r] == 0.0 and B[r, r] == 0.0 and K[r, r] != 0.0:
                ctx.count("oracle:massless-quasistatic-row")
                res = K[r, r] * D[r, 1:] - Fall[nonrf][r, 1:]
                sc = max(np.abs(Fall[nonrf][r]).max(), abs(K[r, r] * d0[r]), abs(K[r, r] * um[r]), 1e-300)
                if not np.abs(res).max() <= 1e-9 * sc:
                    fail("newmark-massless-undamped-row-not-quasistatic", "k d_j != F_j (j >= 1) on a row with m = b = 0", float(np.abs(res).max()), "<= 1e-9 * %.3e" % sc)
                    break
    if np.abs(D[:, 0] - d0).max() > 0 or np.abs(V[:, 0] - v0).max() > 0:
        fail("newmark-initial-conditions-" + form, "d[:,0], v[:,0] are not d0, v0", [D[:, 0].tolist(), V[:, 0].tolist()], [d0.tolist(), v0.tolist()])
    # start-up step
    chk("newmark-startup-step", "A u_1 != (F_1 + F_0' + F_-1)/3 + N_0 + A1 u_0 + A0 u_-1 (documented start-up)",
        A @ D[:, 1] - ((F[:, 1] + F[:, 0] + Fm) / 3 + N[:, 0] + A1 @ d0 + A0 @ um))
    # three-point recurrence
    if nt > 2:
        res = A @ D[:, 2:] - ((F[:, 2:] + F[:, 1:-1] + F[:, :-2]) / 3 + N[:, 1:-1] + A1 @ D[:, 1:-1] + A0 @ D[:, :-2])
        chk("newmark-recurrence-step", "A u_{n+2} != (F_{n+2}+F_{n+1}+F_n)/3 + N_{n+1} + A1 u_{n+1} + A0 u_n", res)
    # central differences
    sd = max(np.abs(D).max(), np.abs(um).max(), 1e-300)
    if nt > 2:
        chk("newmark-central-velocity", "v_n != (u_{n+1} - u_{n-1}) / 2h", V[:, 1:-1] - (D[:, 2:] - D[:, :-2]) / (2 * h), sd / h)
        chk("newmark-central-acceleration", "a_n != (u_{n+1} - 2u_n + u_{n-1}) / h^2",
            Ac[:, 1:-1] - (D[:, 2:] - 2 * D[:, 1:-1] + D[:, :-2]) / h**2, sd / h**2)
    chk("newmark-initial-acceleration", "a_0 != (u_1 - 2u_0 + u_-1) / h^2", Ac[:, 0] - (D[:, 1] - 2 * d0 + um) / h**2, sd / h**2)
    # last step: De recovered from the last velocity, must satisfy the recurrence with the extrapolated force
    De = D[:, -2] + 2 * h * V[:, -1]
    chk("newmark-last-acceleration", "a_last inconsistent with v_last (same extrapolated displacement)",
        Ac[:, -1] - (De - 2 * D[:, -1] + D[:, -2]) / h**2, max(sd, np.abs(De).max()) / h**2)
    Fe = 2 * F[:, -1] - F[:, -2]
    chk("newmark-last-step-extrapolation", "extra step does not use the linearly extrapolated force",
        A @ De - ((Fe + F[:, -1] + F[:, -2]) / 3 + N[:, -1] + A1 @ D[:, -1] + A0 @ D[:, -2]),
        max(scale, np.abs(A @ De).max()))


def oracle_cdf(ctx, spec):
    """SolveCDF == SolveUnc for diagonal damping; documented implicit equations otherwise; EOM for `a`."""
    n, nt, h = spec["n"], spec["nt"], spec["h"]
    nonrf, rf = _parts(spec)
    Bfull = np.array(spec["b"], float)
    bd = np.diag(np.diag(Bfull))
    # (a) diagonal damping: identical to SolveUnc
    for form, bmat in (("matrix", bd), ("vector", np.diag(Bfull).copy())):
        _, s1 = run_cdf(spec, "SolveCDF", bmat)
        _, s2 = run_cdf(spec, "SolveUnc", bmat)
        for name in "dva":
            sc = max(np.abs(s2[name]).max(), 1e-300)
            if not np.abs(s1[name] - s2[name]).max() <= 1e-12 * sc:
                ctx.fail("cdf-vs-unc-diagonal-damping-" + form, "SolveCDF differs from SolveUnc with diagonal damping (%s)" % name,
                         spec, float(np.abs(s1[name] - s2[name]).max()), 0.0)
                return
    if not (Bfull - bd).any():
        return
    # (a') solver objects are re-used
    if nt >= 2:
        for cls in ("SolveCDF", "SolveUnc-cdf"):
            bad = cdf_reuse(spec, cls)
            if bad:
                ctx.fail("cdf-reused-solver-differs-from-fresh", "a cd-as-force solver object gives another history when it is used again: " + bad[0],
                         spec, bad[1], "<= 1e-12 * %.3e" % bad[2])
                return
    # (b) coupled damping: documented equations (1), (2) with the instance's diagonal coefficients
    for cls in ("SolveCDF", "SolveUnc-cdf"):
        ts, s = run_cdf(spec, cls)
        if not getattr(ts, "cdforces", False):
            ctx.fail("cdf-not-engaged", cls + " does not use the cd-as-force solver for coupled damping", spec, False, True)
            return
        pc = ts.pc
        P = np.array(spec["F"], float)[nonrf]
        D, V, Ac = s["d"][nonrf], s["v"][nonrf], s["a"][nonrf]
        nn = len(nonrf)
        Cod = Bfull[np.ix_(nonrf, nonrf)].copy()
        Cod[np.arange(nn), np.arange(nn)] = 0
        c = lambda x: x[:, None]
        if nt >= 2:
            R0 = P[:, :-1] - Cod @ V[:, :-1]
            R1 = (P[:, 1:] if spec["order"] == 1 else P[:, :-1]) - Cod @ V[:, 1:]
            q = c(pc.F) * D[:, :-1] + c(pc.G) * V[:, :-1] + c(pc.A) * R0 + c(pc.B) * R1
            qd = c(pc.Fp) * D[:, :-1] + c(pc.Gp) * V[:, :-1] + c(pc.Ap) * R0 + c(pc.Bp) * R1
            sd = max(np.abs(D).max(), 1e-300)
            sv = max(np.abs(V).max(), 1e-3 * sd / h)
            if not np.abs(D[:, 1:] - q).max() <= 1e-8 * sd:
                ctx.fail("cdf-implicit-displacement-order%d" % spec["order"], "q_{i+1} != F q + G v + A (P_i - Cod v_i) + B (P_{i+1} - Cod v_{i+1})",
                         spec, float(np.abs(D[:, 1:] - q).max()), "<= 1e-8 * %.3e" % sd)
            if not np.abs(V[:, 1:] - qd).max() <= 1e-8 * sv:
                ctx.fail("cdf-implicit-velocity-order%d" % spec["order"], "v_{i+1} != Fp q + Gp v + Ap (P_i - Cod v_i) + Bp (P_{i+1} - Cod v_{i+1})",
                         spec, float(np.abs(V[:, 1:] - qd).max()), "<= 1e-8 * %.3e" % sv)
        # the whole history is SolveUnc's (diagonal damping) for the force P - C_od v, v the returned velocities, taken
        # linearly over each step (`cdf_run_is_unc_with_damping_force`); order 0 holds P but still interpolates C_od v
        if nt >= 2:
            Q = np.zeros((n, nt))
            Q[nonrf] = Cod @ V
            Pfull = np.array(spec["F"], float)
            if spec["order"] == 1:
                _, u1 = run_cdf(dict(spec, order=1), "SolveUnc", bd)
                _, u2 = run_cdf(dict(spec, order=1, F=(-Q).tolist(), d0=None, v0=None), "SolveUnc", bd)
            else:
                _, u1 = run_cdf(dict(spec, order=0), "SolveUnc", bd)
                _, u2 = run_cdf(dict(spec, order=1, F=(-Q).tolist(), d0=None, v0=None), "SolveUnc", bd)
            for name, sc in (("d", max(np.abs(D).max(), 1e-300)), ("v", max(np.abs(V).max(), 1e-3 * np.abs(D).max() / h, 1e-300))):
                want = (u1[name] + u2[name])[nonrf]
                scl = max(sc, float(np.abs(u1[name][nonrf]).max()), float(np.abs(u2[name][nonrf]).max()))
                if not np.abs(s[name][nonrf] - want).max() <= 1e-8 * scl:
                    ctx.fail("cdf-not-solveunc-with-interpolated-damping-force-order%d" % spec["order"],
                             "cd-as-force history (%s) differs from SolveUnc driven by P - C_od v (linear over each step)" % name,
                             spec, float(np.abs(s[name][nonrf] - want).max()), "<= 1e-8 * %.3e" % scl)
                    break
        # equation of motion defines the acceleration
        m = np.ones(nn) if spec["m"] is None else np.array(spec["m"], float)[nonrf]
        k = np.array(spec["k"], float)[nonrf]
        Bn = Bfull[np.ix_(nonrf, nonrf)]
        terms = [c(m) * Ac, Bn @ V, c(k) * D, P]
        res = terms[0] + terms[1] + terms[2] - terms[3]
        sc = max(max(np.abs(t).max() for t in terms), 1e-300)
        if not np.abs(res).max() <= 1e-9 * sc:
            ctx.fail("cdf-eom-acceleration", "M a + C v + K d != P on the returned history", spec, float(np.abs(res).max()), 0.0)
        if rf:
            kr = np.array(spec["k"], float)[rf]
            Pr = np.array(spec["F"], float)[rf]
            if not np.abs(kr[:, None] * s["d"][rf] - Pr).max() <= 1e-9 * max(np.abs(Pr).max(), 1e-300):
                ctx.fail("cdf-rf-static", "rf rows are not solved statically", spec, "k d != P", "k d = P")


def _exact(M, B, K, ffun, d0, v0, T, nref=160):
    """reference displacements at the nref + 1 coarse grid times (n x (nref + 1))"""
    from scipy.integrate import solve_ivp

    n = len(d0)
    Mi = np.linalg.inv(M)

    def rhs(t, y):
        return np.concatenate([y[n:], Mi @ (ffun(t) - B @ y[n:] - K @ y[:n])])

    s = solve_ivp(rhs, (0, T), np.concatenate([d0, v0]), method="DOP853", rtol=1e-11, atol=1e-13,
                  t_eval=np.linspace(0, T, nref + 1))
    return s.y[:n]


def _order_verdict(errs, floor, need):
    """overall observed order between the coarsest and the finest step; None when at the reference floor"""
    if errs[-1] <= floor:
        return None, True
    order = math.log2(max(errs[0], 1e-300) / max(errs[-1], 1e-300)) / (len(errs) - 1)
    return order, (errs[-1] < errs[0] and order >= need)


def oracle_cdf_entry(ctx, rng):
    """`SolveCDF(m, b, k, h, ...)` is documented as `SolveUnc(..., cd_as_force=True)`: the class must hand every
    constructor option on (rb, rf, order, pre_eig).  Physical (coupled, symmetric) m and k with pre_eig=True is the
    case in which a dropped option changes the equations that are solved."""
    n = int(rng.integers(3, 6))
    X = rng.standard_normal((n, n))
    M = X @ X.T / n + np.eye(n)
    Q = np.linalg.qr(rng.standard_normal((n, n)))[0]
    h = 0.01
    w = rng.uniform(0.4, 3.0, n) / h / 8
    K = Q @ np.diag(w * w) @ Q.T
    K = (K + K.T) / 2
    Z = rng.standard_normal((n, n))
    B = Z @ Z.T / n * 0.05 * float(w.mean())
    nt = int(rng.integers(4, 12))
    F = rng.standard_normal((n, nt))
    for order in (0, 1):
        for kw in (dict(pre_eig=True), dict(pre_eig=True, rf=[n - 1]), dict(pre_eig=False)):
            spec = {"solver": "cdf-entry", "m": M.tolist(), "b": B.tolist(), "k": K.tolist(), "h": h, "order": order,
                    "opts": {k_: (v if not isinstance(v, list) else list(v)) for k_, v in kw.items()}, "F": F.tolist()}
            ctx.count("oracle:cdf-entry:" + "+".join(sorted(k_ for k_, v in kw.items() if v)))
            if _cdf_entry_check(ctx, spec):
                return


def _cdf_entry_check(ctx, spec):
    from pyyeti import ode
    M, B, K, F = (np.array(spec[x], float) for x in ("m", "b", "k", "F"))
    h, order, kw = spec["h"], spec["order"], dict(spec["opts"])
    try:
        with warnings.catch_warnings():
            warnings.simplefilter("ignore")
            a = ode.SolveCDF(M, B, K, h, order=order, **kw).tsolve(F)
            b_ = ode.SolveUnc(M, B, K, h, order=order, cd_as_force=True, **kw).tsolve(F)
    except Exception as e:  # noqa: BLE001
        ctx.fail("cdf-entry-raises", "SolveCDF / SolveUnc(cd_as_force=True) refuses a valid system", spec, repr(e)[:150], "a history")
        return True
    for nm in "dva":
        x, y = getattr(a, nm), getattr(b_, nm)
        sc = max(float(np.abs(y).max()), 1e-300)
        if x.shape != y.shape or not float(np.abs(x - y).max()) <= 1e-12 * sc:
            ctx.fail("cdf-entry-differs-from-solveunc-cd-as-force",
                     "SolveCDF(%s) is not SolveUnc(cd_as_force=True, %s): %s differs" % (kw, kw, nm), spec,
                     float(np.abs(x - y).max() / sc), "<= 1e-12")
            return True
    return False


def oracle_convergence(ctx, rng, balanced, solver):
    """Step-halving study on a small damped system with a smooth force."""
    from pyyeti import ode

    n = int(rng.integers(1, 4))
    w = 2 * np.pi * rng.uniform(0.5, 3.0, n)
    m = rng.uniform(0.5, 2.0, n)
    zeta = rng.uniform(0.01, 0.3, n)
    k = m * w * w
    b = 2 * zeta * m * w
    if solver == "newmark" and rng.random() < 0.5:
        Q = np.eye(n) + 0.3 * rng.standard_normal((n, n))
        M, B, K = Q.T @ np.diag(m) @ Q, Q.T @ np.diag(b) @ Q, Q.T @ np.diag(k) @ Q
        args = (M, B, K)
    elif solver == "newmark":
        M, B, K = np.diag(m), np.diag(b), np.diag(k)
        args = (m, b, k)
    else:
        R = rng.standard_normal((n, n))
        off = 0.3 * np.sqrt(np.outer(b, b)) * (R + R.T) / 2
        off[np.arange(n), np.arange(n)] = 0
        M, B, K = np.diag(m), np.diag(b) + off, np.diag(k)
        args = (m, B, k)
    d0 = rng.standard_normal(n)
    v0 = rng.standard_normal(n) * w
    fw = 2 * np.pi * rng.uniform(0.3, 1.5)
    f1 = rng.standard_normal(n) * k
    ph = rng.uniform(0, 6)
    base = K @ d0 + B @ v0 if balanced else K @ d0 + B @ v0 + rng.choice([-1, 1], n) * rng.uniform(0.5, 2.0, n) * k * (1 + np.abs(d0))
    ffun = lambda t: base + f1 * (np.sin(fw * t + ph) - np.sin(ph))
    T = 1.0
    ref_d = _exact(M, B, K, ffun, d0, v0, T)
    errs = []
    hs = [T / 160, T / 320, T / 640]
    for stride, h in zip((1, 2, 4), hs):
        nt = int(round(T / h)) + 1
        t = np.arange(nt) * h
        F = np.array([ffun(tt) for tt in t]).T
        if solver == "newmark":
            sol = ode.SolveNewmark(*args, h).tsolve(F, d0, v0)
        else:
            sol = ode.SolveCDF(*args, h).tsolve(F, d0, v0)
        errs.append(float(np.abs(sol.d[:, ::stride] - ref_d).max()))
    spec = {"solver": solver + "-convergence", "balanced": bool(balanced), "m": M.tolist(), "b": B.tolist(), "k": K.tolist(),
            "d0": d0.tolist(), "v0": v0.tolist(), "base": base.tolist(), "f1": f1.tolist(), "fw": fw, "ph": ph, "hs": hs}
    scale = max(np.abs(ref_d).max(), 1e-12)
    orders = [math.log2(max(errs[i], 1e-300) / max(errs[i + 1], 1e-300)) for i in range(2)]
    need = 1.6 if (balanced or solver == "cdf") else 0.75
    overall, ok = _order_verdict(errs, 1e-9 * scale, need)
    ctx.extra.setdefault("observed_orders", []).append(
        {"solver": solver, "balanced": bool(balanced), "errors": errs, "orders": [round(o, 3) for o in orders]})
    if not ok:
        fam = "%s-order-below-%s-%s" % (solver, "2" if need > 1 else "1", "balanced-start" if balanced else "unbalanced-start")
        ctx.fail(fam, "max-over-time error against the exact solution does not shrink at the documented rate when h is halved",
                 spec, {"errors": errs, "overall_order": overall}, "overall order >= %.2f" % need)
    return spec, orders
    need = 1.5 if (balanced or solver == "cdf") else 0.7
    if not (errs[2] < errs[0]) or min(orders) < need:
        fam = "%s-order-below-%s-%s" % (solver, "2" if need > 1 else "1", "balanced-start" if balanced else "unbalanced-start")
        ctx.fail(fam, "error against the exact solution does not shrink at the documented rate when h is halved", spec,
                 {"errors": errs, "orders": orders}, "orders >= %.1f" % need)
    return spec, orders


def oracle_bounded(ctx, rng):
    """Homogeneous response of a damped system stays bounded for a (very) large step."""
    from pyyeti import ode

    n = int(rng.integers(1, 5))
    w = 2 * np.pi * 10 ** rng.uniform(-1, 1, n)
    m = 10 ** rng.uniform(-1, 1, n)
    massless = rng.random() < 0.4
    if massless:
        m[int(rng.integers(0, n))] = 0.0
    zeta = 10 ** rng.uniform(-2, 0.5, n)
    k = np.where(m > 0, m, 1.0) * w * w
    b = 2 * zeta * np.where(m > 0, m, 1.0) * w
    h = float(10 ** rng.uniform(-0.5, 3) / w.max())
    full = rng.random() < 0.5
    if full:
        Q = np.linalg.qr(rng.standard_normal((n, n)))[0]
        args = (Q.T @ np.diag(m) @ Q, Q.T @ np.diag(b) @ Q, Q.T @ np.diag(k) @ Q)
    else:
        args = (m, b, k)
    d0 = rng.standard_normal(n)
    v0 = rng.standard_normal(n) * w
    nt = 1500
    sol = ode.SolveNewmark(*args, h).tsolve(np.zeros((n, nt)), d0, v0)
    spec = {"solver": "newmark-bounded", "m": np.array(args[0]).tolist(), "b": np.array(args[1]).tolist(),
            "k": np.array(args[2]).tolist(), "h": h, "d0": d0.tolist(), "v0": v0.tolist(), "nt": nt}
    _bounded_verdict(ctx, spec, sol.d)
    return spec


def _bounded_verdict(ctx, spec, d):
    """generous physical bound on the homogeneous response: 50 (|d0| + |v0| (h + 2 m/b + b/k + sqrt(m/k)))"""
    full = lambda x: x if x.ndim == 2 else np.diag(x)
    M, B, K = (full(np.array(spec[x], float)) for x in "mbk")
    m, b, k = (np.linalg.eigvalsh((X + X.T) / 2) for X in (M, B, K))
    d0, v0 = np.array(spec["d0"], float), np.array(spec["v0"], float)
    tconst = spec["h"] + 2 * m.max() / b.min() + b.max() / k.min() + np.sqrt(max(m.max(), 0.0) / k.min())
    bound = 50.0 * (np.abs(d0).max() + np.abs(v0).max() * tconst)
    big = float(np.abs(d).max()) if np.all(np.isfinite(d)) else float("inf")
    isfull = np.count_nonzero(K - np.diag(np.diag(K))) > 0
    if not big <= bound:
        fam = "newmark-unbounded-large-h-%s%s" % ("full" if isfull else "diag", "-massless" if m.min() < 1e-12 * max(m.max(), 1e-300) else "")
        ctx.fail(fam, "homogeneous response of a damped system grows for a large step", spec, big, "<= %.3e" % bound)
        return
    # discrete energy E_n = (1/h^2) <M dd, dd> + (1/3)(<K x, x> + <K x, y> + <K y, y>), x = d_{n+1}, y = d_n, dd = x - y:
    # non-increasing along the free response from the second pair on (`newmark_stable_full`,
    # `newmark_free_response_bounded`; the first two steps still see the replaced F_0 and F_-1)
    h = spec["h"]
    Ms, Ks = (M + M.T) / 2, (K + K.T) / 2
    x, y = d[:, 2:], d[:, 1:-1]
    dd = x - y
    E = np.einsum("it,it->t", Ms @ dd, dd) / h**2 + (np.einsum("it,it->t", Ks @ x, x) + np.einsum("it,it->t", Ks @ x, y)
                                                      + np.einsum("it,it->t", Ks @ y, y)) / 3
    if E.size >= 2:
        inc = float((E[1:] - E[:-1]).max())
        if not inc <= 1e-9 * max(float(E[0]), 1e-300):
            ctx.fail("newmark-energy-grows-%s" % ("full" if isfull else "diag"),
                     "the discrete energy of the free response of a symmetric positive semidefinite system increases",
                     spec, inc, "<= 1e-9 * E_1 = %.3e" % (1e-9 * float(E[0])))


def oracle_newmark_seq(ctx, spec):
    """Call sequence on ONE solver object: every tsolve must satisfy the documented equations for the definition in
    force at that time, equal what a fresh object returns, and leave the caller's arrays alone."""
    res = run_newmark_seq(spec)
    for ip, (ph, r) in enumerate(zip(spec["phases"], res)):
        pspec = _phase_spec(spec, ph)
        before = len(ctx.failures)
        if "mutated" in r and r["mutated"]:
            ctx.fail("newmark-caller-array-modified-" + "-".join(sorted(set(x.rstrip("0123456789") for x in r["mutated"]))),
                     "tsolve / def_nonlin changed an array owned by the caller", spec, {"phase": ip, "mutated": r["mutated"]}, "unchanged")
        oracle_newmark(ctx, pspec, impl=r, report=spec, suffix="-reused-solver-after-" + ph["how"])
        finite = lambda x: all(np.all(np.isfinite(x[nm])) for nm in "dva")
        if "error" not in r and finite(r) and not (ph["terms"] and float(np.abs(r["d"]).max()) > 1e8):
            fresh = run_newmark(pspec)
            if "error" not in fresh and finite(fresh):
                sd = max(float(np.abs(fresh["d"]).max()), 1e-300)
                for name, sc in (("d", sd), ("v", sd / spec["h"]), ("a", sd / spec["h"] ** 2)):
                    dif = float(np.abs(r[name] - fresh[name]).max())
                    if not dif <= 1e-9 * max(sc, float(np.abs(fresh[name]).max())):
                        ctx.fail("newmark-reused-solver-differs-from-fresh-after-" + ph["how"],
                                 "phase %d of a call sequence on one solver object differs from a fresh object given the same definition (%s)" % (ip, name),
                                 spec, dif, "<= 1e-9 * %.3e" % sc)
                        break
        if len(ctx.failures) > before:
            return



# ---------------------------------------------------------------------------------------
# oracles added with the second extension (all on the public API, never through the Lean model)


def _analytic(spec):
    """scalar test problem with a closed-form solution u = al sin(w t) + be cos(w t) + c0 + c1 t, f = m u'' + b u' + k u"""
    m, b, k, al, be, c0, c1, w = (spec[x] for x in ("m", "b", "k", "al", "be", "c0", "c1", "w"))
    u = lambda t: al * np.sin(w * t) + be * np.cos(w * t) + c0 + c1 * t
    u1 = lambda t: w * (al * np.cos(w * t) - be * np.sin(w * t)) + c1
    u2 = lambda t: -w * w * (al * np.sin(w * t) + be * np.cos(w * t))
    f = lambda t: m * u2(t) + b * u1(t) + k * u(t)
    amp = abs(al) + abs(be)
    return u, u1, u2, f, w**3 * amp, w**4 * amp, m * w**4 * amp + b * w**3 * amp + k * w * w * amp


def oracle_proved_bounds(ctx, spec):
    """The explicit error bounds of newmark_converges_scalar / newmark_velocity_converges_scalar /
    newmark_accel_converges_scalar / newmark_initial_accel_error_scalar / newmark_last_step_converges_scalar evaluated in
    numpy for a problem with a closed-form solution: the REAL code's errors must lie below them (a bound that is not met
    means the code no longer is the scheme the theorems are about), and v_0 must be the given initial velocity."""
    from pyyeti import ode

    m, b, k, T = spec["m"], spec["b"], spec["k"], spec["T"]
    u, u1, u2, f, M3, M4, MF = _analytic(spec)
    mu, rho = math.sqrt(m), math.sqrt(m + k * T * T / 3)
    E1 = (b * T / 12 + m / 6) * rho / m**2 + 1 / (3 * mu)
    E2 = (m * M3 / 2 + b * M3 * T / 4) * rho / m + T * (5 * m * M4 / 12 + b * M3 / 2) / mu
    delta = abs(f(0.0) - (k * u(0.0) + b * u1(0.0)))
    for h in spec["hs"]:
        n = int(math.floor(T / h + 1e-9)) - 2  # nt = n + 2 steps, (n + 2) h <= T
        if n < 1:
            continue
        nt = n + 2
        t = np.arange(nt) * h
        sol = ode.SolveNewmark(np.array([m]), np.array([b]), np.array([k]), h).tsolve(f(t)[None, :], np.array([u(0.0)]), np.array([u1(0.0)]))
        d, v, a = sol.d[0], sol.v[0], sol.a[0]
        R = E1 * delta * h + E2 * h * h
        Ct = 5 * m * M4 / 12 + b * M3 / 2
        Cg = Ct + MF / 3
        Rp = R + h * (Cg * h * h) / mu
        slack = 1e-9 * max(np.abs(d).max(), 1e-300)
        checks = [
            ("displacement", np.abs(d - u(t)).max(), T / mu * R),
            ("velocity-interior", np.abs(v[1:-1] - u1(t[1:-1])).max() if nt > 2 else 0.0, R / mu + M3 * h * h / 6),
            ("velocity-last", abs(v[-1] - u1(t[-1])), (Rp + R) / (2 * mu) + M3 * h * h / 6),
            ("acceleration-first-interior", abs(a[1] - u2(t[1])), (Ct * h * h + delta / 3 + (b + k * T) * R / mu) / m + M4 * h * h / 12),
            ("acceleration-interior", np.abs(a[2:-1] - u2(t[2:-1])).max() if nt > 3 else 0.0, (Ct * h * h + (b + k * T) * R / mu) / m + M4 * h * h / 12),
            ("acceleration-last", abs(a[-1] - u2(t[-1])), (Cg * h * h + b * (Rp + R) / (2 * mu) + k * (T / mu * R + h / mu * Rp)) / m + M4 * h * h / 12),
            ("acceleration-initial", abs(a[0] - u2(0.0)), abs(u2(0.0)) * (0.5 + abs(b * h / 12 - m / 6) / m) + (2 / 3 * M3 * h + b * M3 * h * h / (4 * m))),
        ]
        if v[0] != u1(0.0):
            ctx.fail("newmark-initial-velocity-not-v0", "v[:, 0] is not the given initial velocity", spec, float(v[0]), float(u1(0.0)))
            return
        for name, err, bound in checks:
            ctx.count("oracle:proved-bound-" + name)
            if not err <= bound * (1 + 1e-9) + slack / (h * h if name.startswith("acc") else (h if name.startswith("vel") else 1.0)):
                ctx.fail("newmark-exceeds-proved-bound-" + name, "the error of the real code exceeds the bound proved for the documented scheme",
                         dict(spec, h_failed=h), float(err), "<= %.6e" % bound)
                return


def gen_analytic(rng, balanced):
    m = float(rng.uniform(0.5, 2.0))
    w0 = 2 * np.pi * rng.uniform(0.5, 2.0)
    k = m * w0 * w0
    b = 2 * float(rng.uniform(0.0, 0.3)) * m * w0
    w = float(2 * np.pi * rng.uniform(0.3, 1.5))
    al, be, c0, c1 = (float(x) for x in rng.standard_normal(4))
    if balanced:
        al, be = float(rng.standard_normal()) , 0.0  # u''(0) = -w^2 be = 0: F(0) = k u0 + b v0
    return {"solver": "newmark-proved-bounds", "m": m, "b": b, "k": float(k), "al": al, "be": be, "c0": c0, "c1": c1, "w": w, "T": 1.0,
            "balanced": bool(balanced), "hs": [1.0 / 50, 1.0 / 200]}


def oracle_va_orders(ctx, spec):
    """Observed orders of the returned velocities and accelerations (scalar closed-form problem), balanced start-up: second
    order in the interior AND over the last tenth of the record incl. the end point (the end point uses the extrapolated
    step, not a one-sided difference), first order for a_0.  Unbalanced runs are recorded, not judged."""
    from pyyeti import ode

    m, b, k, T = spec["m"], spec["b"], spec["k"], spec["T"]
    u, u1, u2, f, M3, M4, MF = _analytic(spec)
    errs = {"v-interior": [], "v-last": [], "a-interior": [], "a-last": [], "a-initial": []}
    hs = [T / 80, T / 160, T / 320]
    for h in hs:
        nt = int(round(T / h)) + 1
        t = np.arange(nt) * h
        sol = ode.SolveNewmark(np.array([m]), np.array([b]), np.array([k]), h).tsolve(f(t)[None, :], np.array([u(0.0)]), np.array([u1(0.0)]))
        v, a = sol.v[0], sol.a[0]
        errs["v-interior"].append(float(np.abs(v[1:-1] - u1(t[1:-1])).max()))
        w = max(nt // 10, 2)  # the last tenth of the record, end point included (a single instant is not monotone in h)
        errs["v-last"].append(float(np.abs(v[-w:] - u1(t[-w:])).max()))
        errs["a-interior"].append(float(np.abs(a[2:-1] - u2(t[2:-1])).max()))
        errs["a-last"].append(float(np.abs(a[-w:] - u2(t[-w:])).max()))
        errs["a-initial"].append(float(abs(a[0] - u2(0.0))))
    bal = spec["balanced"]
    # unbalanced start-up: the first-order error component oscillates in time, so the error at ONE instant (the last step)
    # is not monotone in h; only the maxima over time are judged there
    # (unbalanced runs are recorded only: near t = 0 the first-order component is not monotone in h at these step sizes;
    # they are judged quantitatively by oracle_proved_bounds)
    need = {"v-interior": 1.6 if bal else None, "v-last": 1.6 if bal else None, "a-interior": 1.6 if bal else None,
            "a-last": 1.6 if bal else None, "a-initial": 0.5 if bal else None}
    scale = {"v": max(abs(u1(0.0)), spec["w"] * (abs(spec["al"]) + abs(spec["be"])), 1e-12),
             "a": max(spec["w"] ** 2 * (abs(spec["al"]) + abs(spec["be"])), 1e-12)}
    row = {"balanced": bal}
    for name, e in errs.items():
        ctx.count("oracle:va-order-" + name)
        row[name] = [round(math.log2(max(e[i], 1e-300) / max(e[i + 1], 1e-300)), 3) for i in range(2)]
        if need[name] is None:
            continue
        order, ok = _order_verdict(e, 1e-8 * scale[name[0]], need[name])
        if not ok:
            ctx.fail("newmark-%s-order-below-%s-%s" % (name, "2" if need[name] > 1 else "1", "balanced-start" if bal else "unbalanced-start"),
                     "the error of the returned %s does not shrink at the proved rate when h is halved" % name,
                     dict(spec, hs=hs), {"errors": e, "overall_order": order}, "overall order >= %.2f" % need[name])
            return
    ctx.extra.setdefault("observed_orders_va", []).append(row)


def oracle_initial_accel_defect(ctx, spec):
    """newmark_initial_accel_defect on the API: on u = c0 + c1 t + c2 t^2 with the matching force the first returned
    acceleration satisfies A h^2 (a_0 - 2 c2) = -c2 (4 m + b h + k h^2) / 3."""
    from pyyeti import ode

    m, b, k, h, c0, c1, c2 = (spec[x] for x in ("m", "b", "k", "h", "c0", "c1", "c2"))
    t = np.arange(4) * h
    uq = c0 + c1 * t + c2 * t * t
    f = m * 2 * c2 + b * (c1 + 2 * c2 * t) + k * uq
    sol = ode.SolveNewmark(np.array([m]), np.array([b]), np.array([k]), h).tsolve(f[None, :], np.array([c0]), np.array([c1]))
    A = m / h**2 + b / (2 * h) + k / 3
    lhs = A * h * h * (sol.a[0, 0] - 2 * c2)
    rhs = -c2 * (4 * m + b * h + k * h * h) / 3
    ctx.count("oracle:initial-accel-defect")
    sc = max(abs(rhs), abs(A * h * h * 2 * c2), A * h * h * abs(sol.a[0, 0]), 1e-300)
    if not abs(lhs - rhs) <= 1e-9 * sc:
        ctx.fail("newmark-initial-acceleration-not-central-difference-with-u-minus-1",
                 "a_0 on a quadratic solution is not (d_1 - 2 d_0 + u_-1) / h^2 of the documented start-up", spec, float(lhs), float(rhs))


def oracle_modal(ctx, spec):
    """newmark_modal_decomposition on the API: M = Psi diag(m) Phi^-1 etc.; SolveNewmark(M, B, K) with d0 = Phi q0,
    v0 = Phi p0, F = Psi phi equals Phi applied to the scalar runs, mode by mode."""
    from pyyeti import ode

    mm, bb, kk = (np.array(spec[x], float) for x in ("mm", "bb", "kk"))
    Phi = np.array(spec["Phi"], float)
    h, nt = spec["h"], spec["nt"]
    Psi = np.linalg.inv(Phi).T  # symmetric case: M = Psi diag(m) Psi^T
    Pi = np.linalg.inv(Phi)
    M, B, K = Psi @ np.diag(mm) @ Pi, Psi @ np.diag(bb) @ Pi, Psi @ np.diag(kk) @ Pi
    q0, p0 = np.array(spec["q0"], float), np.array(spec["p0"], float)
    phi = np.array(spec["phi"], float)
    full = ode.SolveNewmark(M, B, K, h).tsolve(Psi @ phi, Phi @ q0, Phi @ p0)
    ctx.count("oracle:modal-decomposition")
    if getattr(ode.SolveNewmark(M, B, K, h), "unc", False):
        return
    modal = ode.SolveNewmark(mm, bb, kk, h).tsolve(phi, q0, p0)
    for name in "dva":
        want = Phi @ getattr(modal, name)
        got = getattr(full, name)
        sc = max(float(np.abs(want).max()), 1e-300)
        if not np.abs(got - want).max() <= 1e-7 * sc * max(1.0, np.linalg.cond(Phi)):
            ctx.fail("newmark-coupled-run-is-not-modal-superposition", "SolveNewmark on modally damped full matrices differs from Phi times the scalar runs (%s)" % name,
                     spec, float(np.abs(got - want).max()), "<= 1e-7 * %.3e" % sc)
            return


def gen_modal(rng):
    n = int(rng.integers(2, 5))
    h = float(10 ** rng.uniform(-2.5, -0.5))
    w = 10 ** rng.uniform(-1, 0.5, n) / h
    mm = 10 ** rng.uniform(-0.5, 0.5, n)
    zeta = rng.choice([0.0, 0.02, 0.3, 1.0], n)
    Phi = np.eye(n) + 0.3 * rng.standard_normal((n, n))
    nt = int(rng.integers(3, 30))
    return {"solver": "newmark-modal", "mm": mm.tolist(), "bb": (2 * zeta * mm * w).tolist(), "kk": (mm * w * w).tolist(),
            "Phi": Phi.tolist(), "h": h, "nt": nt, "q0": rng.standard_normal(n).tolist(), "p0": (rng.standard_normal(n) * w).tolist(),
            "phi": (rng.standard_normal((n, nt)) * (mm * w * w)[:, None]).tolist()}


def oracle_cdf_f2x(ctx, spec):
    """cdf_f2x_is_step_sensitivity on the API: get_f2x(phi) @ fx is the change of phi @ d[:, 1] (velo: of phi @ v[:, 1]) when
    phi.T @ fx is added to the force at the end of the first step (order 1)."""
    from pyyeti import ode

    if spec["order"] != 1 or spec["nt"] < 2:
        return
    rng = np.random.default_rng(spec["n"] * 7919 + spec["nt"])
    n = spec["n"]
    r = 2
    phi = rng.standard_normal((r, n))
    fx = rng.standard_normal(r)
    ts, s0 = run_cdf(spec, "SolveCDF")
    if not getattr(ts, "cdforces", False):
        return
    F = np.array(spec["F"], float)
    scale_f = max(float(np.abs(F).max()), 1.0)
    F2 = F.copy()
    F2[:, 1] += phi.T @ fx * scale_f
    _, s1 = run_cdf(dict(spec, F=F2.tolist()), "SolveCDF")
    ctx.count("oracle:cdf-f2x")
    for velo, name in ((False, "d"), (True, "v")):
        flex = np.array(ts.get_f2x(phi, velo))
        want = phi @ (s1[name][:, 1] - s0[name][:, 1])
        got = flex @ fx * scale_f
        sc = max(float(np.abs(want).max()), float(np.abs(got).max()), 1e-9 * float(np.abs(phi @ s0[name][:, 1]).max()), 1e-300)
        if not np.abs(got - want).max() <= 1e-6 * sc:
            ctx.fail("cdf-f2x-is-not-the-step-sensitivity-" + ("velo" if velo else "disp"),
                     "get_f2x(phi) @ f differs from the change of the first step when phi.T f is added to P_1", spec,
                     float(np.abs(got - want).max()), "<= 1e-6 * %.3e" % sc)
            return


def oracle_cdf_two_dof(ctx, spec):
    """cdf_stable_two_dof on the API: two identical DOF with k = 0, diagonal damping b, coupled by C_od = [[0, c], [c, 0]],
    zero force: the combinations v1 + v2 and v1 - v2 are multiplied per step by (Gp - Ap c)/(1 + Bp c) and
    (Gp + Ap c)/(1 - Bp c); the coefficients satisfy the hypotheses of the theorem (0 <= Ap <= Bp, (Ap + Bp) b = 1 - Gp,
    0 < Gp < 1), so |c| < b decays and c >= b does not."""
    from pyyeti import ode

    m, b, c, h, nt = (spec[x] for x in ("m", "b", "c", "h", "nt"))
    ts = ode.SolveCDF(np.array([m, m]), np.array([[b, c], [c, b]]), np.zeros(2), h)
    ctx.count("oracle:cdf-two-dof")
    if not getattr(ts, "cdforces", False):
        ctx.fail("cdf-not-engaged", "SolveCDF does not use the cd-as-force solver for coupled damping", spec, False, True)
        return
    pc = ts.pc
    Gp, Ap, Bp = float(pc.Gp[0]), float(pc.Ap[0]), float(pc.Bp[0])
    hyp = (0 < Gp < 1) and (0 <= Ap <= Bp * (1 + 1e-12)) and abs((Ap + Bp) * b - (1 - Gp)) <= 1e-9
    if not hyp:
        ctx.fail("cdf-two-dof-coefficients-outside-hypotheses", "get_su_coef coefficients of a damped k = 0 mode violate 0 <= Ap <= Bp, (Ap + Bp) b = 1 - Gp",
                 spec, [Gp, Ap, Bp], "0 < Gp < 1, 0 <= Ap <= Bp, (Ap + Bp) b = 1 - Gp")
        return
    v0 = np.array(spec["v0"], float)
    sol = ts.tsolve(np.zeros((2, nt)), np.zeros(2), v0)
    sp, sm = sol.v[0] + sol.v[1], sol.v[0] - sol.v[1]
    rp, rm = (Gp - Ap * c) / (1 + Bp * c), (Gp + Ap * c) / (1 - Bp * c)
    for name, seq, rho in (("sum", sp, rp), ("difference", sm, rm)):
        want = seq[0] * rho ** np.arange(nt)
        sc = max(float(np.abs(want).max()), 1e-300)
        if not np.abs(seq - want).max() <= 1e-8 * sc:
            ctx.fail("cdf-two-dof-velocity-%s-not-geometric" % name, "the velocity combination is not multiplied by the proved factor each step",
                     spec, float(np.abs(seq - want).max()), "<= 1e-8 * %.3e" % sc)
            return
    if abs(c) < b and not (abs(rp) < 1 and abs(rm) < 1):
        ctx.fail("cdf-two-dof-unstable-for-diagonally-dominant-damping", "|c| < b but an amplification factor is not below one", spec, [rp, rm], "< 1")


def oracle_nonlin_rf(ctx, spec):
    """Regression guard for F63 (repaired in /repo 62d98b6).  Nonlinear terms together with an rf partition: the documented
    start-up A u_1 = (F_1 + F_0' + F_-1)/3 + N_0 + A1 u_0 + A0 u_-1 with N_0 = T func(D, 0, h) evaluated on the SAME array
    (rows of the non-rf equations) that the callbacks see at every later step, and the non-rf solution must not depend on
    where the rf equation sits."""
    from pyyeti import ode

    m, b, k = (np.array(spec[x], float) for x in "mbk")
    n, h, rf, p, c = spec["n"], spec["h"], spec["rf"], spec["p"], spec["c"]
    nonrf = [i for i in range(n) if i not in rf]
    nn = len(nonrf)
    F = np.array(spec["F"], float)
    d0, v0 = np.array(spec["d0"], float), np.array(spec["v0"], float)
    shapes = []

    def func(d, j, hh):
        shapes.append(list(d.shape))
        return np.array([c * d[p, j] ** 3])

    T = np.zeros((nn, 1))
    T[p, 0] = 1.0
    ts = ode.SolveNewmark(m, b, k, h, rf=rf)
    ts.def_nonlin({"cubic": (func, T)})
    sol = ts.tsolve(F, d0, v0)
    ctx.count("oracle:nonlin-with-rf")
    D = sol.d[nonrf]
    mm, bb, kk = m[nonrf], b[nonrf], k[nonrf]
    A = mm / h**2 + bb / (2 * h) + kk / 3
    A1 = 2 * mm / h**2 - kk / 3
    A0 = -mm / h**2 + bb / (2 * h) - kk / 3
    um = d0[nonrf] - h * v0[nonrf]
    F0 = kk * d0[nonrf] + bb * v0[nonrf]
    Fm = kk * um + bb * v0[nonrf]
    N0 = T[:, 0] * (c * d0[nonrf][p] ** 3)
    res = A * D[:, 1] - ((F[nonrf, 1] + F0 + Fm) / 3 + N0 + A1 * d0[nonrf] + A0 * um)
    sc = max(float(np.abs(A * D[:, 1]).max()), float(np.abs(N0).max()), float(np.abs(F[nonrf]).max()), 1e-300)
    if not np.abs(res).max() <= 2e-8 * sc:
        fam = FIXED_F63 if min(rf) < max(nonrf) else FIXED_F63.replace("leading", "trailing")
        ctx.fail(fam, "with an rf partition the callbacks get the full-size array d at step 0 and d[nonrf] afterwards: N_0 is evaluated on another row than N_j",
                 spec, {"residual": float(np.abs(res).max()), "array shapes seen by the callback": shapes[:3]}, "<= 2e-8 * %.3e" % sc)
        return
    # `nonlin_rf_placement_irrelevant` on the API: the same physical system with the rf row moved to the other end gives the
    # same non-rf solution
    perm = nonrf + rf if min(rf) < max(nonrf) else rf + nonrf
    rf2 = [perm.index(i) for i in rf]
    ts2 = ode.SolveNewmark(m[perm], b[perm], k[perm], h, rf=rf2)
    ts2.def_nonlin({"cubic": (func, T)})
    sol2 = ts2.tsolve(F[perm], d0[perm], v0[perm])
    nonrf2 = [perm.index(i) for i in nonrf]
    dif = float(np.abs(sol2.d[nonrf2] - D).max())
    if not dif <= 1e-9 * max(float(np.abs(D).max()), 1e-300):
        ctx.fail("newmark-nonlin-rf-placement-changes-the-non-rf-solution", "moving the rf equation to the other end of the DOF order changes the solution of the other equations",
                 spec, dif, "<= 1e-9 * %.3e" % float(np.abs(D).max()))


def gen_nonlin_rf(rng, leading):
    n = 3
    h = float(10 ** rng.uniform(-2, -1))
    w = 10 ** rng.uniform(-0.5, 0.3, n) / h
    m = 10 ** rng.uniform(-0.3, 0.3, n)
    k = m * w * w
    rf = [0] if leading else [n - 1]
    return {"solver": "newmark-nonlin-rf", "n": n, "h": h, "m": m.tolist(), "b": (0.04 * m * w).tolist(), "k": k.tolist(), "rf": rf,
            "p": 0, "c": float(0.3 * k[1 if leading else 0]), "F": (rng.standard_normal((n, 5)) * k[:, None]).tolist(),
            "d0": (0.5 + rng.random(n)).tolist(), "v0": (rng.standard_normal(n) * w).tolist()}


def oracle_entry_points(ctx):
    """SolveNewmark has no generator and no get_f2x (the base class raises NotImplementedError): recorded, not judged."""
    from pyyeti import ode

    ts = ode.SolveNewmark(np.array([1.0]), np.array([0.1]), np.array([4.0]), 0.1)
    out = {}
    for name in ("generator", "get_f2x"):
        try:
            getattr(ts, name)()
            out[name] = "implemented"
        except NotImplementedError:
            out[name] = "NotImplementedError"
        except TypeError:
            out[name] = "implemented (takes arguments)"
    ctx.extra["solvenewmark_entry_points"] = out


def _run_spec(ctx, spec):
    s = spec.get("solver")
    extra = {"newmark-proved-bounds": oracle_proved_bounds, "newmark-va-orders": oracle_va_orders,
             "newmark-initial-accel": oracle_initial_accel_defect, "newmark-modal": oracle_modal,
             "cdf-two-dof": oracle_cdf_two_dof, "newmark-nonlin-rf": oracle_nonlin_rf, "cdf-entry": _cdf_entry_check}
    if s in extra:
        extra[s](ctx, spec)
        return
    if s == "newmark-seq":
        oracle_newmark_seq(ctx, spec)
    elif s == "newmark":
        oracle_newmark(ctx, spec)
    elif s == "cdf":
        oracle_cdf(ctx, spec)
    elif s in ("newmark-convergence", "cdf-convergence", "newmark-bounded"):
        _replay_special(ctx, spec)


def _replay_special(ctx, spec):
    """Re-evaluate a convergence / boundedness failure from its recorded system."""
    from pyyeti import ode

    M, B, K = (np.array(spec[x], float) for x in "mbk")
    d0, v0 = np.array(spec["d0"], float), np.array(spec["v0"], float)
    if spec["solver"] == "newmark-bounded":
        sol = ode.SolveNewmark(M, B, K, spec["h"]).tsolve(np.zeros((len(d0), spec["nt"])), d0, v0)
        _bounded_verdict(ctx, spec, sol.d)
        return
    solver = spec["solver"].split("-")[0]
    base, f1, fw, ph = np.array(spec["base"]), np.array(spec["f1"]), spec["fw"], spec["ph"]
    ffun = lambda t: base + f1 * (np.sin(fw * t + ph) - np.sin(ph))
    T = 1.0
    ref_d = _exact(M if M.ndim == 2 else np.diag(M), B, K if K.ndim == 2 else np.diag(K), ffun, d0, v0, T)
    errs = []
    for stride, h in zip((1, 2, 4), spec["hs"]):
        nt = int(round(T / h)) + 1
        F = np.array([ffun(tt) for tt in np.arange(nt) * h]).T
        if solver == "newmark":
            sol = ode.SolveNewmark(M, B, K, h).tsolve(F, d0, v0)
        else:
            sol = ode.SolveCDF(np.diag(M), B, np.diag(K), h).tsolve(F, d0, v0)
        errs.append(float(np.abs(sol.d[:, ::stride] - ref_d).max()))
    need = 1.6 if (spec["balanced"] or solver == "cdf") else 0.75
    overall, ok = _order_verdict(errs, 1e-9 * max(np.abs(ref_d).max(), 1e-12), need)
    if not ok:
        ctx.fail(spec["solver"], "error does not shrink at the documented rate", spec, {"errors": errs, "overall_order": overall},
                 "overall order >= %.2f" % need)


def search(ctx, hints):
    for hnt in hints[:40]:
        try:
            _run_spec(ctx, hnt["input"])
        except Exception as e:  # a crash on a hinted input is itself a failing input
            ctx.fail("crash-" + type(e).__name__, "the solver raises on a generated input", hnt["input"], repr(e), "a history")
    rng = ctx.np_rng(1717)
    path = os.path.join(ctx.verif, "corpus", "c17.json")
    if os.path.exists(path):
        for spec in json.load(open(path)):
            _run_spec(ctx, spec)
    # smallest systems first: 1-DOF recurrence residuals
    for p in ({"n": 1, "form": "diag", "terms": False, "rf": False, "nt": 6}, {"n": 1, "form": "diag", "terms": True, "nt": 5},
              {"n": 2, "form": "full", "terms": False, "rf": False, "nt": 4}, {"n": 2, "form": "full", "terms": True, "nt": 4},
              {"n": 2, "form": "diag", "massless": True, "mnone": False, "terms": False}, {"n": 3, "rf": True, "terms": False},
              {"nt": 2}, {"nt": 3}):
        oracle_newmark(ctx, gen_newmark(rng, p))
        ctx.count("oracle:newmark")
    for _ in range(ctx.pick(1200, 8000)):
        spec = gen_newmark(rng)
        if _cond_ok(spec):
            oracle_newmark(ctx, spec)
            ctx.count("oracle:newmark")
        if len(ctx.failures) > 30:
            return
    # solver objects are re-used: call sequences on one SolveNewmark object
    rngs = ctx.np_rng(1729)
    for spec in [gen_newmark_seq(rngs, p) for p in SEQ_PINS] + [gen_newmark_seq(rngs) for _ in range(ctx.pick(120, 800))]:
        if _seq_ok(spec):
            oracle_newmark_seq(ctx, spec)
            ctx.count("oracle:newmark-call-sequence")
        if len(ctx.failures) > 30:
            return
    for p in ({"diag_only": True}, {"nt": 1}, {"nt": 2}, {"rigid": True}, {"rf": True}):
        oracle_cdf(ctx, gen_cdf(rng, p))
        ctx.count("oracle:cdf")
    for _ in range(ctx.pick(400, 3000)):
        oracle_cdf(ctx, gen_cdf(rng))
        ctx.count("oracle:cdf")
        if len(ctx.failures) > 30:
            return
    for _ in range(ctx.pick(20, 120)):
        oracle_cdf_entry(ctx, rng)
    for i in range(ctx.pick(12, 60)):
        oracle_convergence(ctx, rng, balanced=bool(i % 2), solver="newmark")
        ctx.count("oracle:newmark-step-halving")
    for i in range(ctx.pick(6, 30)):
        oracle_convergence(ctx, rng, balanced=False, solver="cdf")
        ctx.count("oracle:cdf-step-halving")
    for _ in range(ctx.pick(150, 1000)):
        oracle_bounded(ctx, rng)
        ctx.count("oracle:newmark-bounded")
    # second extension: proved bounds on the real code, orders of v and a, initial-acceleration defect, modal superposition,
    # get_f2x as step sensitivity, the 2-DOF stability test problem, callbacks with an rf partition
    rng2 = ctx.np_rng(1741)
    for i in range(ctx.pick(24, 160)):
        oracle_proved_bounds(ctx, gen_analytic(rng2, balanced=bool(i % 2)))
    for i in range(ctx.pick(10, 60)):
        oracle_va_orders(ctx, dict(gen_analytic(rng2, balanced=bool(i % 2)), solver="newmark-va-orders"))
    for _ in range(ctx.pick(40, 300)):
        oracle_initial_accel_defect(ctx, {"solver": "newmark-initial-accel", "m": float(rng2.uniform(0.2, 3)), "b": float(rng2.uniform(0, 2)),
                                          "k": float(rng2.uniform(0, 50)), "h": float(10 ** rng2.uniform(-2, 0)),
                                          "c0": float(rng2.standard_normal()), "c1": float(rng2.standard_normal()), "c2": float(rng2.standard_normal())})
    for _ in range(ctx.pick(60, 400)):
        oracle_modal(ctx, gen_modal(rng2))
    for _ in range(ctx.pick(60, 400)):
        oracle_cdf_f2x(ctx, gen_cdf(rng2, {"nt": int(rng2.integers(2, 6))}))
    for _ in range(ctx.pick(40, 300)):
        b = float(10 ** rng2.uniform(-1, 1))
        oracle_cdf_two_dof(ctx, {"solver": "cdf-two-dof", "m": float(10 ** rng2.uniform(-0.5, 0.5)), "b": b,
                                 "c": float(b * rng2.choice([-0.9, -0.5, 0.3, 0.8, 0.99])), "h": float(10 ** rng2.uniform(-2, 0)),
                                 "nt": 12, "v0": rng2.standard_normal(2).tolist()})
    for i in range(ctx.pick(6, 30)):
        oracle_nonlin_rf(ctx, gen_nonlin_rf(rng2, leading=bool(i % 2)))
    oracle_entry_points(ctx)


def replay(ctx, data):
    f = data.get("failure")
    if not f:
        return None
    _run_spec(ctx, f["input"])
    return ctx.failures[0] if ctx.failures else None
