"""C15 — Norton-Thevenin coupling reproduces the directly coupled system (DESIGN.md section 6/C15).

Lean: Model/NT.lean (block formulas), Model/NTCbtf.lean (cb.cbtf in full: partition by bset, q-set solve, frc/a/d/v,
`save`, f = 0; calcAM column by column), Model/NTPack.lean (ntfl complete: packaging, loop body, every field; exact
Gaussian rationals), Props/C15, C15b (cbtf), C15c (ntfl), C15d (routes, low-frequency expansion), C15e (limit W -> 0).

Tie (Drivers/C15.lean runs the same definitions at complex Float and at exact Gaussian rationals):
  numeric  ntfl-arrays (A, F, R, TAM; two executable models), calcAM-drm (all routes), calcAM-pv (block formula and
           column by column from cbtfCol), cbtf (frc, a, d, v; `a` as vector / column / matrix; save none / {} / warm
           from another acceleration and another frequency vector; f = 0; empty q-set; unordered b-set)
  exact    ntfl-exact (Gaussian dyadic inputs with SAM+LAM a generalised permutation of units x powers of two: every
           floating-point operation of the real code is exact, outputs compared with the exact rational model, no
           tolerance; the model's solver is verified exactly on every request), cbtf-exact (f = 0: frc, a, v for any dyadic
           model, d for diagonal q-q blocks; calcAM(f = 0) = m[bset][:, bset]), layout, flippv, packa (shapes and the two
           ValueErrors of cbtf), packas (np.atleast_2d(As), the size check and numpy's ValueError in ntfl)
Oracle (model-free): random free-free source/load pairs; every calcAM route and both boundary forms against plain numpy,
ntfl against the physically coupled system solved with numpy.linalg.solve, AM.Acc = I, f = 0 and f -> 0 against the
rigid-body mass, AM(W) against M_rb + W^2 (regular) at every frequency; cb.cbtf against the Craig-Bampton equations in
model order and warm-vs-cold `save`; ntfl reciprocity / change of boundary coordinates / units / frequency-by-frequency
independence; the recovery-matrix route against the Schur complement of the full impedance for scattered b-sets.
"""
import math
import warnings

import numpy as np

from runner import Infra

ID = "C15"
LEAN_MODULES = ["PyYetiVerif.Props.C15", "PyYetiVerif.Props.C15b", "PyYetiVerif.Props.C15c", "PyYetiVerif.Props.C15d",
                "PyYetiVerif.Props.C15e", "PyYetiVerif.Audit.C15"]
AUDIT_FILE = "PyYetiVerif/Audit/C15.lean"
THEOREMS = [
    "PyYetiVerif.C15." + n
    for n in (
        "nt_algebra nt_solves_coupled nt_algebra_matrix nt_equals_coupled am_inverse tam_additive "
        "am_rigid_limit forms_agree forms_agree_cbtf accImp_additive forms_agree_empty_qset "
        "pv_empty_qset_order_matters layout_injective layout_in_bounds "
        # Props/C15b (cb.cbtf in full), C15c (ntfl complete), C15d (routes, low-frequency expansion), C15e (limit)
        "cbtf_eom cbtf_frc_blocks cbtf_force_eq_am_times_accel cbtf_force_zero_freq cbtf_zero_freq cbtf_outputs_def cbtf_accel_eq calcAM_pv_eq_cbtfAM calcAM_pv_zero_freq cbtf_save_transparent cbtf_save_not_keyed cbtfE_force_eq_am_times_accel cbtfE_vs_general cbtfE_outputs_def flippv_partitions bset_isPartition bset_isPartition_E parallel_sum_comm nt_reciprocity nt_reciprocity_matrix nt_force_operator_symmetric ntfl_congruence ntfl_R_trace_invariant ntfl_scaling ntfl_R_not_invariant ntfl_pointwise slice3F_pack3F ntflColF_spec ntA_col packAs_vector packAs_matrix routes_agree_general routes_agree_solvers routes_difference routes_agree_beyond_cb routes_disagree_noncb drm_zero_freq drm_congruence forms_agree_scaled_selection dyn_stiffness_schur_expansion am_low_frequency_expansion lowfreq_regular_tendsto am_low_frequency_limit cb_transform_blocks cb_form_determinate cbtf_low_frequency_expansion cbtf_zero_freq_is_limit"
    ).split()
]
TRUSTED = [
    "correspondence harness harness/props/c15.py (numeric comparison, |impl-model| <= 1e-9*scale, inputs with a "
    "condition estimate above 1e5 skipped and counted; exact comparison of IEEE doubles with rationals through "
    "fractions.Fraction)",
    "matrix inversion / linear solves (LAPACK in scipy.linalg.inv/solve, the complex eigen-solution inside "
    "ode.SolveUnc, Gauss-Jordan in the Lean Float instance) satisfy X*A = A*X = 1 up to rounding: the theorems take "
    "the inverse equations as hypotheses, the residuals are measured on every run",
    "the frequency-domain equations of motion (-W^2 M + iW B + K) x = f solved by ode.SolveUnc/FreqDirect (property C02)",
    "IEEE double rounding is outside the theorems (they are over any ring / any field)",
]
RULE = (
    "ntfl-arrays: random complex non-symmetric SAM/LAM/As with 1..6 boundary DOF and 1..5 frequencies; ntfl-exact: Gaussian "
    "dyadic SAM/As with SAM+LAM a (permuted) diagonal of units times powers of two, 1..5 boundary DOF; calcAM-drm: "
    "random free-free symmetric models (proportional, modal, non-proportional damping) through the default route and "
    "non-symmetric matrices through fs=FreqDirect/SolveUnc; damping also mass-proportional and Rayleigh (rigid-body modes damped); "
    "recovery matrices: 0/1 selections, dense rows, and one-entry rows that are -1 (mixed signs) or scaled (39.37, 12, "
    "non-uniform); calcAM-pv and cbtf: random "
    "matrices (symmetric and not, several unit systems, Craig-Bampton form or with a K_bq the code ignores) with scattered "
    "unordered b-set, f=0, integer frequency vectors and empty q-set included; cbtf additionally: `a` as vector / one column / "
    "b x freq matrix, save = None / {} / left by an earlier call with another acceleration and another frequency vector (same "
    "or other length); cbtf-exact: dyadic models at f = 0. A case is one (model, frequency vector) compared on every output "
    "entry; non-trivial = at least 2 boundary DOF (layout observable) or a damping-coupled b-q partition; distinct by the "
    "generated arrays"
)
ASSUMPTIONS = [
    "comparisons only where the condition estimates of the dynamic stiffness, the boundary accelerance and SAM+LAM "
    "are below 1e5 (frequencies nearer to an undamped (anti-)resonance are skipped and counted)",
    "partition-vector form: the model is in Craig-Bampton form (K_bq = 0), as frclim.calcAM documents "
    "(`routes_difference` says exactly what is lost otherwise, `routes_disagree_noncb` is a concrete instance)",
    "f -> 0 limit equals the rigid-body mass only for a statically determinate interface (as many boundary DOF as "
    "rigid-body modes; K and B annihilate the rigid-body modes, K_ii invertible); f = 0 itself is compared exactly there",
    "cb.cbtf: `bset` without repetition and inside the model; the `save` dictionary is only passed between calls on the "
    "same m, b, k, bset (the entry is not keyed by the model: `cbtf_save_not_keyed`)",
]
PARTIAL = (
    "calcAM at exactly f = 0 through the recovery-matrix route rests on the rigid-body branch inside ode.SolveUnc.fsolve "
    "(property C02): `drm_zero_freq` proves AM = rigid-body mass FROM the accelerance T phi (phi' M phi)^-1 phi' T' that "
    "branch returns, the branch itself is compared by the oracle only; the solvers (LAPACK solve/inv, SolveUnc.fsolve) enter "
    "every theorem through their specification (hypotheses `SolvesQ`, `hsolve`, `IsUnit det`): verified exactly in the exact "
    "streams, measured in the numeric ones"
)
MANIFEST = {
    "level_text": "Proof (Lean 4, standard axioms only) over an arbitrary non-commutative ring and over Mathlib "
    "matrices with blocks of arbitrary sizes: the implemented formulas A = (Ms+Ml)^-1 Ms As, F = Ml A are the unique "
    "solution of source reaction + load equation (`nt_algebra`, `nt_solves_coupled`), eliminating the interior DOF of "
    "source and load from the assembled block system gives exactly those interface accelerations and forces "
    "(`nt_equals_coupled`), the apparent mass of the assembled system is SAM + LAM (`tam_additive`), AM inverts the "
    "accelerance obtained from unit boundary forces (`am_inverse`). cb.cbtf modelled in full over function matrices on "
    "Fin n with an arbitrary partition (b-set in any order, anywhere): every returned array is the stated transfer "
    "function of the Craig-Bampton equations in model order (`cbtf_outputs_def`, `cbtf_eom`), frc = AM a with AM the "
    "Schur complement at every non-zero frequency and m_bb a at f = 0 (`cbtf_force_eq_am_times_accel`, "
    "`cbtf_force_zero_freq`, `cbtf_zero_freq`), calcAM assembled column by column is that AM (`calcAM_pv_eq_cbtfAM`), a "
    "warm `save` equals a cold call (`cbtf_save_transparent`; the entry is not keyed by the model: `cbtf_save_not_keyed`), "
    "the empty-q-set branch IS the general one on frc, a, d, v (`cbtfE_vs_general`, `cbtfE_outputs_def`; model order, F59), `bset ++ flippv` is a permutation of the DOF "
    "(`flippv_partitions`) and the index functions built from the vector are a partition (`bset_isPartition`). ntfl complete: loop body = the formulas for any solver meeting la.solve's specification "
    "(`ntflColF_spec`), frequency-by-frequency independence (`ntfl_pointwise`), (b x freq x b) packing round trip "
    "(`slice3F_pack3F`, `layout_injective`), packaging of As (`packAs_vector`, `packAs_matrix`), exchange of source and load "
    "(`nt_reciprocity`: R' = 1 - R, A' = As - A, F' = F; `nt_force_operator_symmetric`), change of boundary coordinates "
    "(`ntfl_congruence`; R itself is not invariant, its trace is), units (`ntfl_scaling`). Routes: the recovery-matrix route "
    "with any solver is the Schur complement of the FULL impedance for a b-set anywhere in any order, no Craig-Bampton form "
    "(`routes_agree_general`, `routes_agree_solvers`), the partition-vector route differs by exactly the K_bq/K_qb terms "
    "(`routes_difference`, `routes_agree_beyond_cb`, counterexample `routes_disagree_noncb`; `forms_agree*` as before); a "
    "recovery matrix S T transforms the apparent mass by the congruence S^-T AM S^-1, for rows s_i e_i' (reversed DOF, other "
    "units) entry by entry AM_ij / (s_i s_j) (`drm_congruence`, `forms_agree_scaled_selection`). "
    "Low frequency: AM(s) = M_rb - s^2 (M_bi + chi M_ii) Z_ii(s)^-1 (M_ib + M_ii psi) as a rational-function identity "
    "(`am_low_frequency_expansion`), hence AM -> M_rb as W -> 0 over any normed field (`am_low_frequency_limit`, Filter.Tendsto), "
    "the Craig-Bampton model of such a structure has m_bb = M_rb and k_bb = k_bq = 0 (`cb_form_determinate`) and what cbtf "
    "returns at f = 0 is the limit of what it returns for f -> 0 (`cbtf_zero_freq_is_limit`). The same definitions are "
    "executed at complex Float and at exact Gaussian rationals and compared with frclim.ntfl, frclim.calcAM (all routes) and "
    "cb.cbtf on every run (numeric streams with graded tolerances; exact streams with no tolerance); a model-free oracle "
    "couples random free-free structures directly with numpy.linalg.solve and checks cbtf against the CB equations.",
    "level_note": "Trusted: Lean kernel; propext, Classical.choice, Quot.sound; the Python harness; LAPACK / SolveUnc as "
    "solvers (hypotheses of the theorems; verified exactly in the exact streams, measured in the numeric ones); rounding "
    "outside the theorems; calcAM(f = 0) through SolveUnc's rigid-body branch is tied, not proved (`drm_zero_freq` starts "
    "from its accelerance). Not in the property's statement and not modelled: frclim.sefl / stdfs / ctdfs (semi-empirical "
    "force limits). cb.cbtf with an empty q-set returns a, d, v in model order since the fix recorded as F59 (family "
    "cbtf-empty-qset-responses-in-bset-order): the model follows the repaired code, the oracle keeps tf.a[bset] == a as a rule.",
    "technique": "Lean 4 proof (ring identities, Schur complements of Mathlib block matrices, function matrices over Fin n, "
    "Filter.Tendsto for the low-frequency limit) + numeric and exact differential correspondence of the same definitions + "
    "model-free direct-coupling oracle",
}

TOL = 1e-9
CONDMAX = 1e5
_STATS = {}  # family -> worst observed error / allowed error


# ---------------------------------------------------------------------------------------
# transport


def _cbits(z):
    z = np.ascontiguousarray(np.asarray(z, dtype=np.complex128))
    return " ".join(map(str, z.view(np.float64).view(np.uint64).ravel().tolist()))


def _fbits(x):
    x = np.ascontiguousarray(np.asarray(x, dtype=np.float64))
    return " ".join(map(str, x.view(np.uint64).ravel().tolist()))


def _parse_c(s, shape):
    a = np.array([int(t) for t in s.split()], dtype=np.uint64)
    return a.view(np.float64).view(np.complex128).reshape(shape)


def _enc(a):
    a = np.asarray(a)
    if np.iscomplexobj(a):
        return {"re": a.real.tolist(), "im": a.imag.tolist()}
    return {"re": a.tolist()}


def _dec(d):
    a = np.array(d["re"], dtype=float)
    if "im" in d:
        a = a + 1j * np.array(d["im"], dtype=float)
    return a


def _pyyeti():
    from pyyeti import cb, frclim, ode

    return frclim, ode, cb


def _corpus(ctx):
    import json
    import os

    path = os.path.join(ctx.verif, "corpus", "c15.json")
    return json.load(open(path)) if os.path.exists(path) else []


# ---------------------------------------------------------------------------------------
# generators


def _rand_spd(rng, n, lo, hi):
    Q, _ = np.linalg.qr(rng.standard_normal((n, n)))
    return (Q * rng.uniform(lo, hi, n)) @ Q.T


def _gen_struct(rng, r, ni, phib, damping):
    """Free-free structure with DOF order [b (r), interior (ni)] and rigid-body modes `phi`
    (K phi = 0, B phi = 0) whose boundary rows are `phib`."""
    n = r + ni
    nrb = phib.shape[1]
    M = _rand_spd(rng, n, 0.5, 4.0)
    phi = np.vstack([phib, rng.standard_normal((ni, nrb))])
    P = np.eye(n) - phi @ np.linalg.solve(phi.T @ phi, phi.T)
    lo = rng.choice([3.0, 10.0])
    w2 = (2 * np.pi * rng.uniform(lo, rng.choice([60.0, 200.0]), n)) ** 2
    Q, _ = np.linalg.qr(rng.standard_normal((n, n)))
    K = P.T @ ((Q * w2) @ Q.T) @ P
    K = (K + K.T) / 2
    zeta = rng.choice([0.003, 0.01, 0.03])
    if damping == "prop":
        B = 2 * zeta / (2 * np.pi * 25) * K
    elif damping == "modal":
        import scipy.linalg as la

        lam, ph = la.eigh(K, M)
        lam = np.where(lam < 1e-8 * lam.max(), 0.0, lam)
        z = rng.uniform(0.3 * zeta, 2 * zeta, n)
        G = M @ ph
        B = G @ np.diag(2 * z * np.sqrt(lam)) @ G.T
    elif damping == "massprop":
        # mass-proportional (Rayleigh alpha) damping: the rigid-body modes are DAMPED (B phi != 0); uncoupled after pre_eig
        B = (2 * zeta * 2 * np.pi * float(rng.uniform(5.0, 40.0))) * M
    elif damping == "rayleigh":
        B = (2 * zeta * 2 * np.pi * float(rng.uniform(5.0, 40.0))) * M + 2 * zeta / (2 * np.pi * float(rng.uniform(15.0, 60.0))) * K
    else:
        B0 = _rand_spd(rng, n, 0.2, 3.0) * (2 * zeta * 2 * np.pi * 25)
        B = P.T @ B0 @ P
    B = (B + B.T) / 2
    return M, B, K, phi


DAMPINGS = ("prop", "modal", "nonprop", "massprop", "rayleigh")
RB_DAMPED = ("massprop", "rayleigh")  # damping that acts on the rigid-body modes: no finite apparent mass at f = 0


def _cb_form(M, B, K, r):
    """Craig-Bampton form (all fixed-interface modes kept: an exact change of basis)."""
    import scipy.linalg as la

    n = M.shape[0]
    psi = -np.linalg.solve(K[r:, r:], K[r:, :r])
    _, ph = la.eigh(K[r:, r:], M[r:, r:])
    T = np.zeros((n, n))
    T[:r, :r] = np.eye(r)
    T[r:, :r] = psi
    T[r:, r:] = ph
    m, b, k = T.T @ M @ T, T.T @ B @ T, T.T @ K @ T
    k[:r, r:] = 0.0
    k[r:, :r] = 0.0
    return m, b, k


def _gen_pair(rng, it):
    r = int(rng.integers(1, 7))
    determinate = rng.random() < 0.6
    nrb = r if determinate else int(rng.integers(1, r + 1))
    phib = np.eye(r) if nrb == r else rng.standard_normal((r, nrb))
    damping = DAMPINGS[it % 5]
    S = _gen_struct(rng, r, int(rng.integers(1, 6)), phib, damping)
    L = _gen_struct(rng, r, int(rng.integers(1, 6)), phib, damping)
    nf = int(rng.integers(3, 8))
    freq = np.sort(rng.uniform(0.5, 150.0, nf))
    ns = S[0].shape[0]
    Fs = rng.standard_normal((ns, nf)) + 1j * rng.standard_normal((ns, nf))
    return {"r": r, "nrb": nrb, "damping": damping, "S": S[:3], "L": L[:3], "phis": S[3], "phil": L[3],
            "freq": freq, "Fs": Fs}


# ---------------------------------------------------------------------------------------
# plain-numpy reference (model-free)


def _Z(M, B, K, O):
    return -(O ** 2) * M + 1j * O * B + K


def _am_numpy(M, B, K, T, freq):
    """apparent mass by definition: unit boundary forces T', boundary accelerance, inverse."""
    r = T.shape[0]
    AM = np.empty((r, len(freq), r), complex)
    Acc = np.empty((r, len(freq), r), complex)
    cond = np.empty(len(freq))
    for j, f in enumerate(freq):
        O = 2 * np.pi * f
        Z = _Z(M, B, K, O)
        H = -(O ** 2) * (T @ np.linalg.solve(Z, T.T))
        Acc[:, j, :] = H
        AM[:, j, :] = np.linalg.inv(H)
        cond[j] = max(np.linalg.cond(Z), np.linalg.cond(H))
    return AM, Acc, cond


def _coupled_numpy(S, L, Ts, Tl, Fs, freq):
    """Physically coupled system: source and load joined at T_s x_s = T_l x_l by the interface
    force; one plain linear solve per frequency.  Returns interface acceleration, interface
    force (acting on the load), the source's free acceleration and a condition estimate."""
    ns, nl, r = S[0].shape[0], L[0].shape[0], Ts.shape[0]
    nf = len(freq)
    A = np.empty((r, nf), complex)
    F = np.empty((r, nf), complex)
    As = np.empty((r, nf), complex)
    cond = np.empty(nf)
    sel = np.allclose(Ts, np.eye(r, ns)) and np.allclose(Tl, np.eye(r, nl))
    for j, f in enumerate(freq):
        O = 2 * np.pi * f
        Zs, Zl = _Z(*S, O), _Z(*L, O)
        if sel:
            n = ns + nl - r
            il = np.r_[0:r, ns:n]
            Z = np.zeros((n, n), complex)
            Z[:ns, :ns] += Zs
            Z[np.ix_(il, il)] += Zl
            rhs = np.zeros(n, complex)
            rhs[:ns] = Fs[:, j]
            x = np.linalg.solve(Z, rhs)
            A[:, j] = -(O ** 2) * x[:r]
            F[:, j] = (Zl @ x[il])[:r]
            cond[j] = np.linalg.cond(Z)
        else:
            # Lagrange-multiplier form (scaled so the multiplier rows are commensurate)
            sc = np.abs(Zs).max()
            n = ns + nl + r
            Z = np.zeros((n, n), complex)
            Z[:ns, :ns] = Zs
            Z[ns:ns + nl, ns:ns + nl] = Zl
            Z[:ns, ns + nl:] = Ts.T * sc
            Z[ns:ns + nl, ns + nl:] = -Tl.T * sc
            Z[ns + nl:, :ns] = Ts * sc
            Z[ns + nl:, ns:ns + nl] = -Tl * sc
            rhs = np.zeros(n, complex)
            rhs[:ns] = Fs[:, j]
            x = np.linalg.solve(Z, rhs)
            A[:, j] = -(O ** 2) * (Ts @ x[:ns])
            F[:, j] = x[ns + nl:] * sc
            cond[j] = np.linalg.cond(Z)
        As[:, j] = -(O ** 2) * (Ts @ np.linalg.solve(Zs, Fs[:, j]))
        cond[j] = max(cond[j], np.linalg.cond(Zs), np.linalg.cond(Zl))
    return A, F, As, cond


def _kappa_qq(m, b, k, bset, freq):
    """Condition estimate for cb.cbtf's q-q solve, which goes through the complex eigen-solution of
    ode.SolveUnc: (eigenvector condition) x max(1, (W / |lambda|_min)^2), computed here with plain
    numpy.  Measured on 10^4 cases: route error <= 1e-16 * kappa.  Returned divided by 1e4 so that it
    is commensurate with the other condition estimates (allowed error = 1e-11 * estimate)."""
    n = m.shape[0]
    q = np.setdiff1d(np.arange(n), np.asarray(bset))
    if q.size == 0:
        return np.ones(len(freq))
    qq = np.ix_(q, q)
    mi = np.linalg.inv(m[qq])
    nq = q.size
    A = np.block([[-mi @ b[qq], -mi @ k[qq]], [np.eye(nq), np.zeros((nq, nq))]])
    w, V = np.linalg.eig(A)
    V = V / np.linalg.norm(V, axis=0)
    lmin = np.abs(w).min()
    if lmin == 0:
        return np.full(len(freq), np.inf)
    O = 2 * np.pi * np.asarray(freq)
    return np.linalg.cond(V) * np.maximum(1.0, (O / lmin) ** 2) / 1e4


def _relerr(x, ref, axis_f):
    """max |x-ref| per frequency / max |ref| per frequency; `axis_f` is the frequency axis."""
    ax = tuple(i for i in range(ref.ndim) if i != axis_f)
    num = np.abs(x - ref).max(axis=ax)
    den = np.abs(ref).max(axis=ax)
    return num / np.where(den == 0, 1.0, den)


# ---------------------------------------------------------------------------------------
# correspondence


def _corr_ntfl(ctx, drv, frclim):
    rng = ctx.np_rng(151)
    n = ctx.pick(600, 6000)
    cases, req = [], []
    for it in range(n):
        b = int(rng.integers(1, 7))
        nf = int(rng.integers(1, 6))

        def rc(*sh):
            return rng.standard_normal(sh) + 1j * rng.standard_normal(sh)

        SAM = rc(b, nf, b) + (2.0 * b) * np.eye(b)[:, None, :]
        LAM = rc(b, nf, b) + (1.0 * b) * np.eye(b)[:, None, :]
        if it % 7 == 3:  # real-valued inputs (rigid masses)
            SAM, LAM = SAM.real + 0j, LAM.real + 0j
        As = rc(b, nf)
        freq = np.arange(nf) + 1.0
        cases.append((b, nf, SAM, LAM, As, freq))
        # two executable models of the same routine: `ntflF` (Model/NTPack, request ntflf) and the block formulas
        # `ntflArrays` (Model/NT, request ntfl)
        req.append("%s %d %d %s %s %s" % ("ntfl" if it % 3 == 2 else "ntflf", b, nf, _cbits(SAM), _cbits(LAM), _cbits(As)))
    rep = drv.ask(req)
    worst = 0.0
    for (b, nf, SAM, LAM, As, freq), line in zip(cases, rep):
        key = ("ntfl", b, nf, SAM.tobytes()[:64])
        inp = {"kind": "ntfl-arrays", "SAM": _enc(SAM), "LAM": _enc(LAM), "As": _enc(As)}
        cnd = max(np.linalg.cond(SAM[:, j] + LAM[:, j]) for j in range(nf))
        if cnd > 1e4:
            ctx.skip("ntfl-arrays: cond(SAM+LAM) > 1e4")
            continue
        ctx.case(key, nontrivial=b >= 2, branch="ntfl-arrays:b=%d" % b)
        if line == "bad-op":
            raise Infra("driver refused an ntfl request")
        parts = line.split("|")
        mA, mF, mR = (_parse_c(p, (b, nf)) for p in parts[:3])
        mT = _parse_c(parts[3], (b, nf, b))
        try:
            o = frclim.ntfl(SAM.copy(), LAM.copy(), As.copy(), freq)
        except Exception as e:  # noqa: BLE001
            ctx.disagree("ntfl-arrays", inp, "exception " + type(e).__name__, "values")
            continue
        for name, got, want in (("A", o.A, mA), ("F", o.F, mF), ("R", o.R, mR), ("TAM", o.TAM, mT)):
            got = np.asarray(got)
            if got.shape != want.shape:
                ctx.disagree("ntfl-arrays", inp, {"field": name, "shape": list(got.shape)}, list(want.shape))
                break
            e = np.abs(got - want).max() / max(np.abs(want).max(), 1e-300)
            worst = max(worst, e)
            if not e <= 1e-10 * cnd:
                ctx.disagree("ntfl-arrays", inp, {"field": name, "impl": _enc(got)}, {"model": _enc(want), "relerr": e})
                break
        if len(ctx.samples) < 2:
            ctx.sample({"stream": "ntfl-arrays", "b": b, "nf": nf, "A[0,0]": complex(o.A[0, 0]), "model": complex(mA[0, 0])})
    ctx.extra["ntfl_arrays_worst_relerr"] = worst


def _signed_scaled(rng, T, signed):
    """one entry per row, but not +1: model DOF defined opposite to the interface coordinate (-1; mixed signs), or interface
    coordinates in other units than the model (39.37 in/m, 12 in/ft, non-uniform) - rows s_i e_i' of a recovery matrix"""
    r = T.shape[0]
    if signed:
        sg = rng.choice([-1.0, 1.0], r)
        sg[int(rng.integers(0, r))] = -1.0
        return sg[:, None] * T, "signed"
    sc = rng.choice([39.37, -39.37, 12.0, 1.0, 0.0254 * 39.37], r)
    sc[int(rng.integers(0, r))] = 39.37
    return sc[:, None] * T, "scaled"


def _drm_cases(ctx):
    rng = ctx.np_rng(152)
    n = ctx.pick(300, 3000)
    out = []
    for c in _corpus(ctx):  # minimised past failures run first
        if c.get("kind") == "calcAM-drm":
            out.append({"route": c.get("route", "default"), "M": _dec(c["M"]), "B": _dec(c["B"]), "K": _dec(c["K"]),
                        "T": _dec(c["T"]), "freq": np.array(c["freq"]), "tk": "corpus", "stiff": bool(c.get("stiff"))})
    for it in range(n):
        route = ("default", "default", "freqdirect", "solveunc", "solveunc-h", "solveunc-h-pre")[it % 6]
        r = int(rng.integers(1, 7))
        stiff = False
        if route in ("default", "solveunc-h-pre"):
            nrb = r if rng.random() < 0.5 else int(rng.integers(1, r + 1))
            phib = np.eye(r) if nrb == r else rng.standard_normal((r, nrb))
            dk = DAMPINGS[(it // 6) % 5]
            M, B, K, phi_rb = _gen_struct(rng, r, int(rng.integers(1, 6)), phib, dk)
            n_ = M.shape[0]
            if route == "solveunc-h-pre" or it % 7 == 3:
                # one heavy dashpot in a lightly damped structure: the elastic roots mix over-damped (real) and
                # under-damped (complex) eigenvalues.  The dashpot acts on the elastic deformation only (projected so that
                # B phi_rb = 0 still holds): a grounded dashpot would turn the rigid-body modes into nearly defective
                # zero roots of the complex eigenproblem, whose accuracy (measured: down to 5e-5) is a property of the
                # eigen-solver and not of the Norton-Thevenin algebra
                i = int(rng.integers(0, n_))
                Pj = np.eye(n_) - phi_rb @ np.linalg.solve(phi_rb.T @ phi_rb, phi_rb.T)
                e = np.zeros((n_, 1))
                e[i, 0] = 1.0
                cdash = 2.0 * math.sqrt(abs(K[i, i]) * M[i, i]) * float(rng.uniform(1.5, 6.0))
                B = B + cdash * (Pj.T @ e @ e.T @ Pj)
                B = (B + B.T) / 2
                stiff = True
            if it % 5 == 0:
                T = rng.standard_normal((r, n_))  # dense recovery matrix
                tk = "dense"
            else:
                T = np.eye(r, n_)
                if it % 5 == 1:
                    p = rng.permutation(n_)
                    T = T[:, p]  # scattered selection
                tk = "select"
                if it % 5 >= 3:
                    T, tk = _signed_scaled(rng, T, it % 5 == 3)
        else:
            n_ = r + int(rng.integers(0, 5))
            M = _rand_spd(rng, n_, 0.5, 4.0) + 0.15 * rng.standard_normal((n_, n_))
            w = 2 * np.pi * 30
            K = (_rand_spd(rng, n_, 0.1, 4.0) + 0.15 * rng.standard_normal((n_, n_))) * w * w
            B = (_rand_spd(rng, n_, 0.1, 2.0) + 0.15 * rng.standard_normal((n_, n_))) * (0.04 * w)
            dense = bool(rng.random() < 0.4)
            T = rng.standard_normal((r, n_)) if dense else np.eye(r, n_)[:, rng.permutation(n_)]
            tk = "dense" if dense else "select"
            if not dense and rng.random() < 0.4:
                T, tk = _signed_scaled(rng, T, bool(rng.random() < 0.5))
        nf = int(rng.integers(2, 6))
        freq = np.sort(rng.uniform(1.0, 150.0, nf))
        if it % 4 == 1:
            freq = np.arange(2, 2 + 7 * nf, 7) + int(rng.integers(0, 20))  # an integer-dtype frequency vector (np.arange)
        out.append({"route": route, "M": M, "B": B, "K": K, "T": T, "freq": freq, "tk": tk, "stiff": stiff})
    return out


def _calc_am(frclim, ode, c):
    with warnings.catch_warnings():
        warnings.simplefilter("ignore")
        S = [c["M"], c["B"], c["K"], c["T"] if "T" in c else c["bset"]]
        route = c.get("route", "default")
        if route == "freqdirect":
            return frclim.calcAM(S, c["freq"], fs=ode.FreqDirect(c["M"], c["B"], c["K"]))
        if route == "solveunc":
            return frclim.calcAM(S, c["freq"], fs=ode.SolveUnc(c["M"], c["B"], c["K"]))
        if route in ("solveunc-h", "solveunc-h-pre"):
            # the solver object one already has for transient runs (built with a time step: conjugate modes deleted)
            return frclim.calcAM(S, c["freq"], fs=ode.SolveUnc(c["M"], c["B"], c["K"], 0.001, pre_eig=route.endswith("pre")))
        return frclim.calcAM(S, c["freq"])


def _eig_grade(c):
    """tolerance factor for the deliberately stiff family (one dashpot of 1.5 .. 6 times critical in a lightly damped
    structure, so that the roots mix real and complex eigenvalues): every route loses digits there (measured: up to 2e-6
    relative, uncorrelated with the conditioning of the eigenvectors SolveUnc computes), so these cases are compared at
    1e-5; what this family is for - a wrong set of modes, a missing conjugate - is an O(1) error"""
    return 1e4 if c.get("stiff") else 1.0


def _compare_am(ctx, stream, c, inp, am, model, cond, extra_ok=None):
    """entry-wise comparison per frequency; frequencies beyond the conditioning domain are skipped"""
    nf = len(c["freq"])
    if am.shape != model.shape:
        ctx.disagree(stream, inp, {"shape": list(am.shape)}, list(model.shape))
        return 0.0
    worst = 0.0
    for j in range(nf):
        if not cond[j] <= CONDMAX:
            ctx.skip(stream + ": condition estimate > 1e5")
            continue
        sc = np.abs(model[:, j, :]).max()
        e = np.abs(am[:, j, :] - model[:, j, :]).max() / max(sc, 1e-300)
        worst = max(worst, e)
        if not e <= TOL * _eig_grade(c) * max(1.0, cond[j] / 100):
            ctx.disagree(stream, inp, {"freq_index": j, "impl": _enc(am[:, j, :])},
                         {"model": _enc(model[:, j, :]), "relerr": float(e), "cond": float(cond[j])})
            break
    return worst


def _corr_drm(ctx, drv, frclim, ode):
    cases = _drm_cases(ctx)
    req = []
    for c in cases:
        r, n = c["T"].shape
        req.append("amdrm %d %d %d %s %s %s %s %s" % (r, n, len(c["freq"]), _cbits(c["M"]), _cbits(c["B"]),
                                                      _cbits(c["K"]), _cbits(c["T"]), _fbits(c["freq"])))
    rep = drv.ask(req)
    worst = 0.0
    for c, line in zip(cases, rep):
        if line == "bad-op":
            raise Infra("driver refused an amdrm request")
        r, n = c["T"].shape
        nf = len(c["freq"])
        model = _parse_c(line, (r, nf, r))
        _, _, cond = _am_numpy(c["M"], c["B"], c["K"], c["T"], c["freq"])
        inp = {"kind": "calcAM-drm", "route": c["route"], "M": _enc(c["M"]), "B": _enc(c["B"]), "K": _enc(c["K"]),
               "T": _enc(c["T"]), "freq": c["freq"].tolist(), "stiff": bool(c.get("stiff"))}
        ctx.case(("drm", c["M"].tobytes()[:64], c["T"].tobytes()[:32]), nontrivial=r >= 2,
                 branch="calcAM-drm:%s:%s" % (c["route"], c["tk"]))
        try:
            am = _calc_am(frclim, ode, c)
        except Exception as e:  # noqa: BLE001
            ctx.disagree("calcAM-drm", inp, "exception %s: %s" % (type(e).__name__, e), "values")
            continue
        worst = max(worst, _compare_am(ctx, "calcAM-drm", c, inp, np.asarray(am), model, cond))
        if len(ctx.samples) < 4:
            ctx.sample({"stream": "calcAM-drm", "route": c["route"], "r": r, "n": n,
                        "AM[0,0,0]": complex(am[0, 0, 0]), "model": complex(model[0, 0, 0])})
    ctx.extra["calcAM_drm_worst_relerr"] = worst


def _pv_cases(ctx):
    rng = ctx.np_rng(153)
    n = ctx.pick(300, 3000)
    out = []
    for c in _corpus(ctx):  # minimised past failures run first
        if c.get("kind") == "calcAM-pv":
            M = _dec(c["M"])
            bset = np.array(c["bset"], dtype=int)
            out.append({"M": M, "B": _dec(c["B"]), "K": _dec(c["K"]), "bset": bset, "freq": np.array(c["freq"], dtype=float),
                        "nq": M.shape[0] - len(bset), "sym": bool(np.allclose(M, M.T)), "corpus": True})
            ctx.count("corpus")
    for it in range(n):
        r = int(rng.integers(1, 7))
        nq = 0 if it % 9 == 4 else int(rng.integers(1, 6))
        n_ = r + nq
        sym = it % 2 == 0
        eps = 0.0 if sym else 0.12
        M = _rand_spd(rng, n_, 0.5, 4.0) + eps * rng.standard_normal((n_, n_))
        w = 2 * np.pi * 30
        K = (_rand_spd(rng, n_, 0.2, 4.0) + eps * rng.standard_normal((n_, n_))) * w * w
        B = (_rand_spd(rng, n_, 0.1, 2.0) + eps * rng.standard_normal((n_, n_))) * (0.04 * w)
        # units: the same model in mg / mN/m instead of kg / N/m (all three matrices times one factor) has generalized
        # stiffness far below any absolute tolerance (SolveUnc's rigid-body auto-detection uses |k| < 0.005)
        units = (1.0, 1.0, 1e-6, 1e-9, 1e4)[it % 5]
        M, B, K = M * units, B * units, K * units
        bset = rng.permutation(n_)[:r]  # scattered and unordered
        if it % 3 == 0:  # Craig-Bampton form: no b-q stiffness coupling
            q = np.setdiff1d(np.arange(n_), bset)
            K[np.ix_(bset, q)] = 0.0
            K[np.ix_(q, bset)] = 0.0
        nf = int(rng.integers(2, 6))
        freq = np.sort(rng.uniform(1.0, 150.0, nf))
        if it % 4 == 1:
            freq[0] = 0.0
        if it % 6 == 2:
            freq = np.arange(2, 2 + 9 * nf, 9) + int(rng.integers(0, 20))  # integer dtype, as from np.arange
        out.append({"M": M, "B": B, "K": K, "bset": bset, "freq": freq, "nq": nq, "sym": sym})
    return out


def _pv_cond(c):
    """condition estimate for the q-q solve of cbtf (plain numpy)"""
    n_ = c["M"].shape[0]
    q = np.setdiff1d(np.arange(n_), c["bset"])
    cond = np.ones(len(c["freq"]))
    if q.size:
        qq = np.ix_(q, q)
        for j, f in enumerate(c["freq"]):
            O = 2 * np.pi * f
            cond[j] = np.linalg.cond(_Z(c["M"][qq], c["B"][qq], c["K"][qq], O))
    return cond


def _corr_pv(ctx, drv, frclim, ode):
    cases = _pv_cases(ctx)
    req = []
    for c in cases:
        r, n = len(c["bset"]), c["M"].shape[0]
        op = "ampvf" if len(req) % 3 == 1 else "ampv"  # column by column from cbtfCol (Model/NTCbtf) / block formula
        if op == "ampvf":
            ctx.count("calcAM-pv:column-by-column")
        req.append("%s %d %d %d %s %s %s %s %s" % (op, r, n, len(c["freq"]), _cbits(c["M"]), _cbits(c["B"]),
                                                     _cbits(c["K"]), " ".join(str(int(i)) for i in c["bset"]),
                                                     _fbits(c["freq"])))
    rep = drv.ask(req)
    worst = 0.0
    for c, line in zip(cases, rep):
        if line == "bad-op":
            raise Infra("driver refused an ampv request")
        r = len(c["bset"])
        nf = len(c["freq"])
        model = _parse_c(line, (r, nf, r))
        nz = c["freq"] != 0
        cond = _pv_cond(c)
        cond[nz] = np.maximum(cond[nz], _kappa_qq(c["M"], c["B"], c["K"], c["bset"], c["freq"][nz]))
        inp = {"kind": "calcAM-pv", "M": _enc(c["M"]), "B": _enc(c["B"]), "K": _enc(c["K"]),
               "bset": [int(i) for i in c["bset"]], "freq": c["freq"].tolist()}
        br = "calcAM-pv:" + ("empty-qset" if c["nq"] == 0 else "sym" if c["sym"] else "nonsym")
        ctx.case(("pv", c["M"].tobytes()[:64], tuple(int(i) for i in c["bset"])), nontrivial=r >= 2 or c["nq"] > 0, branch=br)
        if (c["freq"] == 0.0).any():
            ctx.count("calcAM-pv:f=0")
        if c["nq"] == 0 and np.any(np.diff(c["bset"]) < 0):
            ctx.count("calcAM-pv:empty-qset-unsorted")
        try:
            am = _calc_am(frclim, ode, c)
        except Exception as e:  # noqa: BLE001
            ctx.disagree("calcAM-pv", inp, "exception %s: %s" % (type(e).__name__, e), "values")
            continue
        worst = max(worst, _compare_am(ctx, "calcAM-pv", c, inp, np.asarray(am), model, cond))
        if len(ctx.samples) < 6:
            ctx.sample({"stream": "calcAM-pv", "bset": [int(i) for i in c["bset"]], "n": int(c["M"].shape[0]),
                        "AM[0,0,0]": complex(am[0, 0, 0]), "model": complex(model[0, 0, 0])})
    ctx.extra["calcAM_pv_worst_relerr"] = worst


def _corr_layout(ctx, drv):
    """idx3 of the model against numpy's C-order strides (exact)."""
    rng = ctx.rng
    req, want = [], []
    for _ in range(200):
        b, nf = rng.randint(1, 6), rng.randint(1, 9)
        i, j, k = rng.randrange(b), rng.randrange(nf), rng.randrange(b)
        req.append("idx3 %d %d %d %d %d" % (nf, b, i, j, k))
        want.append(int(np.ravel_multi_index((i, j, k), (b, nf, b))))
    rep = drv.ask(req)
    for q, w, g in zip(req, want, rep):
        ctx.case(q, nontrivial=False, branch="layout")
        if str(w) != g:
            ctx.disagree("layout", q, w, g)



# ---------------------------------------------------------------------------------------
# cb.cbtf in full (Model/NTCbtf.lean): every returned array, every form of `a`, cold / warm `save`


def _cbtf_cases(ctx):
    rng = ctx.np_rng(155)
    n = ctx.pick(240, 2400)
    out = []
    for it in range(n):
        r = int(rng.integers(1, 6))
        nq = 0 if it % 8 == 5 else int(rng.integers(1, 6))
        n_ = r + nq
        sym = it % 2 == 0
        eps = 0.0 if sym else 0.12
        M = _rand_spd(rng, n_, 0.5, 4.0) + eps * rng.standard_normal((n_, n_))
        w = 2 * np.pi * 30
        K = (_rand_spd(rng, n_, 0.2, 4.0) + eps * rng.standard_normal((n_, n_))) * w * w
        B = (_rand_spd(rng, n_, 0.1, 2.0) + eps * rng.standard_normal((n_, n_))) * (0.04 * w)
        units = (1.0, 1.0, 1e-6, 1e4)[it % 4]
        M, B, K = M * units, B * units, K * units
        bset = rng.permutation(n_)[:r]
        if it % 3 == 0:
            q = np.setdiff1d(np.arange(n_), bset)
            K[np.ix_(bset, q)] = 0.0
            K[np.ix_(q, bset)] = 0.0
        nf = int(rng.integers(1, 5))
        freq = np.sort(rng.uniform(1.0, 150.0, nf))
        if it % 4 == 1:
            freq[0] = 0.0
        if it % 6 == 2:
            freq = np.arange(2, 2 + 9 * nf, 9) + int(rng.integers(0, 20))
        aform = ("vec", "col", "mat", "mat")[it % 4]
        if aform == "vec":
            a_in = rng.standard_normal(r)
            a = np.repeat(a_in[:, None], nf, axis=1) + 0j
        elif aform == "col":
            a_in = rng.standard_normal((r, 1)) + 1j * rng.standard_normal((r, 1))
            a = np.repeat(a_in, nf, axis=1)
        else:
            a_in = rng.standard_normal((r, nf)) + 1j * rng.standard_normal((r, nf))
            a = a_in.copy()
            if nf == 1:
                aform = "col"
        save = ("none", "dict", "warm", "warm")[(it // 4) % 4]
        if nq == 0 and save == "warm":
            save = "dict"
        out.append({"M": M, "B": B, "K": K, "bset": bset, "freq": freq, "nq": nq, "a_in": a_in, "a": a, "aform": aform,
                    "save": save, "sym": sym})
    return out


def _run_cbtf(cb, rng, c):
    """the real routine; `warm`: the dictionary comes from an earlier call on the same model with ANOTHER enforced
    acceleration and ANOTHER frequency vector (other values, other length)"""
    with warnings.catch_warnings():
        warnings.simplefilter("ignore")
        if c["save"] == "none":
            return cb.cbtf(c["M"], c["B"], c["K"], c["a_in"], c["freq"], c["bset"])
        save = {}
        if c["save"] == "warm":
            # another frequency vector: half of the time of the SAME length (a cache that only compares lengths)
            f2 = np.sort(rng.uniform(0.5, 200.0, len(c["freq"]) + (2 if rng.random() < 0.5 else 0)))
            cb.cbtf(c["M"], c["B"], c["K"], rng.standard_normal(len(c["bset"])), f2, c["bset"], save)
        return cb.cbtf(c["M"], c["B"], c["K"], c["a_in"], c["freq"], c["bset"], save)


def _corr_cbtf(ctx, drv, cb):
    cases = _cbtf_cases(ctx)
    rng = ctx.np_rng(156)
    req = []
    for c in cases:
        r, n = len(c["bset"]), c["M"].shape[0]
        req.append("cbtf %d %d %d %s %s %s %s %s %s" % (r, n, len(c["freq"]), _cbits(c["M"]), _cbits(c["B"]), _cbits(c["K"]),
                                                        " ".join(str(int(i)) for i in c["bset"]), _cbits(c["a"]),
                                                        _fbits(np.asarray(c["freq"], dtype=float))))
    rep = drv.ask(req)
    worst = 0.0
    for c, line in zip(cases, rep):
        if line == "bad-op":
            raise Infra("driver refused a cbtf request")
        r, n = len(c["bset"]), c["M"].shape[0]
        nf = len(c["freq"])
        rows = r if c["nq"] == 0 else n
        parts = line.split("|")
        model = {"frc": _parse_c(parts[0], (r, nf)), "a": _parse_c(parts[1], (rows, nf)),
                 "d": _parse_c(parts[2], (rows, nf)), "v": _parse_c(parts[3], (rows, nf))}
        fz = np.asarray(c["freq"], dtype=float)
        cond = _pv_cond(dict(c, freq=fz))
        if c["nq"]:
            cond = np.maximum(cond, _kappa_qq(c["M"], c["B"], c["K"], c["bset"], fz))
        inp = {"kind": "cbtf", "M": _enc(c["M"]), "B": _enc(c["B"]), "K": _enc(c["K"]), "bset": [int(i) for i in c["bset"]],
               "freq": np.asarray(c["freq"]).tolist(), "a": _enc(c["a_in"]), "save": c["save"]}  # ints stay ints (dtype)
        ctx.case(("cbtf", c["M"].tobytes()[:64], tuple(int(i) for i in c["bset"])), nontrivial=True,
                 branch="cbtf:a=" + c["aform"])
        ctx.count("cbtf:save=" + c["save"])
        if (fz == 0).any():
            ctx.count("cbtf:f=0")
        if c["nq"] == 0:
            ctx.count("cbtf:empty-qset")
            if np.any(np.diff(c["bset"]) < 0):
                ctx.count("cbtf:empty-qset-unsorted")  # the inputs of finding F59 (a, d, v in model order)
        if np.any(np.diff(c["bset"]) < 0):
            ctx.count("cbtf:unsorted")
        try:
            tf = _run_cbtf(cb, rng, c)
        except Exception as e:  # noqa: BLE001
            ctx.disagree("cbtf", inp, "exception %s: %s" % (type(e).__name__, e), "values")
            continue
        done = False
        for name in ("frc", "a", "d", "v"):
            got = np.asarray(getattr(tf, name))
            want = model[name]
            if got.shape != want.shape:
                ctx.disagree("cbtf", inp, {"field": name, "shape": list(got.shape)}, list(want.shape))
                break
            for j in range(nf):
                if not cond[j] <= CONDMAX:
                    ctx.skip("cbtf: condition estimate > 1e5")
                    continue
                sc = max(np.abs(want[:, j]).max(), 1e-300)
                e = np.abs(got[:, j] - want[:, j]).max() / sc
                if np.abs(want[:, j]).max() == 0.0:
                    e = np.abs(got[:, j]).max()
                worst = max(worst, e)
                if not e <= TOL * max(1.0, cond[j] / 100):
                    ctx.disagree("cbtf", inp, {"field": name, "freq_index": j, "impl": _enc(got[:, j])},
                                 {"model": _enc(want[:, j]), "relerr": float(e), "cond": float(cond[j])})
                    done = True
                    break
            if done:
                break
        if not np.array_equal(np.asarray(tf.freq, dtype=float), fz) or not np.array_equal(np.asarray(tf.f, dtype=float), fz):
            ctx.disagree("cbtf", inp, {"field": "freq", "impl": np.asarray(tf.freq).tolist()}, fz.tolist())
    ctx.extra["cbtf_worst_relerr"] = worst


def _corr_packa(ctx, drv, cb):
    """argument packaging of `a` (exact: shapes and the two ValueErrors of the routine)"""
    rng = ctx.rng
    M = np.eye(4)
    Z = np.zeros((4, 4))
    req, runs = [], []
    for _ in range(60):
        nb = rng.randint(1, 3)
        lenf = rng.randint(1, 4)
        if rng.random() < 0.4:
            ln = rng.choice([nb, nb, lenf, rng.randint(1, 4)])
            req.append("packa v %d %d %d" % (ln, lenf, nb))
            a = np.ones(ln)
        else:
            rows = rng.choice([nb, nb, rng.randint(1, 4)])
            cols = rng.choice([1, lenf, lenf, rng.randint(1, 4)])
            req.append("packa m %d %d %d %d" % (rows, cols, lenf, nb))
            a = np.ones((rows, cols))
        runs.append((a, np.arange(lenf) + 1.0, np.arange(nb)))
    rep = drv.ask(req)
    for q, (a, freq, bset), g in zip(req, runs, rep):
        try:
            tf = cb.cbtf(M, Z, M, a, freq, bset)
            impl = "ok %d %d" % tf.frc.shape
        except ValueError as e:
            impl = "err " + str(e)
        except Exception as e:  # noqa: BLE001
            impl = "exception " + type(e).__name__
        ctx.case(q, nontrivial=False, branch="packa:" + g.split()[0])
        if impl != g:
            ctx.disagree("packa", q, impl, g)


def _corr_flippv(ctx, drv):
    from pyyeti import locate

    rng = ctx.rng
    req, want = [], []
    for _ in range(80):
        n = rng.randint(1, 9)
        r = rng.randint(1, n)
        bset = rng.sample(range(n), r)
        req.append("flippv %d %s" % (n, " ".join(map(str, bset))))
        want.append(" ".join(str(int(i)) for i in locate.flippv(np.array(bset), n)) + ".")
    rep = drv.ask(req)
    for q, w, g in zip(req, want, rep):
        ctx.case(q, nontrivial=False, branch="flippv")
        if w != g:
            ctx.disagree("flippv", q, w, g)


# ---------------------------------------------------------------------------------------
# exact streams: Gaussian dyadic rationals, for which every floating-point operation of the real
# code is exact; the Lean model runs the same definitions in exact rational arithmetic


def _gq_tokens(z, den):
    z = np.asarray(z, dtype=complex).ravel()
    out = []
    for x in z:
        re, im = x.real * den, x.imag * den
        if re != int(re) or im != int(im):
            raise Infra("exact stream: input not on the 1/%d grid" % den)
        out.append("%d %d" % (int(re), int(im)))
    return " ".join(out)


def _parse_gq(s, shape):
    from fractions import Fraction

    t = s.split()
    vals = [(Fraction(t[2 * i]), Fraction(t[2 * i + 1])) for i in range(len(t) // 2)]
    return np.array(vals, dtype=object).reshape(tuple(shape) + (2,))


def _exact_eq(got, want):
    """float complex array == exact rational array, entry by entry, no tolerance"""
    from fractions import Fraction

    got = np.asarray(got, dtype=complex)
    if got.shape != want.shape[:-1]:
        return False
    for idx in np.ndindex(got.shape):
        z = got[idx]
        if not (np.isfinite(z.real) and np.isfinite(z.imag)):
            return False
        if Fraction(float(z.real)) != want[idx][0] or Fraction(float(z.imag)) != want[idx][1]:
            return False
    return True


def _gint(rng, sh, den, lo=-8, hi=9, cplx=True):
    x = rng.integers(lo, hi, sh).astype(float)
    if cplx:
        x = x + 1j * rng.integers(lo, hi, sh)
    return x / den


_UNITS = (1.0, -1.0, 1j, -1j)


def _corr_ntfl_exact(ctx, drv, frclim):
    rng = ctx.np_rng(157)
    n = ctx.pick(300, 3000)
    den = 8
    cases, req = [], []
    for it in range(n):
        b = int(rng.integers(1, 6))
        nf = int(rng.integers(1, 4))
        SAM = _gint(rng, (b, nf, b), den, cplx=it % 5 != 0)
        T = np.zeros((b, nf, b), complex)
        for j in range(nf):
            perm = rng.permutation(b) if it % 2 else np.arange(b)
            for i in range(b):
                T[i, j, perm[i]] = _UNITS[int(rng.integers(0, 4)) if it % 5 else 0] * 2.0 ** int(rng.integers(-2, 4))
        LAM = T - SAM
        As = _gint(rng, (b, nf), den, cplx=it % 5 != 0)
        cases.append((b, nf, SAM, LAM, As, "perm" if it % 2 else "diag"))
        req.append("ntflx %d %d %d %s %s %s" % (b, nf, den, _gq_tokens(SAM, den), _gq_tokens(LAM, den), _gq_tokens(As, den)))
    rep = drv.ask(req)
    for (b, nf, SAM, LAM, As, kind), line in zip(cases, rep):
        if line == "bad-op":
            raise Infra("driver refused an ntflx request")
        parts = line.split("|")
        if parts[4] != "ok":
            raise Infra("exact model: (Ms+Ml) Mr = Ms not satisfied by the model's own solver")
        want = {"A": _parse_gq(parts[0], (b, nf)), "F": _parse_gq(parts[1], (b, nf)), "R": _parse_gq(parts[2], (b, nf)),
                "TAM": _parse_gq(parts[3], (b, nf, b))}
        inp = {"kind": "ntfl-arrays", "SAM": _enc(SAM), "LAM": _enc(LAM), "As": _enc(As), "exact": True}
        ctx.case(("ntflx", b, nf, SAM.tobytes()[:64]), nontrivial=b >= 2, branch="ntfl-exact:" + kind)
        freq = np.arange(nf) + 1.0
        try:
            o = frclim.ntfl(SAM.copy(), LAM.copy(), As.copy(), freq)
        except Exception as e:  # noqa: BLE001
            ctx.disagree("ntfl-exact", inp, "exception " + type(e).__name__, "values")
            continue
        for name in ("A", "F", "R", "TAM"):
            if not _exact_eq(getattr(o, name), want[name]):
                ctx.disagree("ntfl-exact", inp, {"field": name, "impl": _enc(np.asarray(getattr(o, name)))},
                             {"model": [[str(x) for x in v] for v in want[name].reshape(-1, 2)[:8]]})
                break
        # the pass-through fields
        if not (np.array_equal(o.SAM, SAM) and np.array_equal(o.LAM, LAM) and np.array_equal(np.asarray(o.freq), freq)):
            ctx.disagree("ntfl-exact", inp, {"field": "SAM/LAM/freq pass-through"}, "inputs returned unchanged")


def _corr_cbtf_exact(ctx, drv, cb, frclim):
    """f = 0: frc, a, v are exact for any dyadic model; d is exact when the q-q blocks are diagonal with power-of-two
    stiffness (SolveUnc then divides, equation by equation); also calcAM (partition vector) at f = 0"""
    rng = ctx.np_rng(158)
    n = ctx.pick(150, 1500)
    den = 4
    cases, req = [], []
    for it in range(n):
        r = int(rng.integers(1, 4))
        nq = 0 if it % 7 == 3 else int(rng.integers(1, 4))
        n_ = r + nq
        M = _gint(rng, (n_, n_), den, cplx=False)
        M = M + M.T
        B = _gint(rng, (n_, n_), den, cplx=False)
        K = _gint(rng, (n_, n_), den, cplx=False)
        bset = rng.permutation(n_)[:r]
        q = np.setdiff1d(np.arange(n_), bset)
        diag = it % 2 == 0
        if nq:
            if diag:
                for X in (M, B, K):
                    X[np.ix_(q, q)] = 0
                M[q, q] = 2.0 ** rng.integers(-2, 3, nq)
                K[q, q] = 2.0 ** rng.integers(-2, 3, nq)
                B[q, q] = _gint(rng, nq, den, cplx=False)
            else:
                K[np.ix_(q, q)] += np.eye(nq) * 16
                M[np.ix_(q, q)] += np.eye(nq) * 16
        a = _gint(rng, r, den, cplx=False)
        cases.append({"M": M, "B": B, "K": K, "bset": bset, "a": a, "nq": nq, "diag": diag})
        req.append("cbtfx %d %d %d %s %s %s %s %s" % (r, n_, den, _gq_tokens(M, den), _gq_tokens(B, den), _gq_tokens(K, den),
                                                      " ".join(str(int(i)) for i in bset), _gq_tokens(a, den)))
    rep = drv.ask(req)
    for c, line in zip(cases, rep):
        if line == "bad-op":
            raise Infra("driver refused a cbtfx request")
        r, n_ = len(c["bset"]), c["M"].shape[0]
        rows = r if c["nq"] == 0 else n_
        parts = line.split("|")
        want = {"frc": _parse_gq(parts[0], (r, 1)), "a": _parse_gq(parts[1], (rows, 1)), "d": _parse_gq(parts[2], (rows, 1)),
                "v": _parse_gq(parts[3], (rows, 1))}
        inp = {"kind": "cbtf", "M": _enc(c["M"]), "B": _enc(c["B"]), "K": _enc(c["K"]), "bset": [int(i) for i in c["bset"]],
               "freq": [0.0], "a": _enc(c["a"]), "save": "none", "exact": True}
        ctx.case(("cbtfx", c["M"].tobytes()[:64], tuple(int(i) for i in c["bset"])), nontrivial=True,
                 branch="cbtf-exact:" + ("empty-qset" if c["nq"] == 0 else "diag-qq" if c["diag"] else "full-qq"))
        try:
            with warnings.catch_warnings():
                warnings.simplefilter("ignore")
                tf = cb.cbtf(c["M"], c["B"], c["K"], c["a"], [0.0], c["bset"])
                am = frclim.calcAM([c["M"], c["B"], c["K"], c["bset"]], [0.0])
        except Exception as e:  # noqa: BLE001
            ctx.disagree("cbtf-exact", inp, "exception %s: %s" % (type(e).__name__, e), "values")
            continue
        fields = ("frc", "a", "v", "d") if (c["diag"] or c["nq"] == 0) else ("frc", "a", "v")
        for name in fields:
            if not _exact_eq(getattr(tf, name), want[name]):
                ctx.disagree("cbtf-exact", inp, {"field": name, "impl": _enc(np.asarray(getattr(tf, name)))},
                             {"model": [[str(x) for x in v] for v in want[name].reshape(-1, 2)[:8]]})
                break
        # calcAM at f = 0 is m[bset][:, bset] exactly (`calcAM_pv_zero_freq`)
        if not np.array_equal(np.asarray(am)[:, 0, :], c["M"][np.ix_(c["bset"], c["bset"])]):
            ctx.disagree("cbtf-exact", dict(inp, kind="calcAM-pv", freq=[0.0]), {"AM(f=0)": _enc(np.asarray(am)[:, 0, :])},
                         "m[bset][:, bset]")


def _corr_packas(ctx, drv, frclim):
    """shapes through ntfl: np.atleast_2d(As), the routine's size check, numpy's own ValueError (exact)"""
    rng = ctx.rng
    req, runs = [], []
    for _ in range(60):
        r = rng.randint(1, 3)
        nf = rng.randint(1, 4)
        lenf = rng.choice([nf, nf, nf, rng.randint(1, 4)])
        cl = rng.choice([nf, nf, nf, rng.randint(1, 4)])
        form = rng.choice(["vec", "mat", "mat", "mat"])
        if form == "vec":
            dims = [rng.choice([nf, nf, r])]
        else:
            dims = [rng.choice([r, r, r, rng.randint(1, 3)]), rng.choice([nf, nf, nf, rng.randint(1, 4)])]
        req.append("packas %d %d %d %d %d %d %d %d %s" % (lenf, r, nf, r, r, cl, r, len(dims), " ".join(map(str, dims))))
        runs.append((np.ones((r, nf, r)) * 2 + 0j, np.ones((r, cl, r)) + 0j, np.ones(dims), np.arange(lenf) + 1.0))
    rep = drv.ask(req)
    for q, (SAM, LAM, As, freq), g in zip(req, runs, rep):
        try:
            SAMd = SAM + np.eye(SAM.shape[0])[:, None, :]
            o = frclim.ntfl(SAMd, LAM, As, freq)
            impl = "ok %s | %s" % (" ".join(map(str, o.A.shape)), " ".join(map(str, o.TAM.shape)))
        except ValueError:
            impl = "err ValueError"
        except Exception as e:  # noqa: BLE001
            impl = "exception " + type(e).__name__
        ctx.case(q, nontrivial=False, branch="packas:" + g.split()[0])
        if impl != g:
            ctx.disagree("packas", q, impl, g)


def correspondence(ctx):
    frclim, ode, cb = _pyyeti()
    drv = ctx.driver("C15")
    _corr_layout(ctx, drv)
    _corr_flippv(ctx, drv)
    _corr_packa(ctx, drv, cb)
    _corr_packas(ctx, drv, frclim)
    _corr_ntfl_exact(ctx, drv, frclim)
    _corr_cbtf_exact(ctx, drv, cb, frclim)
    _corr_ntfl(ctx, drv, frclim)
    _corr_cbtf(ctx, drv, cb)
    _corr_drm(ctx, drv, frclim, ode)
    _corr_pv(ctx, drv, frclim, ode)
    ctx.require_branches(
        ["ntfl-arrays:b=%d" % b for b in range(1, 7)]
        + ["calcAM-drm:default:select", "calcAM-drm:default:dense", "calcAM-drm:default:signed", "calcAM-drm:default:scaled",
           "calcAM-drm:freqdirect:select",
           "calcAM-drm:freqdirect:dense", "calcAM-drm:solveunc:select", "calcAM-pv:sym", "calcAM-pv:nonsym",
           "calcAM-pv:empty-qset", "calcAM-pv:empty-qset-unsorted", "calcAM-pv:f=0", "calcAM-pv:column-by-column", "layout",
           "flippv", "packa:ok", "packa:err", "packas:ok", "packas:err", "ntfl-exact:diag", "ntfl-exact:perm",
           "cbtf-exact:empty-qset", "cbtf-exact:diag-qq", "cbtf-exact:full-qq",
           "cbtf:a=vec", "cbtf:a=col", "cbtf:a=mat", "cbtf:save=none", "cbtf:save=dict", "cbtf:save=warm", "cbtf:f=0",
           "cbtf:empty-qset", "cbtf:empty-qset-unsorted", "cbtf:unsorted"]
    )


# ---------------------------------------------------------------------------------------
# model-free oracle


def _chk(fails, family, what, inp, x, ref, cond, axis_f, tol=TOL):
    """compare per frequency inside the conditioning domain; returns number of skipped freqs"""
    x = np.asarray(x)
    if x.shape != ref.shape:
        fails.append((family, what + " (shape)", inp, list(x.shape), list(ref.shape)))
        return 0
    e = _relerr(x, ref, axis_f)
    ok = cond <= CONDMAX
    lim = tol * np.maximum(1.0, cond / 100)
    if ok.any():
        key = family.split("-multi-dof")[0].split("-single-dof")[0]
        _STATS[key] = max(_STATS.get(key, 0.0), float((e[ok] / lim[ok]).max()))
    bad = ok & ~(e <= lim)
    if bad.any():
        j = int(np.argmax(bad))
        fails.append((family, what, dict(inp, freq_index=j),
                      {"value": _enc(np.take(x, j, axis=axis_f)), "relerr": float(e[j])},
                      {"value": _enc(np.take(ref, j, axis=axis_f)), "tol": float(lim[j]), "cond": float(cond[j])}))
    return int((~ok).sum())


def _oracle_pair(p, frclim, ode, cb):
    """All model-free checks on one source/load pair; returns (failures, skipped, stats)."""
    fails, skipped = [], 0
    r, freq, Fs = p["r"], p["freq"], p["Fs"]
    S, L = p["S"], p["L"]
    ns, nl = S[0].shape[0], L[0].shape[0]
    Ts, Tl = np.eye(r, ns), np.eye(r, nl)
    tag = "r%d-%s" % (min(r, 2), p["damping"])
    tag = ("multi-dof-" if r > 1 else "single-dof-") + p["damping"]
    inp = {"kind": "pair", "r": r, "damping": p["damping"], "Ms": _enc(S[0]), "Bs": _enc(S[1]), "Ks": _enc(S[2]),
           "Ml": _enc(L[0]), "Bl": _enc(L[1]), "Kl": _enc(L[2]), "freq": freq.tolist(), "Fs": _enc(Fs),
           "determinate": bool(p["nrb"] == r)}
    with warnings.catch_warnings():
        warnings.simplefilter("ignore")
        A, F, As, cz = _coupled_numpy(S, L, Ts, Tl, Fs, freq)
        SAMn, SAcc, cs = _am_numpy(*S, Ts, freq)
        LAMn, LAcc, cl = _am_numpy(*L, Tl, freq)
        ct = np.array([np.linalg.cond(SAMn[:, j] + LAMn[:, j]) for j in range(len(freq))])
        call = np.maximum.reduce([cz, cs, cl, ct])

        # --- calcAM through every route and both boundary forms --------------------------
        routes = {}
        kap = {"source": np.ones(len(freq)), "load": np.ones(len(freq))}
        for nm, (X, T, Xn, cx) in (("source", (S, Ts, SAMn, cs)), ("load", (L, Tl, LAMn, cl))):
            c = {"M": X[0], "B": X[1], "K": X[2], "T": T, "freq": freq}
            routes[nm + "-drm-default"] = (_calc_am(frclim, ode, c), Xn, cx)
            routes[nm + "-drm-freqdirect"] = (_calc_am(frclim, ode, dict(c, route="freqdirect")), Xn, cx)
            if X[0].shape[0] > r:
                m, b, k = _cb_form(*X, r)
                n_ = m.shape[0]
                perm = np.random.default_rng(int(abs(X[0][0, 0]) * 1e6) % 2 ** 31).permutation(n_)
                inv = np.argsort(perm)  # new position of old DOF
                mp, bp, kp = (Y[np.ix_(perm, perm)] for Y in (m, b, k))
                bset = inv[:r]  # where the b-set went (unordered, scattered)
                kap[nm] = _kappa_qq(mp, bp, kp, bset, freq)
                routes[nm + "-pv-cbform"] = (frclim.calcAM([mp, bp, kp, bset], freq), Xn, np.maximum(cx, kap[nm]))
                Tsel = np.zeros((r, n_))
                Tsel[np.arange(r), bset] = 1.0
                routes[nm + "-drm-on-cbform"] = (frclim.calcAM([mp, bp, kp, Tsel], freq), Xn, cx)
        for nm, (am, ref, cx) in routes.items():
            fam = "calcAM-%s-vs-definition-%s" % (nm.split("-", 1)[1], tag)
            skipped += _chk(fails, fam, "calcAM (%s) differs from inv(T Z^-1 T' (-W^2)) computed with numpy" % nm,
                            dict(inp, route=nm), am, ref, cx, 1)
        # AM . Acc = I
        for nm, am, acc, cx in (("source", routes["source-drm-default"][0], SAcc, cs),
                                ("load", routes["load-drm-default"][0], LAcc, cl)):
            if np.asarray(am).shape == acc.shape:
                prod = np.einsum("ijk,kjl->ijl", np.asarray(am), acc)
                eye = np.broadcast_to(np.eye(r)[:, None, :], prod.shape) + 0j
                skipped += _chk(fails, "am-times-accelerance-" + tag, "AM @ Acc != I (%s)" % nm, dict(inp, route=nm),
                                prod, eye, cx * 10, 1)

        # --- ntfl against the directly coupled system -----------------------------------
        cbS = None
        variants = {"lists": ([*S, Ts], [*L, Tl]), "arrays": (routes["source-drm-default"][0], routes["load-drm-default"][0])}
        if "source-pv-cbform" in routes and "load-pv-cbform" in routes:
            variants["pv-arrays"] = (routes["source-pv-cbform"][0], routes["load-pv-cbform"][0])
        if ns > r:
            m, b, k = _cb_form(*S, r)
            variants["mixed-pv-source"] = ([m, b, k, np.arange(r)], [*L, Tl])
        call0 = call
        for vn, (src, lod) in variants.items():
            nt = frclim.ntfl(src, lod, As, freq)
            call = call0
            if vn == "pv-arrays":
                call = np.maximum.reduce([call0, kap["source"], kap["load"]])
            elif vn == "mixed-pv-source":
                call = np.maximum(call0, _kappa_qq(*src[:3], src[3], freq))
            fam = "ntfl-%s-vs-direct-coupling-" + tag
            skipped += _chk(fails, fam % "A", "ntfl interface acceleration differs from the coupled solve (%s)" % vn,
                            dict(inp, variant=vn), nt.A, A, call, 1)
            skipped += _chk(fails, fam % "F", "ntfl interface force differs from the coupled solve (%s)" % vn,
                            dict(inp, variant=vn), nt.F, F, call, 1)
            skipped += _chk(fails, "ntfl-TAM-not-SAM-plus-LAM-" + tag, "TAM != SAM + LAM (%s)" % vn,
                            dict(inp, variant=vn), nt.TAM, SAMn + LAMn, call, 1)
            Rn = np.array([np.diag(np.linalg.solve(SAMn[:, j] + LAMn[:, j], SAMn[:, j])) for j in range(len(freq))]).T
            skipped += _chk(fails, "ntfl-R-" + tag, "R != diag((SAM+LAM)^-1 SAM) (%s)" % vn,
                            dict(inp, variant=vn), nt.R, Rn, call, 1)
        call = call0
        # TAM is the apparent mass of the coupled system at the interface
        n = ns + nl - r
        il = np.r_[0:r, ns:n]

        def asm(a, b_):
            X = np.zeros((n, n))
            X[:ns, :ns] += a
            X[np.ix_(il, il)] += b_
            return X

        C = [asm(S[i], L[i]) for i in range(3)]
        if p["damping"] in RB_DAMPED:
            # source and load carry DIFFERENT mass-proportional factors: the assembled damping is not proportional, the complex
            # eigenproblem behind SolveUnc has (nearly defective) zero roots for the damped rigid-body modes and loses digits
            # (measured 4e-9; an accuracy matter of the eigen-solver, property C02) - the assembled system goes through the
            # direct solver; the default route is exercised on source and load themselves above
            TAMc = frclim.calcAM([*C, np.eye(r, n)], freq, fs=ode.FreqDirect(*C))
        else:
            TAMc = frclim.calcAM([*C, np.eye(r, n)], freq)
        skipped += _chk(fails, "tam-vs-coupled-apparent-mass-" + tag,
                        "calcAM of the assembled system != SAM + LAM", inp, TAMc, SAMn + LAMn, call, 1)

        # --- f = 0 and f -> 0: rigid-body mass (statically determinate interface) ---------
        if p["nrb"] == r and p["damping"] not in RB_DAMPED:
            # `am_low_frequency_expansion`, restated with numpy at EVERY frequency of the pair:
            # AM(W) = M_rb + W^2 (M_bi + psi' M_ii) (K_ii + iW B_ii - W^2 M_ii)^-1 (M_ib + M_ii psi)
            for nm, X, phi, cx in (("source", S, p["phis"], cs), ("load", L, p["phil"], cl)):
                if X[0].shape[0] == r:
                    continue
                psi = phi[r:]
                Mx, Bx, Kx = X
                mrb = phi.T @ Mx @ phi
                mcbi = Mx[:r, r:] + psi.T @ Mx[r:, r:]
                mcib = Mx[r:, :r] + Mx[r:, r:] @ psi
                ref = np.empty((r, len(freq), r), complex)
                cii = np.empty(len(freq))
                for j, f in enumerate(freq):
                    O = 2 * np.pi * f
                    Zii = _Z(Mx[r:, r:], Bx[r:, r:], Kx[r:, r:], O)
                    ref[:, j, :] = mrb + O ** 2 * (mcbi @ np.linalg.solve(Zii, mcib))
                    cii[j] = np.linalg.cond(Zii)
                skipped += _chk(fails, "am-low-frequency-expansion-" + tag,
                                "calcAM != M_rb + W^2 (M_bi + psi' M_ii) Z_ii^-1 (M_ib + M_ii psi) (%s)" % nm,
                                dict(inp, route=nm), routes[nm + "-drm-default"][0], ref, np.maximum(cx, cii), 1)
            for nm, X, phi in (("source", S, p["phis"]), ("load", L, p["phil"])):
                mrb = phi.T @ X[0] @ phi  # phi[b] = I
                ref = mrb[:, None, :] + 0j
                one = np.ones(1)
                am0 = frclim.calcAM([*X, np.eye(r, X[0].shape[0])], [0.0])
                _chk(fails, "am-at-zero-frequency-drm-" + tag, "calcAM(f=0) != rigid-body mass (%s)" % nm,
                     dict(inp, route=nm), am0, ref, one, 1, tol=1e-8)
                if X[0].shape[0] > r:
                    m, b, k = _cb_form(*X, r)
                    am0 = frclim.calcAM([m, b, k, np.arange(r)], [0.0])
                    _chk(fails, "am-at-zero-frequency-pv-" + tag, "calcAM(f=0, CB form) != rigid-body mass (%s)" % nm,
                         dict(inp, route=nm), am0, ref, one, 1, tol=1e-8)
                fl = np.array([1e-3, 1e-4]) * 3.0
                aml = np.asarray(frclim.calcAM([*X, np.eye(r, X[0].shape[0])], fl))
                e = _relerr(aml, np.broadcast_to(ref, aml.shape), 1)
                if not (e[0] <= 1e-4 and e[1] <= 1e-5):
                    fails.append(("am-low-frequency-limit-" + tag, "apparent mass does not tend to the rigid-body mass (%s)" % nm,
                                  dict(inp, route=nm), {"relerr_at_3e-3Hz_3e-4Hz": e.tolist()}, "<= 1e-4, <= 1e-5"))
            # R at f = 0 is source mass over total mass
            nt0 = frclim.ntfl([*S, Ts], [*L, Tl], np.ones((r, 1)), [0.0])
            ms = p["phis"].T @ S[0] @ p["phis"]
            ml = p["phil"].T @ L[0] @ p["phil"]
            R0 = np.diag(np.linalg.solve(ms + ml, ms))[:, None] + 0j
            _chk(fails, "ntfl-R-at-zero-frequency-" + tag, "R(f=0) != diag((ms+ml)^-1 ms)", inp, nt0.R, R0, np.ones(1), 1, tol=1e-8)
    return fails, skipped



def _cbtf_check(inp, cb):
    """cb.cbtf judged on its public API with plain numpy: the returned arrays satisfy the Craig-Bampton equations in
    model order (k without its b-q / q-b blocks), `a` on the b-set is the enforced one, v = iW d, a = -W^2 d; a call with a
    warm `save` (left by a call with another acceleration and another frequency vector) returns the same"""
    M, B, K = (_dec(inp[k]) for k in ("M", "B", "K"))
    bset = np.array(inp["bset"], dtype=int)
    freq = np.array(inp["freq"])  # an integer frequency vector stays one
    a_in = _dec(inp["a"])
    n_ = M.shape[0]
    r = len(bset)
    nf = len(freq)
    q = np.setdiff1d(np.arange(n_), bset)
    fam = "multi-dof" if r > 1 else "single-dof"
    fails = []
    with warnings.catch_warnings():
        warnings.simplefilter("ignore")
        tf = cb.cbtf(M, B, K, a_in, freq, bset)
        save = {}
        cb.cbtf(M, B, K, np.arange(1.0, r + 1), np.linspace(0.7, 91.0, nf), bset, save)  # same length, other values
        tw = cb.cbtf(M, B, K, a_in, freq, bset, save)
    a = np.asarray(a_in, dtype=complex)
    if a.ndim == 1:
        a = a[:, None]
    if a.shape[1] == 1:
        a = np.repeat(a, nf, axis=1)
    acc, dis, vel = np.asarray(tf.a), np.asarray(tf.d), np.asarray(tf.v)  # MODEL order, with or without a q-set
    if acc.shape == (n_, nf) and q.size == 0 and not np.array_equal(acc[bset], a):
        # regression rule of finding F59 (repaired in /repo ed802cc): tf.a[bset] == a also when every DOF is a b-set DOF
        return {"family": "cbtf-empty-qset-responses-in-bset-order",
                "what": "cb.cbtf with an empty q-set: the returned a (d, v) are not in model order, tf.a[bset] != a",
                "input": inp, "observed": {"tf.a[bset]": _enc(acc[bset])}, "required": {"a": _enc(a)}}
    if acc.shape != (n_, nf) or np.asarray(tf.frc).shape != (r, nf):
        return {"family": "cbtf-output-shape-" + fam, "what": "shapes of the returned arrays", "input": inp,
                "observed": [list(np.shape(tf.frc)), list(np.shape(tf.a))], "required": [[r, nf], [n_, nf]]}
    Kcb = K.astype(complex).copy()
    Kcb[np.ix_(bset, q)] = 0
    Kcb[np.ix_(q, bset)] = 0
    cond = np.ones(nf)
    if q.size:
        cond = np.maximum(_pv_cond({"M": M, "bset": bset, "freq": freq, "B": B, "K": K}), _kappa_qq(M, B, K, bset, freq))
    O = 2 * np.pi * freq
    rhs = np.zeros((n_, nf), complex)
    rhs[bset] = tf.frc
    res = M @ acc + B @ vel + Kcb @ dis - rhs
    for j in range(nf):
        if not cond[j] <= CONDMAX:
            continue
        lim = TOL * max(1.0, cond[j] / 100)
        sc = max(np.abs(M @ acc[:, j]).max(), np.abs(B @ vel[:, j]).max(), np.abs(Kcb @ dis[:, j]).max(), 1e-300)
        checks = [
            ("cbtf-outputs-vs-cb-equations-" + fam, "m a + b v + k_cb d != (frc on the b-set rows, 0 on the q-set rows)",
             np.abs(res[:, j]).max() / sc),
            ("cbtf-enforced-acceleration-" + fam, "returned b-set acceleration is not the enforced one",
             np.abs(acc[bset, j] - a[:, j]).max() / max(np.abs(a[:, j]).max(), 1e-300)),
            ("cbtf-velocity-" + fam, "v != i W d", np.abs(vel[:, j] - 1j * O[j] * dis[:, j]).max()
             / max(np.abs(vel[:, j]).max(), np.abs(O[j] * dis[:, j]).max(), 1e-300)),
        ]
        if O[j] != 0:
            checks.append(("cbtf-acceleration-" + fam, "a != -W^2 d", np.abs(acc[:, j] + O[j] ** 2 * dis[:, j]).max()
                           / max(np.abs(acc[:, j]).max(), 1e-300)))
        else:
            checks.append(("cbtf-zero-frequency-" + fam, "at f = 0: q-set acceleration, velocity, b-set displacement must vanish",
                           max(np.abs(acc[q, j]).max() if q.size else 0.0, np.abs(vel[:, j]).max(), np.abs(dis[bset, j]).max())))
            checks.append(("cbtf-zero-frequency-force-" + fam, "at f = 0: frc != m[bset][:, bset] a",
                           np.abs(tf.frc[:, j] - M[np.ix_(bset, bset)] @ a[:, j]).max()
                           / max(np.abs(tf.frc[:, j]).max(), 1e-300)))
        for family, what, e in checks:
            _STATS[family.rsplit("-", 2)[0]] = max(_STATS.get(family.rsplit("-", 2)[0], 0.0), float(e / lim))
            if not e <= lim:
                fails.append({"family": family, "what": what, "input": dict(inp, freq_index=j),
                              "observed": {"relerr": float(e)}, "required": {"tol": float(lim), "cond": float(cond[j])}})
    for name in ("frc", "a", "d", "v"):
        x, y = np.asarray(getattr(tf, name)), np.asarray(getattr(tw, name))
        if x.shape != y.shape or not np.allclose(x, y, rtol=1e-12, atol=1e-300 + 1e-12 * np.abs(x).max()):
            fails.append({"family": "cbtf-warm-save-differs-" + fam,
                          "what": "cbtf with the `save` dictionary left by an earlier call on the same model (other `a`, other "
                                  "frequency vector) returns another `%s` than a cold call" % name,
                          "input": inp, "observed": _enc(y), "required": _enc(x)})
            break
    return fails[0] if fails else None


def _oracle_cbtf(ctx, rng, cb):
    for it in range(ctx.pick(60, 600)):
        r = int(rng.integers(1, 5))
        nq = 0 if it % 7 == 2 else int(rng.integers(1, 5))
        n_ = r + nq
        eps = 0.0 if it % 2 else 0.1
        M = _rand_spd(rng, n_, 0.5, 4.0) + eps * rng.standard_normal((n_, n_))
        w = 2 * np.pi * 30
        K = (_rand_spd(rng, n_, 0.2, 4.0) + eps * rng.standard_normal((n_, n_))) * w * w
        B = (_rand_spd(rng, n_, 0.1, 2.0) + eps * rng.standard_normal((n_, n_))) * (0.04 * w)
        bset = rng.permutation(n_)[:r]
        nf = int(rng.integers(1, 4))
        freq = np.sort(rng.uniform(1.0, 120.0, nf))
        if it % 3 == 1:
            freq[0] = 0.0
        a = rng.standard_normal(r) if it % 2 else rng.standard_normal((r, nf)) + 1j * rng.standard_normal((r, nf))
        inp = {"kind": "cbtf", "M": _enc(M), "B": _enc(B), "K": _enc(K), "bset": [int(i) for i in bset], "freq": freq.tolist(),
               "a": _enc(a), "save": "none"}
        f = _replay_input(inp, None, None)
        ctx.count("oracle:cbtf")
        if f:
            ctx.failures.append(f)


def _relations_check(inp, frclim):
    """the relation checks on recorded arrays; returns a list of failure dicts"""
    SAM, LAM, As, P, Q = (_dec(inp[k]) for k in ("SAM", "LAM", "As", "P", "Q"))
    SAM2, LAM2, As2 = (_dec(inp[k]) for k in ("SAM2", "LAM2", "As2"))
    j0 = inp["j0"]
    b, nf, _ = SAM.shape
    freq = np.arange(nf) + 1.0
    fam = "multi-dof" if b > 1 else "single-dof"
    cnd = max(np.linalg.cond(SAM[:, j] + LAM[:, j]) for j in range(nf))
    lim = 1e-10 * cnd
    out = []
    with warnings.catch_warnings():
        warnings.simplefilter("ignore")
        o = frclim.ntfl(SAM.copy(), LAM.copy(), As.copy(), freq)
        sw = frclim.ntfl(LAM.copy(), SAM.copy(), As.copy(), freq)
        cq = np.linalg.cond(Q) * np.linalg.cond(P)
        SAMc = np.einsum("ia,ajb,bk->ijk", P, SAM, Q)
        LAMc = np.einsum("ia,ajb,bk->ijk", P, LAM, Q)
        oc = frclim.ntfl(SAMc, LAMc, np.linalg.solve(Q, As), freq)
        c_, d_ = 1000.0, 9.80665
        osc = frclim.ntfl(c_ * SAM, c_ * LAM, d_ * As, freq)
        o2 = frclim.ntfl(SAM2.copy(), LAM2.copy(), As2.copy(), freq)

    def rel(x, y):
        return float(np.abs(x - y).max() / max(np.abs(y).max(), 1e-300))

    checks = [
        ("ntfl-reciprocity-R-" + fam, "R(source, load) + R(load, source) != 1", rel(o.R + sw.R, np.ones_like(o.R)), lim),
        ("ntfl-reciprocity-A-" + fam, "A(source, load) + A(load, source) != As", rel(o.A + sw.A, As), lim),
        ("ntfl-reciprocity-F-" + fam, "F changes when source and load are exchanged", rel(sw.F, o.F), lim),
        ("ntfl-congruence-A-" + fam, "A in new boundary coordinates != Q^-1 A", rel(oc.A, np.linalg.solve(Q, o.A)), lim * cq),
        ("ntfl-congruence-F-" + fam, "F in new boundary coordinates != P F", rel(oc.F, P @ o.F), lim * cq),
        ("ntfl-congruence-TAM-" + fam, "TAM in new boundary coordinates != P TAM Q",
         rel(oc.TAM, np.einsum("ia,ajb,bk->ijk", P, o.TAM, Q)), lim * cq),
        ("ntfl-scaling-R-" + fam, "R depends on the mass / acceleration units", rel(osc.R, o.R), lim),
        ("ntfl-scaling-A-" + fam, "A does not scale with the acceleration unit", rel(osc.A, d_ * o.A), lim),
        ("ntfl-scaling-F-" + fam, "F does not scale with mass unit x acceleration unit", rel(osc.F, c_ * d_ * o.F), lim),
    ]
    for family, what, e, l_ in checks:
        key = family.rsplit("-", 2)[0]
        _STATS[key] = max(_STATS.get(key, 0.0), e / l_)
        if not e <= l_:
            out.append({"family": family, "what": what, "input": inp, "observed": {"relerr": e}, "required": {"tol": l_}})
    same = all(np.array_equal(np.asarray(getattr(o2, nme))[:, j0], np.asarray(getattr(o, nme))[:, j0])
               for nme in ("A", "F", "R", "TAM"))
    if not same:
        out.append({"family": "ntfl-pointwise-" + fam,
                    "what": "column j of the outputs changes when OTHER frequency columns of the inputs change",
                    "input": inp, "observed": "different bits", "required": "identical"})
    return out


def _oracle_ntfl_relations(ctx, rng, frclim):
    """relations of ntfl on user-supplied apparent-mass arrays, on the real code only: exchange of source and load
    (`nt_reciprocity`), change of boundary coordinates (`ntfl_congruence`), units (`ntfl_scaling`), frequency-by-frequency
    independence (`ntfl_pointwise`, bit for bit)"""
    for it in range(ctx.pick(60, 600)):
        b = int(rng.integers(1, 6))
        nf = int(rng.integers(2, 5))

        def rc(*sh):
            return rng.standard_normal(sh) + 1j * rng.standard_normal(sh)

        SAM = rc(b, nf, b) + (2.0 * b) * np.eye(b)[:, None, :]
        LAM = rc(b, nf, b) + (1.0 * b) * np.eye(b)[:, None, :]
        As = rc(b, nf)
        if max(np.linalg.cond(SAM[:, j] + LAM[:, j]) for j in range(nf)) > 1e4:
            ctx.skip("oracle ntfl relations: cond(SAM+LAM) > 1e4")
            continue
        Q = np.eye(b) + 0.3 * rng.standard_normal((b, b))
        P = Q.T if it % 2 else np.eye(b) + 0.3 * rng.standard_normal((b, b))
        # pointwise: every OTHER frequency column replaced by something else
        j0 = int(rng.integers(0, nf))
        SAM2, LAM2, As2 = rc(b, nf, b) + 3 * b * np.eye(b)[:, None, :], rc(b, nf, b) + 2 * b * np.eye(b)[:, None, :], rc(b, nf)
        SAM2[:, j0, :], LAM2[:, j0, :], As2[:, j0] = SAM[:, j0, :], LAM[:, j0, :], As[:, j0]
        inp = {"kind": "ntfl-relations", "SAM": _enc(SAM), "LAM": _enc(LAM), "As": _enc(As), "P": _enc(P), "Q": _enc(Q),
               "SAM2": _enc(SAM2), "LAM2": _enc(LAM2), "As2": _enc(As2), "j0": j0}
        ctx.failures.extend(_relations_check(inp, frclim))
        ctx.count("oracle:ntfl-relations")


def _oracle_routes(ctx, rng, frclim, ode):
    """`routes_agree_general` on the real code: recovery-matrix route with the selection matrix of a scattered, unordered
    b-set == Schur complement of the FULL impedance (no Craig-Bampton form), through FreqDirect and SolveUnc"""
    for it in range(ctx.pick(40, 400)):
        r = int(rng.integers(1, 5))
        nq = int(rng.integers(1, 5))
        n_ = r + nq
        eps = 0.0 if it % 2 else 0.1
        M = _rand_spd(rng, n_, 0.5, 4.0) + eps * rng.standard_normal((n_, n_))
        w = 2 * np.pi * 30
        K = (_rand_spd(rng, n_, 0.2, 4.0) + eps * rng.standard_normal((n_, n_))) * w * w
        B = (_rand_spd(rng, n_, 0.1, 2.0) + eps * rng.standard_normal((n_, n_))) * (0.04 * w)
        bset = rng.permutation(n_)[:r]
        q = np.setdiff1d(np.arange(n_), bset)
        T = np.zeros((r, n_))
        T[np.arange(r), bset] = 1.0
        # LONG sweeps now and then (more than 1024 frequency points, lengths that no block size divides): a solver that
        # works through the frequency axis in blocks must not lose the tail
        nf = 3 if it % 8 != 3 else int(rng.choice([1025, 1501, 2050, 2047, 3001]))
        if nf > 3:
            ctx.count("oracle:routes:long-sweep")
        freq = np.sort(rng.uniform(1.0, 120.0, nf))
        ref = np.empty((r, nf, r), complex)
        cond = np.empty(nf)
        for j, f in enumerate(freq):
            O = 2 * np.pi * f
            D = M + B / (1j * O) - K / O ** 2
            Dqq = D[np.ix_(q, q)]
            ref[:, j, :] = D[np.ix_(bset, bset)] - D[np.ix_(bset, q)] @ np.linalg.solve(Dqq, D[np.ix_(q, bset)])
            cond[j] = max(np.linalg.cond(Dqq), np.linalg.cond(D), np.linalg.cond(ref[:, j, :]))
        fam = "multi-dof" if r > 1 else "single-dof"
        route = "freqdirect" if it % 2 == 0 else "solveunc"
        inp = {"kind": "calcAM-drm", "route": route, "M": _enc(M), "B": _enc(B), "K": _enc(K), "T": _enc(T),
               "freq": freq.tolist(), "bset": [int(i) for i in bset]}
        fails = []
        try:
            am = _calc_am(frclim, ode, {"M": M, "B": B, "K": K, "T": T, "freq": freq, "route": route})
        except Exception as e:  # noqa: BLE001  (valid, well-conditioned input: raising is a failure)
            ctx.failures.append({"family": "calcAM-drm-%s-raises-%s" % (route, fam), "what": "calcAM raises on a valid model "
                                 "(%d frequencies)" % nf, "input": inp, "observed": "%s: %s" % (type(e).__name__, str(e)[:120]),
                                 "required": "the apparent mass"})
            continue
        _chk(fails, "calcAM-drm-%s-vs-schur-complement-%s" % (route, fam),
             "calcAM (recovery matrix selecting a scattered b-set) != Schur complement of the full impedance onto the b-set",
             inp, am, ref, cond, 1)
        ctx.count("oracle:routes")
        for t in fails:
            ctx.failures.append(_fdict(t))


def _oracle_general_T(p, rng, frclim, mode="dense", Ts=None, Tl=None):
    """recovery matrices on both sides that are not 0/1 selections: the interface is T_s x_s = T_l x_l.
    dense: perturbed selections; signed: rows -e_i' / +e_i' (a model DOF defined opposite to the interface coordinate);
    scaled: rows s_i e_i' (interface coordinates in other units than the model, non-uniform)"""
    fails = []
    r, freq, Fs = p["r"], p["freq"], p["Fs"]
    S, L = p["S"], p["L"]
    ns, nl = S[0].shape[0], L[0].shape[0]
    if Ts is None:
        if mode == "dense":
            Ts = np.eye(r, ns) + 0.3 * rng.standard_normal((r, ns))
            Tl = np.eye(r, nl) + 0.3 * rng.standard_normal((r, nl))
        else:
            Ts, _ = _signed_scaled(rng, np.eye(r, ns), mode == "signed")
            Tl, _ = _signed_scaled(rng, np.eye(r, nl), mode == "signed")
    with warnings.catch_warnings():
        warnings.simplefilter("ignore")
        A, F, As, cz = _coupled_numpy(S, L, Ts, Tl, Fs, freq)
        SAMn, _, cs = _am_numpy(*S, Ts, freq)
        LAMn, _, cl = _am_numpy(*L, Tl, freq)
        ct = np.array([np.linalg.cond(SAMn[:, j] + LAMn[:, j]) for j in range(len(freq))])
        call = np.maximum.reduce([cz, cs, cl, ct])
        nt = frclim.ntfl([*S, Ts], [*L, Tl], As, freq)
    tag = ("multi-dof-" if r > 1 else "single-dof-") + p["damping"]
    inp = {"kind": "pair-dense-T", "mode": mode, "r": r, "damping": p["damping"], "Ms": _enc(S[0]), "Bs": _enc(S[1]),
           "Ks": _enc(S[2]), "Ml": _enc(L[0]), "Bl": _enc(L[1]), "Kl": _enc(L[2]), "freq": freq.tolist(), "Fs": _enc(Fs),
           "Ts": _enc(Ts), "Tl": _enc(Tl)}
    sk = _chk(fails, "ntfl-A-vs-direct-coupling-%s-T-%s" % (mode, tag), "ntfl interface acceleration differs from the coupled solve",
              inp, nt.A, A, call, 1)
    sk += _chk(fails, "ntfl-F-vs-direct-coupling-%s-T-%s" % (mode, tag), "ntfl interface force differs from the coupled solve",
               inp, nt.F, F, call, 1)
    if mode != "dense":
        # the apparent masses themselves: inverse of the boundary accelerance T H T' (for rows s_i e_i': s_i s_j H_ij)
        sk += _chk(fails, "calcAM-drm-default-vs-definition-%s-T-%s" % (mode, tag),
                   "calcAM (source) differs from inv(T Z^-1 T' (-W^2)) for a recovery matrix with rows s_i e_i'",
                   dict(inp, route="source"), nt.SAM, SAMn, cs, 1)
        sk += _chk(fails, "calcAM-drm-default-vs-definition-%s-T-%s" % (mode, tag),
                   "calcAM (load) differs from inv(T Z^-1 T' (-W^2)) for a recovery matrix with rows s_i e_i'",
                   dict(inp, route="load"), nt.LAM, LAMn, cl, 1)
    return fails, sk


def _hint_checks(ctx, hints, frclim, ode):
    """the disagreements of the correspondence, judged without the model (plain numpy)"""
    for h in hints[:40]:
        inp = h["input"]
        if not isinstance(inp, dict):
            continue
        f = _replay_input(inp, frclim, ode)
        if f:
            ctx.failures.append(f)


def _rb_damped(B, K):
    """does the damping matrix act on the rigid-body modes (null space of a symmetric K)?"""
    B, K = np.asarray(B), np.asarray(K)
    if np.iscomplexobj(K) or not np.allclose(K, K.T, rtol=1e-9, atol=1e-9 * np.abs(K).max()):
        return False
    lam, V = np.linalg.eigh((K + K.T) / 2)
    null = V[:, np.abs(lam) < 1e-8 * max(np.abs(lam).max(), 1e-300)]
    if null.shape[1] == 0:
        return False
    return bool(np.abs(B @ null).max() > 1e-6 * max(np.abs(B).max(), 1e-300))


def _replay_input_raw(inp, frclim, ode):
    kind = inp.get("kind")
    with warnings.catch_warnings():
        warnings.simplefilter("ignore")
        if kind == "ntfl-arrays":
            SAM, LAM, As = _dec(inp["SAM"]), _dec(inp["LAM"]), _dec(inp["As"])
            b, nf, _ = SAM.shape
            o = frclim.ntfl(SAM.copy(), LAM.copy(), As.copy(), np.arange(nf) + 1.0)
            A = np.empty((b, nf), complex)
            cnd = np.empty(nf)
            for j in range(nf):
                Ms, Ml = SAM[:, j, :], LAM[:, j, :]
                A[:, j] = np.linalg.solve(Ms + Ml, Ms @ As[:, j])
                cnd[j] = np.linalg.cond(Ms + Ml)
            F = np.einsum("ijk,kj->ij", LAM, A)
            R = np.array([np.diag(np.linalg.solve(SAM[:, j] + LAM[:, j], SAM[:, j])) for j in range(nf)]).T
            fails = []
            fam = "ntfl-arrays-%s-" + ("multi-dof" if b > 1 else "single-dof")
            _chk(fails, fam % "A", "(SAM+LAM) A != SAM As on user-supplied apparent-mass arrays", inp, o.A, A, cnd, 1)
            _chk(fails, fam % "F", "F != LAM A on user-supplied apparent-mass arrays", inp, o.F, F, cnd, 1)
            _chk(fails, fam % "R", "R != diag((SAM+LAM)^-1 SAM)", inp, o.R, R, cnd, 1)
            _chk(fails, fam % "TAM", "TAM != SAM + LAM", inp, o.TAM, SAM + LAM, np.ones(nf), 1)
            return _fdict(fails[0]) if fails else None
        if kind == "cbtf":
            from pyyeti import cb as _cb

            return _cbtf_check({k: v for k, v in inp.items() if k != "freq_index"}, _cb)
        if kind == "calcAM-drm":
            c = {k: _dec(inp[k]) for k in ("M", "B", "K", "T")}
            c["freq"] = np.array(inp["freq"])
            c["route"] = inp.get("route", "default")
            ref, _, cond = _am_numpy(c["M"], c["B"], c["K"], c["T"], c["freq"])
            am = _calc_am(frclim, ode, c)
            fails = []
            r = c["T"].shape[0]
            fam = "calcAM-drm-%s-vs-definition-%s" % (c["route"], "multi-dof" if r > 1 else "single-dof")
            if _rb_damped(c["B"], c["K"]):
                # the input characteristic of F51 / F52: damping that acts on the rigid-body modes (mass-proportional, Rayleigh)
                fam = "calcAM-drm-%s-damped-rigid-body-modes-%s" % (c["route"], "multi-dof" if r > 1 else "single-dof")
            _chk(fails, fam, "calcAM differs from inv(T Z^-1 T' (-W^2)) computed with numpy", inp, am, ref, cond, 1,
                 tol=TOL * _eig_grade(inp))
            return _fdict(fails[0]) if fails else None
        if kind == "calcAM-pv":
            # model-free meaning of the partition form: enforce unit boundary accelerations on the
            # Craig-Bampton-form model (K_bq := 0 as the documentation assumes) and read the force
            M, B, K = (_dec(inp[k]) for k in ("M", "B", "K"))
            bset = np.array(inp["bset"], dtype=int)
            freq = np.array(inp["freq"])
            n_ = M.shape[0]
            q = np.setdiff1d(np.arange(n_), bset)
            K = K.copy()
            K[np.ix_(bset, q)] = 0
            K[np.ix_(q, bset)] = 0
            r = len(bset)
            ref = np.empty((r, len(freq), r), complex)
            cond = np.ones(len(freq))
            for j, f in enumerate(freq):
                O = 2 * np.pi * f
                if O == 0:
                    ref[:, j, :] = M[np.ix_(bset, bset)]
                    continue
                D = M + B / (1j * O) - K / O ** 2
                Dbb = D[np.ix_(bset, bset)]
                if q.size:
                    Dqq = D[np.ix_(q, q)]
                    cond[j] = np.linalg.cond(Dqq)
                    Dbb = Dbb - D[np.ix_(bset, q)] @ np.linalg.solve(Dqq, D[np.ix_(q, bset)])
                ref[:, j, :] = Dbb
            nz = freq != 0
            if q.size and nz.any():
                cond[nz] = np.maximum(cond[nz], _kappa_qq(M, B, K, bset, freq[nz]))
            am = frclim.calcAM([_dec(inp["M"]), _dec(inp["B"]), _dec(inp["K"]), bset], freq)
            fails = []
            unsorted_all = q.size == 0 and bool(np.any(np.diff(bset) < 0))
            _chk(fails, "cbtf-empty-qset-unsorted-bset" if unsorted_all else
                 "calcAM-pv-vs-enforced-acceleration-%s" % ("multi-dof" if r > 1 else "single-dof"),
                 "cb.cbtf with an empty q-set ignores the order of the partition vector: calcAM returns D, required "
                 "D[bset][:, bset]" if unsorted_all else
                 "calcAM (partition form) differs from the boundary force for unit boundary accelerations (numpy)",
                 inp, am, ref, cond, 1)
            return _fdict(fails[0]) if fails else None
    return None


def _replay_input(inp, frclim, ode):
    """an exception of the real code on a well-formed input is a failing input, not a harness error"""
    try:
        return _replay_input_raw(inp, frclim, ode)
    except Exception as e:  # noqa: BLE001
        import traceback

        r = len(inp["bset"]) if "bset" in inp else (np.shape(inp.get("T", inp.get("SAM", {"re": [0]}))["re"])[0])
        if inp.get("kind") == "cbtf":
            return {"family": "exception-%s-cbtf-%s" % (type(e).__name__, "multi-dof" if r > 1 else "single-dof"),
                    "what": "cb.cbtf raised %s: %s" % (type(e).__name__, e), "input": inp,
                    "observed": traceback.format_exc()[-700:], "required": "values"}
        return {"family": "exception-%s-%s-%s" % (type(e).__name__, inp.get("kind"), "multi-dof" if r > 1 else "single-dof"),
                "what": "%s raised %s: %s" % (inp.get("kind"), type(e).__name__, e), "input": inp,
                "observed": traceback.format_exc()[-700:], "required": "values"}


def _fdict(t):
    return {"family": t[0], "what": t[1], "input": t[2], "observed": t[3], "required": t[4]}


def search(ctx, hints):
    frclim, ode, cb = _pyyeti()
    _hint_checks(ctx, hints, frclim, ode)
    for c in _corpus(ctx):
        f = _replay_input({k: v for k, v in c.items() if k != "note"}, frclim, ode)
        ctx.count("oracle:corpus")
        if f:
            ctx.failures.append(f)
    rng = ctx.np_rng(154)
    n = ctx.pick(240, 2400)
    skipped = 0
    for it in range(n):
        p = _gen_pair(rng, it)
        try:
            fails, sk = _oracle_pair(p, frclim, ode, cb)
            mode = ("dense", "signed", "scaled")[it % 3]
            f2, sk2 = _oracle_general_T(p, rng, frclim, mode)
            fails += f2
            sk += sk2
            ctx.count("oracle:%s-T-pairs" % mode)
        except Exception as e:  # noqa: BLE001
            import traceback

            fails, sk = [("exception-%s-%s" % (type(e).__name__, "multi-dof" if p["r"] > 1 else "single-dof"),
                          "calcAM/ntfl raised %s: %s" % (type(e).__name__, e),
                          {"kind": "pair", "r": p["r"], "damping": p["damping"], "Ms": _enc(p["S"][0]), "Bs": _enc(p["S"][1]),
                           "Ks": _enc(p["S"][2]), "Ml": _enc(p["L"][0]), "Bl": _enc(p["L"][1]), "Kl": _enc(p["L"][2]),
                           "freq": p["freq"].tolist(), "Fs": _enc(p["Fs"]), "determinate": bool(p["nrb"] == p["r"])},
                          traceback.format_exc()[-600:], "values")], 0
        skipped += sk
        ctx.count("oracle:pairs")
        ctx.count("oracle:%s:r=%d" % (p["damping"], p["r"]))
        for t in fails:
            ctx.failures.append(_fdict(t))
        if len(ctx.failures) > 12:
            break
    # every DOF is a boundary DOF (rigid bodies, and flexible models without interior DOF):
    # AM = D[bset][:, bset]; for B = K = 0 that is the physical mass at every frequency
    for it in range(ctx.pick(24, 120)):
        r = int(rng.integers(1, 7))
        M = _rand_spd(rng, r, 0.5, 4.0)
        rigid = it % 2 == 0
        w = 2 * np.pi * 30
        K = np.zeros((r, r)) if rigid else _rand_spd(rng, r, 0.2, 4.0) * w * w
        B = np.zeros((r, r)) if rigid else _rand_spd(rng, r, 0.1, 2.0) * (0.04 * w)
        bset = np.arange(r) if it % 4 < 2 else rng.permutation(r)
        freq = np.sort(rng.uniform(0.5, 150.0, 3))
        if it % 3 == 0:
            freq[0] = 0.0
        f = _replay_input({"kind": "calcAM-pv", "M": _enc(M), "B": _enc(B), "K": _enc(K),
                           "bset": [int(i) for i in bset], "freq": freq.tolist()}, frclim, ode)
        ctx.count("oracle:all-boundary:%s:%s" % ("rigid" if rigid else "flexible",
                                                  "sorted" if not np.any(np.diff(bset) < 0) else "unsorted"))
        if f:
            ctx.failures.append(f)
    _oracle_cbtf(ctx, rng, cb)
    _oracle_ntfl_relations(ctx, rng, frclim)
    _oracle_routes(ctx, rng, frclim, ode)
    ctx.extra["oracle_worst_error_over_tolerance"] = {k: float("%.3g" % v) for k, v in sorted(_STATS.items())}
    if skipped:
        ctx.skip("oracle: frequency outside the conditioning domain (cond > 1e5)", skipped)


def replay(ctx, data):
    frclim, ode, cb = _pyyeti()
    f = data["failure"]
    inp = f["input"]
    kind = inp.get("kind")
    if kind in ("ntfl-arrays", "calcAM-drm", "calcAM-pv", "cbtf"):
        return _replay_input(inp, frclim, ode)
    if kind == "ntfl-relations":
        fails = _relations_check(inp, frclim)
        same = [d for d in fails if d["family"] == f["family"]]
        return (same or fails or [None])[0]
    if kind in ("pair", "pair-dense-T"):
        S = tuple(_dec(inp[k]) for k in ("Ms", "Bs", "Ks"))
        L = tuple(_dec(inp[k]) for k in ("Ml", "Bl", "Kl"))
        r = inp["r"]
        p = {"r": r, "nrb": r if inp.get("determinate") else 0, "damping": inp["damping"], "S": S, "L": L,
             "freq": np.array(inp["freq"]), "Fs": _dec(inp["Fs"])}
        if p["nrb"] == r:
            # rigid-body modes with unit boundary rows: phi = [I; -K_ii^-1 K_ib]
            p["phis"] = np.vstack([np.eye(r), -np.linalg.solve(S[2][r:, r:], S[2][r:, :r])])
            p["phil"] = np.vstack([np.eye(r), -np.linalg.solve(L[2][r:, r:], L[2][r:, :r])])
        if kind == "pair":
            try:
                fails, _ = _oracle_pair(p, frclim, ode, cb)
            except Exception as e:  # noqa: BLE001
                return {"family": f["family"], "what": "raised %s: %s" % (type(e).__name__, e), "input": "(as recorded)"}
        else:
            fails, _ = _oracle_general_T(p, None, frclim, inp.get("mode", "dense"), _dec(inp["Ts"]), _dec(inp["Tl"]))
        same = [t for t in fails if t[0] == f["family"]]
        pickf = same or fails
        if pickf:
            d = _fdict(pickf[0])
            d["input"] = "(as recorded)"
            return d
        return None
    raise Infra("unknown replay kind %r" % kind)
