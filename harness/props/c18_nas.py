"""C18 helper: generated nas2cam-like dictionaries for n2p.upasetpv / n2p.upqsetpv.

A generated dictionary is built from a *known* superelement tree: every superelement (SE) has own
nodes and the boundary (a-set) nodes of its upstream SEs; for every DOF we remember where it came
from.  So the expected partition vectors are known by construction (they are never computed by the
code under test, nor by the Lean model):

  upasetpv(nas, seup)[k] = row, in the table of the downstream SE, of the k-th a-set DOF of seup
                           (restricted to the DOF that `maps` lists when some are skipped)
  upqsetpv(nas, sedn)[i] = row i of sedn's table comes from an upstream SE where it is a q-set DOF
                           (any level; an SE without q-set: its a-set scalar points)
"""
import numpy as np

INTERNAL = 2000000000


class Node:
    __slots__ = ("id", "grid", "sets", "srcs", "qflag")

    def __init__(self, id_, grid, sets, src=None):
        self.id = id_  # id in this SE
        self.grid = grid  # True: 6 DOF, False: scalar point
        self.sets = sets  # one base-set letter per DOF
        # (child se, index of the node among the child's a-set nodes): empty for an own node, two entries for a
        # boundary grid that two upstream SEs are attached to
        self.srcs = [src] if src else []
        self.qflag = None  # per DOF: expected upqsetpv flag in this SE's table

    def dofs(self):
        return list(range(1, 7)) if self.grid else [0]


A_LETTERS = "bqrc"


def _in_a(letter):
    return letter in A_LETTERS


SE_IDS = [10, 20, 30, 40, 75, 101, 102, 300, 55, 66, 77, 88]


def gen_tree(rng, max_up=None, deep=None):
    """a random superelement tree below the residual 0: depth <= 4, at most 3 upstream SEs per SE;
    `deep` forces a chain of that depth (so that every run sees multi-level recursion)"""
    if max_up is None:
        max_up = rng.choice([1, 2, 3, 4, 4, 5, 6, 7])
    n_up = rng.randint(1, max_up)
    if deep:
        n_up = max(n_up, deep)
    se_ids = rng.sample(SE_IDS, n_up)
    parent, order = {}, []
    depth = {0: 0}
    nchild = {0: 0}
    for k, s in enumerate(se_ids):
        if deep and k < deep:
            p = order[-1] if order else 0  # the forced chain
        else:
            cands = [o for o in [0] + order if depth[o] < 4 and nchild[o] < 3]
            p = rng.choice(cands) if rng.random() < 0.6 else (0 if nchild[0] < 3 else rng.choice(cands))
        parent[s] = p
        depth[s] = depth[p] + 1
        nchild[p] += 1
        nchild[s] = 0
        order.append(s)
    return order, parent


def gen_nas(rng, style=None, deep=None, res_o=True):
    """returns (nas dict for pyyeti, info) ; info holds the construction knowledge"""
    from pyyeti.nastran import n2p

    masks = n2p.mkusetmask()
    style = style or rng.choice(["csuper", "csuper", "csuper-reorder", "seconct", "mixed", "notall6", "noq"])
    order, parent = gen_tree(rng, deep=deep)
    children = {s: [c for c in order if parent[c] == s] for s in order + [0]}
    tables = {}  # se -> list of Node in table order
    asetnodes = {}  # se -> list of Node (a-set nodes in table order)
    dnids, maps, upids_d = {}, {}, {}
    kind_of = {}  # child -> 'csuper' | 'seconct'
    internal = [INTERNAL]
    skipped = {}  # child -> set of (a-set dof index) skipped by maps (notall6)
    shared = [0]  # boundary grids shared by two upstream SEs

    for s in list(reversed(order)) + [0]:
        nodes = []
        used = set()

        def fresh():
            while True:
                i = rng.randint(1, 60)
                if i not in used:
                    used.add(i)
                    return i

        for _ in range(rng.randint(0, 2)):
            lets = [rng.choice("oosm")] * 6 if rng.random() < 0.7 else [rng.choice("osm") for _ in range(6)]
            nodes.append(Node(fresh(), True, lets))
        if s != 0 or rng.random() < 0.5:
            for _ in range(rng.randint(0 if children[s] else 1, 2)):
                lets = ["b"] * 6 if rng.random() < 0.8 else [rng.choice("bcr") for _ in range(6)]
                nodes.append(Node(fresh(), True, lets))
            nq = 0 if style == "noq" or rng.random() < 0.25 else rng.randint(1, 3)
            for _ in range(nq):
                nodes.append(Node(fresh(), False, ["q"]))
            for _ in range(rng.randint(0, 1)):
                nodes.append(Node(fresh(), False, [rng.choice("bo")]))
        inherited = []
        for c in children[s]:
            ck = {"csuper": "csuper", "csuper-reorder": "csuper", "seconct": "seconct", "notall6": "csuper",
                  "noq": "csuper"}.get(style) or rng.choice(["csuper", "seconct"])
            kind_of[c] = ck
            grp = []
            for k, cn in enumerate(asetnodes[c]):
                # a boundary grid shared with another (CSUPER type) upstream SE of `s`: both are attached to one
                # grid of `s`; only own grids of the upstream SEs are shared, so the shared DOF never carry a flag
                if cn.grid and ck == "csuper" and not cn.srcs and rng.random() < 0.25:
                    cands = [n for (c2, g2) in inherited if kind_of[c2] == "csuper" for n in g2
                             if n.grid and all(not asetnodes[c3][k3].srcs for c3, k3 in n.srcs)]
                    cands = [n for n in cands if all(n is not m for m in grp)]
                    if cands:
                        nd = rng.choice(cands)
                        nd.srcs.append((c, k))
                        grp.append(nd)
                        shared[0] += 1
                        continue
                keep_id = rng.random() < 0.5 and cn.id not in used
                nid = cn.id if keep_id else fresh()
                used.add(nid)
                if s == 0:
                    L = rng.choice("bbo") if res_o else "b"
                else:
                    L = "b" if rng.random() < 0.65 else "o"
                nd = Node(nid, cn.grid, [L] * (6 if cn.grid else 1), src=(c, k))
                grp.append(nd)
            inherited.append((c, grp))
        # table order: own nodes and the groups; reordering inside a group only for csuper-reorder / mixed
        seq = [("own", n) for n in nodes] + [("grp", g) for g in inherited]
        rng.shuffle(seq)
        table = []
        for tag, x in seq:
            if tag == "own":
                table.append(x)
            else:
                c, grp = x
                g2 = list(grp)
                if style in ("csuper-reorder", "mixed") and rng.random() < 0.7:
                    rng.shuffle(g2)
                table.extend(g2)
        if style in ("csuper-reorder", "mixed") and rng.random() < 0.3:
            rng.shuffle(table)
        seen_nodes, t2 = set(), []
        for n in table:  # a shared boundary grid is one node of the table
            if id(n) not in seen_nodes:
                seen_nodes.add(id(n))
                t2.append(n)
        table = t2
        tables[s] = table
        asetnodes[s] = [n for n in table if any(_in_a(l) for l in n.sets)]
        # rows of the table
        rowpos = {}
        r = 0
        for n in table:
            for d in n.dofs():
                rowpos[(n.id, d)] = r
                r += 1
        # dictionary entries of the children
        up_vec = {}
        for c, grp in inherited:
            if kind_of[c] == "csuper":
                dn = [n.id for n in grp]
            else:
                dn = []
                for n in grp:
                    internal[0] += 1
                    dn.append(internal[0])
                    up_vec[n.id] = internal[0]
            dnids[c] = dn
            # rows of the boundary in s (ascending) and where each upstream a-set DOF sits among them
            brow = sorted(rowpos[(n.id, d)] for n in grp for d in n.dofs())
            where = []
            k2node = {k: n for k, n in enumerate(grp)}
            # upstream a-set DOF in the order of the child's table (only a-set DOF of its a-set nodes)
            for k, cn in enumerate(asetnodes[c]):
                for d, l in zip(cn.dofs(), cn.sets):
                    if _in_a(l):
                        where.append(brow.index(rowpos[(k2node[k].id, d)]))
            full = all(all(_in_a(l) for l in cn.sets) for cn in asetnodes[c])
            mp = []
            if where != list(range(len(brow))):
                mp = [[float(j), 1.0] for j in where]
            elif rng.random() < 0.15:
                mp = [[float(j), 1.0] for j in where]  # an explicit identity map
            skipped[c] = set()
            if style == "notall6" and full and where == list(range(len(brow))) and len(where) > 2 and rng.random() < 0.8:
                # some boundary DOF are constrained downstream: maps skips them (strictly increasing)
                drop = set(rng.sample(range(len(where)), rng.randint(1, min(3, len(where) - 1))))
                mp = [[float(j), 1.0] for j in where if j not in drop]
                skipped[c] = drop
            maps[c] = np.array(mp) if mp else []
        ids_nodes = [n.id for n in table]
        upids_d[s] = np.array([up_vec.get(i, 0) for i in ids_nodes], dtype=np.int64)
    # expected flags, leaves first
    sel_order = list(order)
    rng.shuffle(sel_order)
    selist = [[s, parent[s]] for s in sel_order]
    selist.insert(rng.randint(0, len(selist)), [0, 0])
    has_up = {s: bool(children[s]) for s in tables}
    exp_q = {}

    def expected_q(s):
        if s in exp_q:
            return exp_q[s]
        flags = {}
        for n in tables[s]:
            for d in n.dofs():
                flags[(n.id, d)] = False
        # children in selist order (later writes win on shared rows; generated rows are disjoint)
        for c in [x[0] for x in selist if x[1] == s and x[0] != s]:
            arows = [(cn, d, l) for cn in asetnodes[c] for d, l in zip(cn.dofs(), cn.sets) if _in_a(l)]
            q = [l == "q" for _, _, l in arows]
            if not any(q):
                q = [d == 0 for _, d, _ in arows]
            if has_up[c]:
                fc = expected_q(c)
                q = [a or fc[(cn.id, d)] for a, (cn, d, _) in zip(q, arows)]
            if not any(q):
                continue
            grp = {k: n for n in tables[s] for (cc, k) in n.srcs if cc == c}
            k_of = {id(cn): k for k, cn in enumerate(asetnodes[c])}
            for a, (cn, d, _) in zip(q, arows):
                flags[(grp[k_of[id(cn)]].id, d)] = a
        exp_q[s] = flags
        return flags

    exp_a = {}
    for c in order:
        s = parent[c]
        rowpos = {}
        r = 0
        for n in tables[s]:
            for d in n.dofs():
                rowpos[(n.id, d)] = r
                r += 1
        grp = {k: n for n in tables[s] for (cc, k) in n.srcs if cc == c}
        exp, j = [], 0
        for k, cn in enumerate(asetnodes[c]):
            for d, l in zip(cn.dofs(), cn.sets):
                if _in_a(l):
                    if j not in skipped[c]:
                        exp.append(rowpos[(grp[k].id, d)])
                    j += 1
        exp_a[c] = exp
    exp_qv = {}
    for s in tables:
        if children[s]:
            f = expected_q(s)
            exp_qv[s] = [int(f[(n.id, d)]) for n in tables[s] for d in n.dofs()]
    # pandas tables
    uset = {}
    for s, table in tables.items():
        rows, words = [], []
        for n in table:
            for d, l in zip(n.dofs(), n.sets):
                rows.append([n.id, d])
                words.append(int(masks[l]))
        uset[s] = mk_table([r + [w] for r, w in zip(rows, words)])
    nas = {
        "selist": np.array(selist, dtype=np.int64),
        "uset": uset,
        "dnids": {c: np.array(v, dtype=np.int64) for c, v in dnids.items()},
        "maps": maps,
        "upids": upids_d,
    }
    dep = {0: 0}
    for c in order:
        dep[c] = dep[parent[c]] + 1
    # a connection is "re-ordered and flagged" when its maps is a true permutation and it carries a True flag
    reordered = [c for c in order if len(maps[c]) and [int(r[0]) for r in maps[c]] != sorted(int(r[0]) for r in maps[c])]
    info = {"style": style, "order": order, "parent": parent, "expected_upa": exp_a, "expected_upq": exp_qv,
            "depth": max(dep.values()), "shared": shared[0], "children": {s: list(v) for s, v in children.items()}, "reordered": reordered,
            "skipped": {c: sorted(v) for c, v in skipped.items()}, "notall6_q_mismatch": False}
    return nas, info


def mk_table(rows):
    """USET DataFrame from rows [id, dof, word] (the layout n2p.make_uset produces)"""
    import pandas as pd

    a = np.array(rows, dtype=np.int64).reshape(-1, 3)
    ind = pd.MultiIndex.from_arrays([a[:, 0], a[:, 1]], names=["id", "dof"])
    return pd.DataFrame({"nasset": a[:, 2], "x": np.nan, "y": np.nan, "z": np.nan}, index=ind)


def _boundary_rows(nas, c):
    sl = np.asarray(nas["selist"]).tolist()
    dn = [r[1] for r in sl if r[0] == c]
    if not dn or dn[0] not in nas["uset"]:
        return 0
    ids = set(np.asarray(nas["dnids"][c]).tolist())
    return sum(1 for (i, d) in nas["uset"][dn[0]].index.tolist() if i in ids)


DAMAGES = ["maps-scale", "maps-range", "maps-neg", "drop-dnid", "extra-dnid", "del-uset", "del-dnids", "del-maps",
           "del-upids", "selist-drop", "upids-short", "maps-short", "maps-perm", "dup-dnid", "selist-dup",
           "selist-cycle"]


def damage(rng, nas, what=None):
    """a copy with one inconsistency (for the correspondence only: error kinds and odd paths)"""
    n = {"selist": nas["selist"].copy(), "uset": dict(nas["uset"]),
         "dnids": {k: v.copy() for k, v in nas["dnids"].items()},
         "maps": {k: (v.copy() if isinstance(v, np.ndarray) else []) for k, v in nas["maps"].items()},
         "upids": {k: v.copy() for k, v in nas["upids"].items()}}
    ups = [int(s) for s in n["dnids"]]
    what = what or rng.choice(DAMAGES)
    c = rng.choice(ups)
    if what == "maps-scale":
        m = n["maps"][c]
        if isinstance(m, np.ndarray) and len(m):
            m[rng.randrange(len(m)), 1] = 2.0
        else:
            k = len(n["dnids"][c])
            n["maps"][c] = np.array([[float(j), 1.0 if j else 2.0] for j in range(max(k, 1))])
    elif what in ("maps-range", "maps-neg", "maps-short", "maps-perm"):
        m = n["maps"][c]
        if not (isinstance(m, np.ndarray) and len(m)):
            k = _boundary_rows(n, c)
            m = np.array([[float(j), 1.0] for j in range(k)]) if k else np.zeros((0, 2))
        if len(m):
            j = rng.randrange(len(m))
            if what == "maps-range":
                m[j, 0] = len(m) + rng.randint(0, 3)
            elif what == "maps-neg":
                m[j, 0] = -rng.randint(1, len(m))
            elif what == "maps-short":
                m = np.delete(m, j, axis=0)
            else:
                p = list(range(len(m)))
                rng.shuffle(p)
                m = m[p]
                if rng.random() < 0.5 and len(m) > 1:
                    m = m[:-1]
        n["maps"][c] = m if len(m) else []
    elif what == "drop-dnid" and len(n["dnids"][c]):
        n["dnids"][c] = np.delete(n["dnids"][c], rng.randrange(len(n["dnids"][c])))
    elif what == "extra-dnid":
        n["dnids"][c] = np.append(n["dnids"][c], rng.choice([99, 7, INTERNAL + 999]))
    elif what == "dup-dnid" and len(n["dnids"][c]):
        n["dnids"][c] = np.append(n["dnids"][c], n["dnids"][c][0])
    elif what == "del-uset":
        del n["uset"][rng.choice(list(n["uset"]))]
    elif what == "del-dnids":
        del n["dnids"][c]
    elif what == "del-maps":
        del n["maps"][c]
    elif what == "del-upids":
        del n["upids"][rng.choice(list(n["upids"]))]
    elif what == "selist-drop":
        n["selist"] = np.delete(n["selist"], rng.randrange(len(n["selist"])), axis=0)
    elif what == "selist-dup":
        r = n["selist"][rng.randrange(len(n["selist"]))].copy()
        n["selist"] = np.vstack([n["selist"], r])
    elif what == "selist-cycle":
        # an upstream SE becomes the downstream SE of its own downstream SE (a 2-cycle), or of the residual
        sl = n["selist"].tolist()
        deep = [r for r in sl if r[0] != r[1] and r[1] != 0]
        r = rng.choice(deep) if deep and rng.random() < 0.8 else rng.choice([x for x in sl if x[0] != x[1]])
        k = rng.randint(0, len(sl))
        n["selist"] = np.array(sl[:k] + [[r[1], r[0]]] + sl[k:], dtype=np.int64)
        c = r[0]
    elif what == "upids-short":
        k = rng.choice(list(n["upids"]))
        if len(n["upids"][k]):
            n["upids"][k] = n["upids"][k][:-1]
    return n, what, c


def serialize(nas):
    """the five sections of the driver request"""
    def tbl(u):
        out = []
        for (i, d), w in zip(u.index.tolist(), u["nasset"].values.tolist()):
            out += [int(i), int(d), int(w)]
        return " ".join(map(str, out))

    sl = " ".join(str(int(v)) for r in np.asarray(nas["selist"]).tolist() for v in r)
    us = " ; ".join("%d : %s" % (int(s), tbl(u)) for s, u in nas["uset"].items())
    dn = " ; ".join("%d : %s" % (int(s), " ".join(str(int(v)) for v in np.asarray(d).ravel().tolist()))
                    for s, d in nas["dnids"].items())
    mp = " ; ".join("%d : %s" % (int(s), " ".join(str(int(v)) for v in np.asarray(m).ravel().tolist()))
                    for s, m in nas["maps"].items())
    up = " ; ".join("%d : %s" % (int(s), " ".join(str(int(v)) for v in np.asarray(d).ravel().tolist()))
                    for s, d in nas["upids"].items() if d is not None)
    return " | ".join([sl, us, dn, mp, up])


def to_plain(nas):
    """JSON-able description of a dictionary (for replay files)"""
    return {
        "selist": np.asarray(nas["selist"]).tolist(),
        "uset": {str(int(s)): [[int(i), int(d), int(w)] for (i, d), w in zip(u.index.tolist(), u["nasset"].values.tolist())]
                 for s, u in nas["uset"].items()},
        "dnids": {str(int(s)): [int(v) for v in np.asarray(d).ravel().tolist()] for s, d in nas["dnids"].items()},
        "maps": {str(int(s)): np.asarray(m).reshape(-1, 2).tolist() if len(m) else [] for s, m in nas["maps"].items()},
        "upids": {str(int(s)): [int(v) for v in np.asarray(d).ravel().tolist()] for s, d in nas["upids"].items()
                  if d is not None},
    }


def from_plain(p):
    uset = {}
    for s, rows in p["uset"].items():
        uset[int(s)] = mk_table(rows)
    return {
        "selist": np.array(p["selist"], dtype=np.int64).reshape(-1, 2),
        "uset": uset,
        "dnids": {int(s): np.array(v, dtype=np.int64) for s, v in p["dnids"].items()},
        "maps": {int(s): (np.array(v, dtype=float).reshape(-1, 2) if len(v) else []) for s, v in p["maps"].items()},
        "upids": {int(s): np.array(v, dtype=np.int64) for s, v in p["upids"].items()},
    }


REAL_FILES = [
    "pyyeti/tests/nas2cam_csuper/nas2cam",
    "pyyeti/tests/nas2cam_extseout/nas2cam",
    "pyyeti/tests/nas2cam_extseout/nas2cam_notall6_msc2017_b",
]


def real_dictionaries(repo, matrices=False):
    """the nas2cam dictionaries of pyYeti's own test data (read with op2.rdnas2cam)"""
    import os
    import warnings
    from pyyeti.nastran import op2

    out = []
    for f in REAL_FILES:
        path = os.path.join(repo, f)
        if not os.path.exists(path + ".op2"):
            continue
        with warnings.catch_warnings():
            warnings.simplefilter("ignore")
            try:
                nas = op2.rdnas2cam(path)
            except Exception:  # noqa: BLE001 - reading op2 files is another property's subject
                continue
        keys = ("selist", "uset", "dnids", "maps", "upids") + (("got", "goq", "gm", "pha", "phg", "ulvs") if matrices else ())
        out.append((f, {k: nas[k] for k in keys if k in nas}))
    return out
